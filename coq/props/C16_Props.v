(* C16 -- Structural editing keeps a statechart sound; failed edits change nothing (and the structural half of C17). einv c = sound c (one tree, consistent parent/children, transitions from owning states to existing states, no dangling initial/memory, validate passes) + no state named "" + initial/memory only on compound/history states.
   Property theorems only: every statement below is the statement of a lemma proved in proofs/,
   printed by Coq and closed by `exact`. *)
From Coq Require Import List ZArith String.
From Sismic Require Import Base Chart Edit.
From Sismic Require Import EditCorr.
From SismicProofs Require Import EditProofs EditTraceProofs.
Import ListNotations.
Open Scope string_scope.

(* PRESERVE. Every successful editing call (add/remove/rename/move state, add/remove/rotate transition) on a sound statechart leaves it sound (side condition for add_state: the new state carries no initial and a memory that is already valid) *)
Theorem C16_preserve_thm :
  forall (c : chart) (op : eop) (c' : chart),
         einv c -> op_ok c op -> apply_eop c op = (c', EOk) -> einv c'.
Proof. exact C16_preserve. Qed.
Print Assumptions C16_preserve_thm.

(* that side condition is necessary *)
Theorem add_state_side_condition_needed_thm :
  forall (c : chart) (st : state) (p : option name) (c' : chart),
         einv c ->
         s_name st <> "" -> add_state c st p = (c', EOk) -> einv c' -> s_initial st = None /\ memory_ok c st p.
Proof. exact add_state_side_condition_needed. Qed.
Print Assumptions add_state_side_condition_needed_thm.

(* ATOMIC. A call that raises StatechartError or ValueError leaves the statechart exactly as it was - all seven operations *)
Theorem C16_atomic_thm :
  forall (c : chart) (op : eop) (c' : chart) (r : eres),
         sound c ->
         fields_ok c -> apply_eop c op = (c', r) -> r = EStatechartError \/ r = EValueError -> c' = c.
Proof. exact C16_atomic. Qed.
Print Assumptions C16_atomic_thm.

(* ... for every operation but remove_state even on an unsound statechart *)
Theorem C16_atomic_any_thm :
  forall (c : chart) (op : eop) (c' : chart) (r : eres),
         (forall n : name, op <> ERemoveState n) ->
         apply_eop c op = (c', r) -> r = EStatechartError \/ r = EValueError -> c' = c.
Proof. exact C16_atomic_any. Qed.
Print Assumptions C16_atomic_any_thm.

(* no other exception escapes from a sound statechart *)
Theorem C16_no_keyerror_thm :
  forall (c : chart) (op : eop) (c' : chart),
         einv c -> op_ok c op -> apply_eop c op = (c', EKeyError) -> False.
Proof. exact C16_no_keyerror. Qed.
Print Assumptions C16_no_keyerror_thm.

(* SEQUENCES. Soundness after any sequence of calls, successful or not *)
Theorem C16_seq_thm :
  forall (ops : list eop) (c : chart), einv c -> ops_ok c ops -> einv (run_ops c ops).
Proof. exact C16_seq. Qed.
Print Assumptions C16_seq_thm.

(* failed calls are no-ops: dropping them gives the same final statechart *)
Theorem C16_seq_skip_thm :
  forall (ops : list eop) (c : chart),
         einv c ->
         ops_ok c ops ->
         run_ops c ops = run_ops c (successful c ops) /\
         Forall (fun r : eres => r = EOk) (outcomes c (successful c ops)).
Proof. exact C16_seq_skip. Qed.
Print Assumptions C16_seq_skip_thm.

(* EFFECT remove_state: removes exactly the state and its descendants (never runs out of fuel, never a KeyError) *)
Theorem remove_state_spec_thm :
  forall (c : chart) (n : name),
         sound c ->
         fields_ok c ->
         remove_state c n = (if has_state c n then (rm (subtree_b c n) c, EOk) else (c, EStatechartError)).
Proof. exact remove_state_spec. Qed.
Print Assumptions remove_state_spec_thm.

(* ... from states/parent/children, removes exactly the transitions with an end among them, resets exactly the initial/memory fields naming one of them, keeps every order, changes nothing else *)
Theorem C16_effect_remove_state_thm :
  forall (c : chart) (n : name) (c' : chart),
         sound c ->
         fields_ok c ->
         remove_state c n = (c', EOk) ->
         let D := fun x : name => mem x (n :: descendants_for c n) in
         has_state c n = true /\
         c_name c' = c_name c /\
         c_description c' = c_description c /\
         c_preamble c' = c_preamble c /\
         c_states c' =
         filter (fun kv : name * state => negb (D (fst kv)))
           (map (fun kv : name * state => (fst kv, reset_refs D (snd kv))) (c_states c)) /\
         c_parent c' = filter (fun kv : name * option name => negb (D (fst kv))) (c_parent c) /\
         c_children c' =
         filter (fun kv : option name * list name => negb (oin D (fst kv)))
           (map (fun kv : option name * list name => (fst kv, filter (fun x : name => negb (D x)) (snd kv)))
              (c_children c)) /\
         c_transitions c' =
         filter (fun t : transition => negb (D (t_source t) || oin D (t_target t))) (c_transitions c).
Proof. exact C16_effect_remove_state. Qed.
Print Assumptions C16_effect_remove_state_thm.

(* EFFECT move_state *)
Theorem C16_effect_move_state_thm :
  forall (c : chart) (n p : name) (c' : chart),
         sound c ->
         fields_ok c ->
         move_state c n p = (c', EOk) ->
         has_state c n = true /\
         has_state c p = true /\
         ~ In p (n :: descendants_for c n) /\
         c_name c' = c_name c /\
         c_description c' = c_description c /\
         c_preamble c' = c_preamble c /\
         c_states c' = map (fun kv : name * state => (fst kv, reset_moved n (fst kv) (snd kv))) (c_states c) /\
         map fst (c_parent c') = map fst (c_parent c) /\
         (forall k : name,
          lookup k (c_parent c') = (if str_eqb k n then Some (Some p) else lookup k (c_parent c))) /\
         map fst (c_children c') = map fst (c_children c) /\
         (forall k : option name,
          olookup k (c_children c') =
          option_map
            (fun l : list name =>
             if opt_eqb str_eqb k (Some p) then (remove_first n l ++ [n])%list else remove_first n l)
            (olookup k (c_children c))) /\ c_transitions c' = c_transitions c.
Proof. exact C16_effect_move_state. Qed.
Print Assumptions C16_effect_move_state_thm.

(* EFFECT add_state *)
Theorem C16_effect_add_state_thm :
  forall (c : chart) (st : state) (p : option name) (c' : chart),
         sound c ->
         no_empty_name c ->
         s_name st <> "" ->
         add_state c st p = (c', EOk) ->
         has_state c (s_name st) = false /\
         c_name c' = c_name c /\
         c_description c' = c_description c /\
         c_preamble c' = c_preamble c /\
         c_states c' = (c_states c ++ [(s_name st, st)])%list /\
         c_parent c' = (c_parent c ++ [(s_name st, p)])%list /\
         map fst (c_children c') = (map fst (c_children c) ++ [Some (s_name st)])%list /\
         (forall k : option name,
          olookup k (c_children c') =
          (if opt_eqb str_eqb k p
           then option_map (fun l : list name => (l ++ [s_name st])%list) (olookup p (c_children c))
           else if opt_eqb str_eqb k (Some (s_name st)) then Some [] else olookup k (c_children c))) /\
         c_transitions c' = c_transitions c.
Proof. exact C16_effect_add_state. Qed.
Print Assumptions C16_effect_add_state_thm.

(* EFFECT add_transition *)
Theorem C16_effect_add_transition_thm :
  forall (c : chart) (t : transition) (c' : chart),
         add_transition c t = (c', EOk) -> c' = with_transitions c (c_transitions c ++ [t]).
Proof. exact C16_effect_add_transition. Qed.
Print Assumptions C16_effect_add_transition_thm.

(* EFFECT remove_transition (first equal transition) *)
Theorem C16_effect_remove_transition_thm :
  forall (c : chart) (t : transition) (c' : chart),
         remove_transition c t = (c', EOk) ->
         exists (l1 : list transition) (x : transition) (l2 : list transition),
           c_transitions c = (l1 ++ x :: l2)%list /\
           trans_eqb x t = true /\
           (forall y : transition, In y l1 -> trans_eqb y t = false) /\ c' = with_transitions c (l1 ++ l2).
Proof. exact C16_effect_remove_transition. Qed.
Print Assumptions C16_effect_remove_transition_thm.

(* EFFECT rotate_transition *)
Theorem C16_effect_rotate_transition_thm :
  forall (c : chart) (i : option nat) (ns : option name) (nt : option (option name)) (c' : chart),
         rotate_transition c i ns nt = (c', EOk) ->
         exists (j : nat) (t : transition),
           i = Some j /\
           nth_error (c_transitions c) j = Some t /\
           c' =
           with_transitions c
             (set_nth j
                {|
                  t_source := match ns with
                              | Some s => s
                              | None => t_source t
                              end;
                  t_target := match nt with
                              | Some tg => tg
                              | None => t_target t
                              end;
                  t_event := t_event t;
                  t_guard := t_guard t;
                  t_action := t_action t;
                  t_priority := t_priority t;
                  t_pre := t_pre t;
                  t_post := t_post t;
                  t_inv := t_inv t
                |} (c_transitions c)).
Proof. exact C16_effect_rotate_transition. Qed.
Print Assumptions C16_effect_rotate_transition_thm.

(* EFFECT rename_state = C17_structure: the result is the image of the statechart under the renaming old -> new (lookups of the image; the renamed key moves to the end of each dictionary / children list) *)
Theorem C17_structure_thm :
  forall (c : chart) (old new : name) (c' : chart),
         sound c ->
         fields_ok c ->
         old <> new ->
         rename_state c old new = (c', EOk) ->
         let M := map_chart (ren old new) c in
         has_state c old = true /\
         has_state c new = false /\
         c_name c' = c_name c /\
         c_description c' = c_description c /\
         c_preamble c' = c_preamble c /\
         c_transitions c' = c_transitions M /\
         (forall k : name, lookup k (c_states c') = lookup k (c_states M)) /\
         (forall k : name, lookup k (c_parent c') = lookup k (c_parent M)) /\
         (forall k : option name,
          olookup k (c_children c') = option_map (to_end new) (olookup k (c_children M))) /\
         map fst (c_states c') = (remove_first old (map fst (c_states c)) ++ [new])%list /\
         map fst (c_parent c') = (remove_first old (map fst (c_parent c)) ++ [new])%list /\
         map fst (c_children c') =
         (filter (fun k : option string => negb (opt_eqb str_eqb k (Some old))) (map fst (c_children c)) ++
          [Some new])%list.
Proof. exact C17_structure. Qed.
Print Assumptions C17_structure_thm.

(* in particular every transition keeps its shape: internal transitions stay internal, sources and targets follow the renaming *)
Theorem C17_internal_stay_internal_thm :
  forall (c : chart) (old new : name) (c' : chart),
         rename_state c old new = (c', EOk) ->
         c_transitions c' = map (map_trans (ren old new)) (c_transitions c) /\
         (forall (i : nat) (t' : transition),
          nth_error (c_transitions c') i = Some t' ->
          exists t : transition,
            nth_error (c_transitions c) i = Some t /\
            (t_target t' = None <-> t_target t = None) /\
            t_source t' = ren old new (t_source t) /\ t_target t' = option_map (ren old new) (t_target t)).
Proof. exact C17_internal_stay_internal. Qed.
Print Assumptions C17_internal_stay_internal_thm.

(* REMOVED OBJECTS (the objects a caller still holds after remove_state). The traced removal computes the same chart and result as remove_state, for every fuel *)
Theorem remove_state_trace_chart_thm :
  forall (f : nat) (c : chart) (n : name),
         (fst (fst (remove_state_trace f c n)), snd (remove_state_trace f c n)) = remove_state_fuel f c n.
Proof. exact EditTraceProofs.remove_state_trace_chart. Qed.
Print Assumptions remove_state_trace_chart_thm.

(* the removed objects are exactly the state and its descendants, each once, descendants before their ancestors, the state itself last *)
Theorem removed_objects_names_thm :
  forall (c : chart) (n : name),
         sound c ->
         fields_ok c ->
         has_state c n = true ->
         let names := map s_name (removed_objects c n) in
         Permutation.Permutation names (n :: descendants_for c n) /\
         NoDup names /\
         (exists l : list name, names = (l ++ [n])%list) /\
         (forall (i j : nat) (x y : name),
          nth_error names i = Some x -> nth_error names j = Some y -> In x (descendants_for c y) -> i < j).
Proof. exact EditTraceProofs.removed_objects_names. Qed.
Print Assumptions removed_objects_names_thm.

(* the value each removed object is left with: initial / memory reset exactly when they name a state popped no later, every other field unchanged *)
Theorem removed_objects_values_thm :
  forall (c : chart) (n : name),
         sound c ->
         fields_ok c ->
         has_state c n = true ->
         let L := removed_objects c n in
         let names := map s_name L in
         forall (i : nat) (x : name),
         nth_error names i = Some x ->
         exists s : state,
           lookup x (c_states c) = Some s /\
           nth_error L i = Some (reset_refs (fun y : name => mem y (firstn (S i) names)) s).
Proof. exact EditTraceProofs.removed_objects_values. Qed.
Print Assumptions removed_objects_values_thm.

(* a removed history state keeps its memory exactly when the remembered sibling follows it in the children list of their parent *)
Theorem removed_objects_memory_siblings_thm :
  forall (c : chart) (n : name),
         sound c ->
         fields_ok c ->
         has_state c n = true ->
         let L := removed_objects c n in
         let names := map s_name L in
         forall (i : nat) (x : name) (s v : state) (m : name),
         nth_error names i = Some x ->
         x <> n ->
         lookup x (c_states c) = Some s ->
         nth_error L i = Some v ->
         s_memory s = Some m ->
         exists p : name,
           parent_for c x = Some p /\
           In p names /\
           (s_memory v = None <-> before (children_for c p) m x) /\
           (s_memory v = Some m <-> before (children_for c p) x m).
Proof. exact EditTraceProofs.removed_objects_memory_siblings. Qed.
Print Assumptions removed_objects_memory_siblings_thm.

(* without "no state is named the empty string" the strictly-before form is false of the model (witness) *)
Theorem removed_objects_values_before_refuted_thm :
  exists (c : chart) (n : name),
           sound c /\
           fields_ok c /\
           has_state c n = true /\
           ~
           (forall (i : nat) (x : name),
            nth_error (map s_name (removed_objects c n)) i = Some x ->
            exists s : state,
              lookup x (c_states c) = Some s /\
              nth_error (removed_objects c n) i =
              Some (reset_refs (fun y : name => mem y (firstn i (map s_name (removed_objects c n)))) s)).
Proof. exact EditTraceProofs.removed_objects_values_before_refuted. Qed.
Print Assumptions removed_objects_values_before_refuted_thm.

(* the boolean side condition used by the correspondence check is the side condition of C16_preserve *)
Theorem op_ok_b_iff_thm :
  forall (c : chart) (op : eop), EditCorr.op_ok_b c op = true <-> op_ok c op.
Proof. exact EditTraceProofs.op_ok_b_iff. Qed.
Print Assumptions op_ok_b_iff_thm.
