(* C02 -- The active configuration is always a legal, stable statechart configuration.  wf_chart_b is the decidable form of DESIGN.md section 2 (proved to imply every hypothesis: wf_chart_b_sound); legal_b is the decidable form of "legal" (C02_legal_b_sound).
   Property theorems only: every statement below is the statement of a lemma proved in proofs/,
   printed by Coq and closed by `exact`. *)
From Coq Require Import List ZArith String.
From Sismic Require Import Base Chart Interp World Spec.
From SismicProofs Require Import C02Proofs.
Import ListNotations.
Open Scope string_scope.

(* RUN. For every well-formed statechart (section 2), every evaluator and listeners, and every sequence of queue / execute_once operations from the initial state in which the calls return normally: the configuration is empty, or the interpreter is initialised and the configuration is legal (root active, parent-closed, exactly one active child per active compound state, all children of an active orthogonal state active, no history state active) and stable (no stabilisation step is due) *)
Theorem C02_run_checked_thm :
  forall (ctx X : Type) (exec_code : call ctx -> ctx -> option (ctx * list event))
           (eval_code : call ctx -> ctx -> option bool) (emit : Z -> meta -> X -> X * option err) 
           (sc : chart),
         wf_chart_b sc = true ->
         forall (ops : list C05Proofs.op) (id : nat) (now : Z) (ignore : bool) (c0 : ctx) 
           (x : X) (tr : list (obs ctx)) (ms : list (option macrostep)) (s' : mstate ctx X),
         C05Proofs.runs ctx X exec_code eval_code emit sc ops
           {| m_i := init_istate id now ignore c0; m_x := x; m_tr := tr |} ms s' ->
         i_config (m_i s') = [] \/
         i_initialized (m_i s') = true /\
         legal_b sc (i_config (m_i s')) = true /\ create_stabilization_step ctx sc (m_i s') = None.
Proof. exact C02_run_checked. Qed.
Print Assumptions C02_run_checked_thm.

(* STEP. One normally returning execute_once preserves the invariant (memory well-formed; not initialised and empty / final and empty / legal and stable), from ANY state satisfying it *)
Theorem C02_step_checked_thm :
  forall (ctx X : Type) (exec_code : call ctx -> ctx -> option (ctx * list event))
           (eval_code : call ctx -> ctx -> option bool) (emit : Z -> meta -> X -> X * option err) 
           (sc : chart),
         wf_chart_b sc = true ->
         forall (fuel : nat) (now : Z) (s s' : mstate ctx X) (res : option macrostep),
         Inv ctx sc (m_i s) ->
         execute_once ctx X exec_code eval_code emit sc fuel now s = (s', inl res) -> Inv ctx sc (m_i s').
Proof. exact C02_step_checked. Qed.
Print Assumptions C02_step_checked_thm.

(* the same under the explicit hypotheses WF *)
Theorem C02_step_wf_thm :
  forall (ctx X : Type) (exec_code : call ctx -> ctx -> option (ctx * list event))
           (eval_code : call ctx -> ctx -> option bool) (emit : Z -> meta -> X -> X * option err) 
           (sc : chart) (r : name),
         WF sc r ->
         forall (fuel : nat) (now : Z) (s s' : mstate ctx X) (res : option macrostep),
         Inv ctx sc (m_i s) ->
         execute_once ctx X exec_code eval_code emit sc fuel now s = (s', inl res) -> Inv ctx sc (m_i s').
Proof. exact C02_step_wf. Qed.
Print Assumptions C02_step_wf_thm.

(* the decidable well-formedness check implies all sixteen hypotheses *)
Theorem wf_chart_b_sound_thm :
  forall sc : chart, wf_chart_b sc = true -> exists r : name, WF sc r.
Proof. exact wf_chart_b_sound. Qed.
Print Assumptions wf_chart_b_sound_thm.

(* the decidable legality check used on implementation outputs means legal *)
Theorem C02_legal_b_sound_thm :
  forall (sc : chart) (cfg : list name), legal_b sc cfg = true <-> legal sc cfg.
Proof. exact C02_legal_b_sound. Qed.
Print Assumptions C02_legal_b_sound_thm.

(* STABLE, no hypothesis on the chart: after an execute_once that returns a macro step nothing remains to be entered by default *)
Theorem C02_macro_end_stable_thm :
  forall (ctx X : Type) (exec_code : call ctx -> ctx -> option (ctx * list event))
           (eval_code : call ctx -> ctx -> option bool) (emit : Z -> meta -> X -> X * option err) 
           (sc : chart) (fuel : nat) (now : Z) (s s' : mstate ctx X) (t : Z) (steps : list microstep),
         execute_once ctx X exec_code eval_code emit sc fuel now s = (s', inl (Some (t, steps))) ->
         create_stabilization_step ctx sc (m_i s') = None /\ stable sc (i_config (m_i s')).
Proof. exact C02_macro_end_stable. Qed.
Print Assumptions C02_macro_end_stable_thm.

(* a call that returns None changes neither configuration nor memory *)
Theorem C02_no_step_unchanged_thm :
  forall (ctx X : Type) (exec_code : call ctx -> ctx -> option (ctx * list event))
           (eval_code : call ctx -> ctx -> option bool) (emit : Z -> meta -> X -> X * option err) 
           (sc : chart) (fuel : nat) (now : Z) (s s' : mstate ctx X),
         execute_once ctx X exec_code eval_code emit sc fuel now s = (s', inl None) ->
         i_config (m_i s') = i_config (m_i s) /\ i_memory (m_i s') = i_memory (m_i s).
Proof. exact C02_no_step_unchanged. Qed.
Print Assumptions C02_no_step_unchanged_thm.

(* FINAL. Once final (initialised, empty configuration) the configuration stays empty *)
Theorem C02_final_absorbing_thm :
  forall (ctx X : Type) (exec_code : call ctx -> ctx -> option (ctx * list event))
           (eval_code : call ctx -> ctx -> option bool) (emit : Z -> meta -> X -> X * option err) 
           (sc : chart) (fuel : nat) (now : Z) (s s' : mstate ctx X) (r : option macrostep),
         i_initialized (m_i s) = true ->
         i_config (m_i s) = [] ->
         execute_once ctx X exec_code eval_code emit sc fuel now s = (s', inl r) ->
         i_config (m_i s') = [] /\ is_final (m_i s') = true.
Proof. exact C02_final_absorbing. Qed.
Print Assumptions C02_final_absorbing_thm.

(* every legal configuration is stable *)
Theorem C02_legal_stable_thm :
  forall (sc : chart) (cfg : list name), legal sc cfg -> stable sc cfg.
Proof. exact C02_legal_stable. Qed.
Print Assumptions C02_legal_stable_thm.

(* conversely a tree-shaped (parent-closed, at most one active child per compound, no duplicates) stable configuration containing the root is legal *)
Theorem wk_stable_legal_thm :
  forall (sc : chart) (r : name),
         root sc = Some r ->
         (forall c p : name, In c (children_for sc p) <-> parent_for sc c = Some p) ->
         (forall p : name, NoDup (children_for sc p)) ->
         (forall n : name, state_for sc n <> None -> parent_for sc n = None -> n = r) ->
         (forall (n : name) (st : state),
          state_for sc n = Some st ->
          children_for sc n <> [] -> s_kind st = KCompound \/ s_kind st = KOrthogonal) ->
         forall cfg : list name, wk sc cfg -> In r cfg -> stable sc cfg -> legal sc cfg.
Proof. exact wk_stable_legal. Qed.
Print Assumptions wk_stable_legal_thm.

(* TERMINATION. Under section 2 stabilisation never depends on the fuel once it is at least 2|S|+2: _stabilize terminates *)
Theorem C02_stabilize_terminates_checked_thm :
  forall (ctx X : Type) (exec_code : call ctx -> ctx -> option (ctx * list event))
           (eval_code : call ctx -> ctx -> option bool) (emit : Z -> meta -> X -> X * option err) 
           (sc : chart),
         wf_chart_b sc = true ->
         forall (fuel fuel' : nat) (s : mstate ctx X),
         Inv ctx sc (m_i s) ->
         2 * Datatypes.length (c_states sc) + 2 <= fuel ->
         2 * Datatypes.length (c_states sc) + 2 <= fuel' ->
         stabilize ctx X exec_code eval_code emit sc fuel s =
         stabilize ctx X exec_code eval_code emit sc fuel' s.
Proof. exact C02_stabilize_terminates_checked. Qed.
Print Assumptions C02_stabilize_terminates_checked_thm.

(* ... and so does execute_once *)
Theorem C02_fuel_irrelevant_checked_thm :
  forall (ctx X : Type) (exec_code : call ctx -> ctx -> option (ctx * list event))
           (eval_code : call ctx -> ctx -> option bool) (emit : Z -> meta -> X -> X * option err) 
           (sc : chart),
         wf_chart_b sc = true ->
         forall (f1 f2 : nat) (now : Z) (s : mstate ctx X),
         Inv ctx sc (m_i s) ->
         2 * Datatypes.length (c_states sc) + 2 <= f1 ->
         2 * Datatypes.length (c_states sc) + 2 <= f2 ->
         execute_once ctx X exec_code eval_code emit sc f1 now s =
         execute_once ctx X exec_code eval_code emit sc f2 now s.
Proof. exact C02_fuel_irrelevant_checked. Qed.
Print Assumptions C02_fuel_irrelevant_checked_thm.
