(* C17 -- Renaming and copying states preserves behaviour (behavioural half; the structural half C17_structure / C17_internal_stay_internal is in C16_Props.v).
   Property theorems only: every statement below is the statement of a lemma proved in proofs/,
   printed by Coq and closed by `exact`. *)
From Coq Require Import List ZArith String.
From Sismic Require Import Base Chart Interp World Spec.
From SismicProofs Require Import C17Proofs.
From SismicProofs Require CorollaryProofs.
Import ListNotations.
Open Scope string_scope.

(* EQUIVARIANCE, one step. For every injective renaming rho that fixes the empty name and preserves the lexicographic order of the names of the statechart, and every evaluator/listeners that do not depend on state names: execute_once on the renamed chart from the renamed state yields exactly the rho-image of the original result (macro step with renamed exited/entered lists, same transitions, same events and sent events, or the image of the error), the image of the post-state and the image of the observation trace *)
Theorem C17_equivariance_thm :
  forall rho : name -> name,
         (forall a b : name, rho a = rho b -> a = b) ->
         rho "" = "" ->
         forall sc : chart,
         (forall a b : name, inN sc a -> inN sc b -> str_leb (rho a) (rho b) = str_leb a b) ->
         forall (ctx X X' : Type) (exec_code exec_code' : call ctx -> ctx -> option (ctx * list event))
           (eval_code eval_code' : call ctx -> ctx -> option bool) (emit : Z -> meta -> X -> X * option err)
           (emit' : Z -> meta -> X' -> X' * option err) (fx : X -> X'),
         (forall (c : call ctx) (x : ctx), exec_code' (map_call rho c) x = exec_code c x) ->
         (forall (c : call ctx) (x : ctx), eval_code' (map_call rho c) x = eval_code c x) ->
         (forall (t : Z) (m : meta) (x : X),
          emit' t (map_meta rho m) (fx x) =
          (fx (fst (emit t m x)), option_map (map_err rho) (snd (emit t m x)))) ->
         forall (fuel : nat) (now : Z) (s : mstate ctx X),
         closed sc ctx X s ->
         execute_once ctx X' exec_code' eval_code' emit' (map_chart rho sc) fuel now
           (map_mstate rho ctx X X' fx s) =
         (map_mstate rho ctx X X' fx (fst (execute_once ctx X exec_code eval_code emit sc fuel now s)),
          map_outcome rho (snd (execute_once ctx X exec_code eval_code emit sc fuel now s))) /\
         closed sc ctx X (fst (execute_once ctx X exec_code eval_code emit sc fuel now s)).
Proof. exact C17_equivariance. Qed.
Print Assumptions C17_equivariance_thm.

(* ... and for every input history (any sequence of queue / execute_once) *)
Theorem C17_equivariance_run_thm :
  forall rho : name -> name,
         (forall a b : name, rho a = rho b -> a = b) ->
         rho "" = "" ->
         forall sc : chart,
         (forall a b : name, inN sc a -> inN sc b -> str_leb (rho a) (rho b) = str_leb a b) ->
         forall (ctx X X' : Type) (exec_code exec_code' : call ctx -> ctx -> option (ctx * list event))
           (eval_code eval_code' : call ctx -> ctx -> option bool) (emit : Z -> meta -> X -> X * option err)
           (emit' : Z -> meta -> X' -> X' * option err) (fx : X -> X'),
         (forall (c : call ctx) (x : ctx), exec_code' (map_call rho c) x = exec_code c x) ->
         (forall (c : call ctx) (x : ctx), eval_code' (map_call rho c) x = eval_code c x) ->
         (forall (t : Z) (m : meta) (x : X),
          emit' t (map_meta rho m) (fx x) =
          (fx (fst (emit t m x)), option_map (map_err rho) (snd (emit t m x)))) ->
         forall (fuel : nat) (ops : list op) (s : mstate ctx X),
         closed sc ctx X s ->
         run_ops ctx X' exec_code' eval_code' emit' (map_chart rho sc) fuel ops (map_mstate rho ctx X X' fx s) =
         (map_mstate rho ctx X X' fx (fst (run_ops ctx X exec_code eval_code emit sc fuel ops s)),
          map (map_outcome rho) (snd (run_ops ctx X exec_code eval_code emit sc fuel ops s))) /\
         closed sc ctx X (fst (run_ops ctx X exec_code eval_code emit sc fuel ops s)).
Proof. exact C17_equivariance_run. Qed.
Print Assumptions C17_equivariance_run_thm.

(* global injectivity is no restriction: a renaming that is injective on finitely many names extends to a global injection *)
Theorem injection_extends_thm :
  forall (rho0 : name -> name) (L : list name),
         (forall a b : name, In a L -> In b L -> rho0 a = rho0 b -> a = b) ->
         (forall a : name, In a L -> rho0 a = "" <-> a = "") ->
         exists rho : string -> string,
           (forall a b : string, rho a = rho b -> a = b) /\
           rho "" = "" /\ (forall a : name, In a L -> rho a = rho0 a).
Proof. exact injection_extends. Qed.
Print Assumptions injection_extends_thm.

(* the theorem with all hypotheses restricted to the names that occur in the statechart *)
Theorem C17_equivariance_local_thm :
  forall (rho0 : name -> name) (L : list name) (sc : chart) (ctx X : Type)
           (exec_code : call ctx -> ctx -> option (ctx * list event))
           (eval_code : call ctx -> ctx -> option bool) (emit : Z -> meta -> X -> X * option err),
         incl (all_occ sc) L ->
         (forall a b : name, In a L -> In b L -> rho0 a = rho0 b -> a = b) ->
         (forall a : name, In a L -> rho0 a = "" <-> a = "") ->
         (forall a b : name, inN sc a -> inN sc b -> str_leb (rho0 a) (rho0 b) = str_leb a b) ->
         (forall (r : name -> name) (c : call ctx) (x : ctx), exec_code (map_call r c) x = exec_code c x) ->
         (forall (r : name -> name) (c : call ctx) (x : ctx), eval_code (map_call r c) x = eval_code c x) ->
         (forall (r : name -> name) (t : Z) (m : meta) (x : X),
          emit t (map_meta r m) x = (fst (emit t m x), option_map (map_err r) (snd (emit t m x)))) ->
         exists rho : name -> name,
           (forall a : name, In a L -> rho a = rho0 a) /\
           (forall a b : name, rho a = rho b -> a = b) /\
           (forall (fuel : nat) (ops : list op) (s : mstate ctx X),
            closed sc ctx X s ->
            run_ops ctx X exec_code eval_code emit (map_chart rho0 sc) fuel ops
              (map_mstate rho ctx X X (fun x : X => x) s) =
            (map_mstate rho ctx X X (fun x : X => x)
               (fst (run_ops ctx X exec_code eval_code emit sc fuel ops s)),
             map (map_outcome rho) (snd (run_ops ctx X exec_code eval_code emit sc fuel ops s)))).
Proof. exact C17_equivariance_local. Qed.
Print Assumptions C17_equivariance_local_thm.

(* the order hypothesis cannot be dropped: a non-monotone renaming changes the order in which orthogonal siblings are exited/entered *)
Theorem C17_monotonicity_needed_thm :
  exists (rho : name -> name) (sc : chart),
           (forall a b : name, rho a = rho b -> a = b) /\
           rho "" = "" /\
           (forall (c : call nat) (x : nat), Example.exec0 (map_call rho c) x = Example.exec0 c x) /\
           (forall (c : call nat) (x : nat), Example.eval0 (map_call rho c) x = Example.eval0 c x) /\
           closed sc nat nat Example.s0 /\ Example.run (map_chart rho sc) <> Example.image rho (Example.run sc).
Proof. exact C17_monotonicity_needed. Qed.
Print Assumptions C17_monotonicity_needed_thm.

(* RENAME_STATE, end to end: for a sound statechart and an order-preserving renaming old -> new (new fresh), the statechart produced by rename_state gives, for every input history from a fresh interpreter, the image of the original run (composition of C17_structure, the equivariance theorem and C07_decl_order: the renamed key moves to the end of the dictionaries) *)
Theorem C17_rename_run_fresh_thm :
  forall (c : chart) (old new : string) (c' : chart),
         CorollaryProofs.E.sound c ->
         CorollaryProofs.E.fields_ok c ->
         CorollaryProofs.E.no_empty_name c ->
         new <> "" ->
         old <> new ->
         Edit.rename_state c old new = (c', Edit.EOk) ->
         (forall a b : name,
          CorollaryProofs.C17.inN c a ->
          CorollaryProofs.C17.inN c b ->
          str_leb (CorollaryProofs.E.ren old new a) (CorollaryProofs.E.ren old new b) = str_leb a b) ->
         let rho := CorollaryProofs.C17.swap old new in
         forall (ctx X : Type) (exec : call ctx -> ctx -> option (ctx * list event))
           (eval : call ctx -> ctx -> option bool) (emit : Z -> meta -> X -> X * option err),
         (forall (cl : call ctx) (x : ctx), exec (CorollaryProofs.C17.map_call rho cl) x = exec cl x) ->
         (forall (cl : call ctx) (x : ctx), eval (CorollaryProofs.C17.map_call rho cl) x = eval cl x) ->
         (forall (t : Z) (m : meta) (x : X),
          emit t (CorollaryProofs.C17.map_meta rho m) x =
          (fst (emit t m x), option_map (CorollaryProofs.C17.map_err rho) (snd (emit t m x)))) ->
         forall (ops : list CorollaryProofs.C7.op) (id : nat) (now : Z) (ignore : bool) (c0 : ctx) (x : X),
         CorollaryProofs.C7.same_outcome
           (CorollaryProofs.map_run rho ctx X
              (CorollaryProofs.C7.run_ops ctx X exec eval emit c ops
                 {| m_i := init_istate id now ignore c0; m_x := x; m_tr := [] |}))
           (CorollaryProofs.C7.run_ops ctx X exec eval emit c' ops
              {| m_i := init_istate id now ignore c0; m_x := x; m_tr := [] |}).
Proof. exact CorollaryProofs.C17_rename_run_fresh. Qed.
Print Assumptions C17_rename_run_fresh_thm.

(* the statechart produced by rename_state is, up to declaration order, the image of the original under the renaming; transition list identical to the image *)
Theorem rename_structure_thm :
  forall (c : chart) (old new : string) (c' : chart),
         CorollaryProofs.E.sound c ->
         CorollaryProofs.E.fields_ok c ->
         CorollaryProofs.E.no_empty_name c ->
         new <> "" ->
         old <> new -> Edit.rename_state c old new = (c', Edit.EOk) -> CorollaryProofs.rename_rel c c' old new.
Proof. exact CorollaryProofs.rename_structure. Qed.
Print Assumptions rename_structure_thm.
