(* C17 -- Renaming and copying states preserves behaviour (behavioural half; the structural half C17_structure / C17_internal_stay_internal is in C16_Props.v).
   Property theorems only: every statement below is the statement of a lemma proved in proofs/,
   printed by Coq and closed by `exact`. *)
From Coq Require Import List ZArith String.
From Sismic Require Import Base Chart Interp World Spec.
From SismicProofs Require Import C17Proofs.
From SismicProofs Require CorollaryProofs.
From Sismic Require Import Edit Copy.
From SismicProofs Require EditProofs CopyProofs WrapProofs C17ComposeProofs.
Import ListNotations.
Open Scope string_scope.

(* EQUIVARIANCE, one step. For every injective renaming rho that fixes the empty name and preserves the lexicographic order of the names of the statechart, and every evaluator/listeners that do not depend on state names: execute_once on the renamed chart from the renamed state yields exactly the rho-image of the original result (macro step with renamed exited/entered lists, same transitions, same events and sent events, or the image of the error), the image of the post-state and the image of the observation trace *)
Theorem C17_equivariance_thm :
  forall rho : name -> name,
         (forall a b : name, rho a = rho b -> a = b) ->
         rho "" = "" ->
         forall sc : chart,
         (forall a b : name, inN sc a -> inN sc b -> str_leb (rho a) (rho b) = str_leb a b) ->
         forall (ctx X X' : Type) (exec_code exec_code' : call ctx -> ctx -> option (ctx * list event))
           (eval_code eval_code' : call ctx -> ctx -> option bool) (emit : Z -> meta -> X -> X * option err)
           (emit' : Z -> meta -> X' -> X' * option err) (fx : X -> X'),
         (forall (c : call ctx) (x : ctx), exec_code' (map_call rho c) x = exec_code c x) ->
         (forall (c : call ctx) (x : ctx), eval_code' (map_call rho c) x = eval_code c x) ->
         (forall (t : Z) (m : meta) (x : X),
          emit' t (map_meta rho m) (fx x) =
          (fx (fst (emit t m x)), option_map (map_err rho) (snd (emit t m x)))) ->
         forall (fuel : nat) (now : Z) (s : mstate ctx X),
         closed sc ctx X s ->
         execute_once ctx X' exec_code' eval_code' emit' (map_chart rho sc) fuel now
           (map_mstate rho ctx X X' fx s) =
         (map_mstate rho ctx X X' fx (fst (execute_once ctx X exec_code eval_code emit sc fuel now s)),
          map_outcome rho (snd (execute_once ctx X exec_code eval_code emit sc fuel now s))) /\
         closed sc ctx X (fst (execute_once ctx X exec_code eval_code emit sc fuel now s)).
Proof. exact C17_equivariance. Qed.
Print Assumptions C17_equivariance_thm.

(* ... and for every input history (any sequence of queue / execute_once) *)
Theorem C17_equivariance_run_thm :
  forall rho : name -> name,
         (forall a b : name, rho a = rho b -> a = b) ->
         rho "" = "" ->
         forall sc : chart,
         (forall a b : name, inN sc a -> inN sc b -> str_leb (rho a) (rho b) = str_leb a b) ->
         forall (ctx X X' : Type) (exec_code exec_code' : call ctx -> ctx -> option (ctx * list event))
           (eval_code eval_code' : call ctx -> ctx -> option bool) (emit : Z -> meta -> X -> X * option err)
           (emit' : Z -> meta -> X' -> X' * option err) (fx : X -> X'),
         (forall (c : call ctx) (x : ctx), exec_code' (map_call rho c) x = exec_code c x) ->
         (forall (c : call ctx) (x : ctx), eval_code' (map_call rho c) x = eval_code c x) ->
         (forall (t : Z) (m : meta) (x : X),
          emit' t (map_meta rho m) (fx x) =
          (fx (fst (emit t m x)), option_map (map_err rho) (snd (emit t m x)))) ->
         forall (fuel : nat) (ops : list op) (s : mstate ctx X),
         closed sc ctx X s ->
         run_ops ctx X' exec_code' eval_code' emit' (map_chart rho sc) fuel ops (map_mstate rho ctx X X' fx s) =
         (map_mstate rho ctx X X' fx (fst (run_ops ctx X exec_code eval_code emit sc fuel ops s)),
          map (map_outcome rho) (snd (run_ops ctx X exec_code eval_code emit sc fuel ops s))) /\
         closed sc ctx X (fst (run_ops ctx X exec_code eval_code emit sc fuel ops s)).
Proof. exact C17_equivariance_run. Qed.
Print Assumptions C17_equivariance_run_thm.

(* global injectivity is no restriction: a renaming that is injective on finitely many names extends to a global injection *)
Theorem injection_extends_thm :
  forall (rho0 : name -> name) (L : list name),
         (forall a b : name, In a L -> In b L -> rho0 a = rho0 b -> a = b) ->
         (forall a : name, In a L -> rho0 a = "" <-> a = "") ->
         exists rho : string -> string,
           (forall a b : string, rho a = rho b -> a = b) /\
           rho "" = "" /\ (forall a : name, In a L -> rho a = rho0 a).
Proof. exact injection_extends. Qed.
Print Assumptions injection_extends_thm.

(* the theorem with all hypotheses restricted to the names that occur in the statechart *)
Theorem C17_equivariance_local_thm :
  forall (rho0 : name -> name) (L : list name) (sc : chart) (ctx X : Type)
           (exec_code : call ctx -> ctx -> option (ctx * list event))
           (eval_code : call ctx -> ctx -> option bool) (emit : Z -> meta -> X -> X * option err),
         incl (all_occ sc) L ->
         (forall a b : name, In a L -> In b L -> rho0 a = rho0 b -> a = b) ->
         (forall a : name, In a L -> rho0 a = "" <-> a = "") ->
         (forall a b : name, inN sc a -> inN sc b -> str_leb (rho0 a) (rho0 b) = str_leb a b) ->
         (forall (r : name -> name) (c : call ctx) (x : ctx), exec_code (map_call r c) x = exec_code c x) ->
         (forall (r : name -> name) (c : call ctx) (x : ctx), eval_code (map_call r c) x = eval_code c x) ->
         (forall (r : name -> name) (t : Z) (m : meta) (x : X),
          emit t (map_meta r m) x = (fst (emit t m x), option_map (map_err r) (snd (emit t m x)))) ->
         exists rho : name -> name,
           (forall a : name, In a L -> rho a = rho0 a) /\
           (forall a b : name, rho a = rho b -> a = b) /\
           (forall (fuel : nat) (ops : list op) (s : mstate ctx X),
            closed sc ctx X s ->
            run_ops ctx X exec_code eval_code emit (map_chart rho0 sc) fuel ops
              (map_mstate rho ctx X X (fun x : X => x) s) =
            (map_mstate rho ctx X X (fun x : X => x)
               (fst (run_ops ctx X exec_code eval_code emit sc fuel ops s)),
             map (map_outcome rho) (snd (run_ops ctx X exec_code eval_code emit sc fuel ops s)))).
Proof. exact C17_equivariance_local. Qed.
Print Assumptions C17_equivariance_local_thm.

(* the order hypothesis cannot be dropped: a non-monotone renaming changes the order in which orthogonal siblings are exited/entered *)
Theorem C17_monotonicity_needed_thm :
  exists (rho : name -> name) (sc : chart),
           (forall a b : name, rho a = rho b -> a = b) /\
           rho "" = "" /\
           (forall (c : call nat) (x : nat), Example.exec0 (map_call rho c) x = Example.exec0 c x) /\
           (forall (c : call nat) (x : nat), Example.eval0 (map_call rho c) x = Example.eval0 c x) /\
           closed sc nat nat Example.s0 /\ Example.run (map_chart rho sc) <> Example.image rho (Example.run sc).
Proof. exact C17_monotonicity_needed. Qed.
Print Assumptions C17_monotonicity_needed_thm.

(* RENAME_STATE, end to end: for a sound statechart and an order-preserving renaming old -> new (new fresh), the statechart produced by rename_state gives, for every input history from a fresh interpreter, the image of the original run (composition of C17_structure, the equivariance theorem and C07_decl_order: the renamed key moves to the end of the dictionaries) *)
Theorem C17_rename_run_fresh_thm :
  forall (c : chart) (old new : string) (c' : chart),
         CorollaryProofs.E.sound c ->
         CorollaryProofs.E.fields_ok c ->
         CorollaryProofs.E.no_empty_name c ->
         new <> "" ->
         old <> new ->
         Edit.rename_state c old new = (c', Edit.EOk) ->
         (forall a b : name,
          CorollaryProofs.C17.inN c a ->
          CorollaryProofs.C17.inN c b ->
          str_leb (CorollaryProofs.E.ren old new a) (CorollaryProofs.E.ren old new b) = str_leb a b) ->
         let rho := CorollaryProofs.C17.swap old new in
         forall (ctx X : Type) (exec : call ctx -> ctx -> option (ctx * list event))
           (eval : call ctx -> ctx -> option bool) (emit : Z -> meta -> X -> X * option err),
         (forall (cl : call ctx) (x : ctx), exec (CorollaryProofs.C17.map_call rho cl) x = exec cl x) ->
         (forall (cl : call ctx) (x : ctx), eval (CorollaryProofs.C17.map_call rho cl) x = eval cl x) ->
         (forall (t : Z) (m : meta) (x : X),
          emit t (CorollaryProofs.C17.map_meta rho m) x =
          (fst (emit t m x), option_map (CorollaryProofs.C17.map_err rho) (snd (emit t m x)))) ->
         forall (ops : list CorollaryProofs.C7.op) (id : nat) (now : Z) (ignore : bool) (c0 : ctx) (x : X),
         CorollaryProofs.C7.same_outcome
           (CorollaryProofs.map_run rho ctx X
              (CorollaryProofs.C7.run_ops ctx X exec eval emit c ops
                 {| m_i := init_istate id now ignore c0; m_x := x; m_tr := [] |}))
           (CorollaryProofs.C7.run_ops ctx X exec eval emit c' ops
              {| m_i := init_istate id now ignore c0; m_x := x; m_tr := [] |}).
Proof. exact CorollaryProofs.C17_rename_run_fresh. Qed.
Print Assumptions C17_rename_run_fresh_thm.

(* the statechart produced by rename_state is, up to declaration order, the image of the original under the renaming; transition list identical to the image *)
Theorem rename_structure_thm :
  forall (c : chart) (old new : string) (c' : chart),
         CorollaryProofs.E.sound c ->
         CorollaryProofs.E.fields_ok c ->
         CorollaryProofs.E.no_empty_name c ->
         new <> "" ->
         old <> new -> Edit.rename_state c old new = (c', Edit.EOk) -> CorollaryProofs.rename_rel c c' old new.
Proof. exact CorollaryProofs.rename_structure. Qed.
Print Assumptions rename_structure_thm.

(* COPY, structure. What copy_from_statechart builds (theories/Copy.v, the model checked against the implementation on every plug attempt of the check): for a sound host and guest, an existing childless state to replace, fresh pairwise distinct images and transitions contained in the copied subtree, the call succeeds and the host gains exactly the image of the source sub-statechart under the renaming (states with name / initial / memory mapped, parents, children lists in the guest order, the transitions touching the subtree, each once), everything else of the host unchanged *)
Theorem C17_copy_structure_thm :
  forall (host guest : chart) (source replace : name) (rho : list (name * name)),
         EditProofs.einv host ->
         EditProofs.einv guest ->
         has_state host replace = true ->
         children_for host replace = [] ->
         has_state guest source = true ->
         source = replace \/ has_state guest replace = false ->
         (forall n : name, In n (descendants_for guest source) -> has_state host (rho_apply rho n) = false) ->
         (forall n : name, In n (descendants_for guest source) -> rho_apply rho n <> "") ->
         NoDup (map (rho_apply rho) (descendants_for guest source)) ->
         (forall n : name,
          In n (descendants_for guest source) ->
          rho_apply rho n = n \/ has_state guest (rho_apply rho n) = false) ->
         (forall (n p : name) (sp sn : state),
          In n (descendants_for guest source) ->
          lookup n (c_parent guest) = Some (Some p) ->
          lookup p (c_states guest) = Some sp ->
          lookup n (c_states guest) = Some sn ->
          is_composite (s_kind sp) = true /\ (is_history (s_kind sn) = true -> s_kind sp = KCompound)) ->
         (forall t : transition,
          In t (c_transitions guest) ->
          forall tg : name,
          t_target t = Some tg ->
          t_source t = source \/ In (t_source t) (descendants_for guest source) <->
          tg = source \/ In tg (descendants_for guest source)) ->
         exists h' : chart,
           copy_from_statechart host guest source replace rho = (h', EOk) /\
           map fst (c_states h') =
           (map fst (c_states host) ++ map (rho_apply rho) (descendants_for guest source))%list /\
           c_parent h' =
           (c_parent host ++
            map
              (fun n : name =>
               (rho_apply rho n, option_map (CopyProofs.rs guest source replace rho) (parent_for guest n)))
              (descendants_for guest source))%list /\
           map fst (c_children h') =
           (map fst (c_children host) ++
            map (fun n : name => Some (rho_apply rho n)) (descendants_for guest source))%list /\
           (forall (n : name) (s : state),
            CopyProofs.in_S guest source n ->
            lookup n (c_states guest) = Some s ->
            lookup (CopyProofs.rs guest source replace rho n) (c_states h') =
            Some (EditProofs.map_state (CopyProofs.rs guest source replace rho) s)) /\
           (forall n : name,
            In n (descendants_for guest source) ->
            lookup (CopyProofs.rs guest source replace rho n) (c_parent h') =
            Some (option_map (CopyProofs.rs guest source replace rho) (parent_for guest n))) /\
           lookup replace (c_parent h') = lookup replace (c_parent host) /\
           (forall n : name,
            CopyProofs.in_S guest source n ->
            olookup (Some (CopyProofs.rs guest source replace rho n)) (c_children h') =
            Some (map (CopyProofs.rs guest source replace rho) (children_for guest n))) /\
           (forall x : name,
            has_state host x = true -> x <> replace -> lookup x (c_states h') = lookup x (c_states host)) /\
           (forall x : name, has_state host x = true -> lookup x (c_parent h') = lookup x (c_parent host)) /\
           (forall k : option name,
            olookup k (c_children host) <> None ->
            k <> Some replace -> olookup k (c_children h') = olookup k (c_children host)) /\
           (exists (g2 : chart) (idxs : list nat),
              EditProofs.einv g2 /\
              CopyProofs.img (CopyProofs.rs guest source replace rho) guest g2 /\
              idxs = collect_transitions g2 (replace :: descendants_for g2 replace) [] /\
              c_transitions h' =
              (c_transitions host ++
               map (EditProofs.map_trans (CopyProofs.rs guest source replace rho))
                 (flat_map (nth_trans (c_transitions guest)) idxs))%list /\
              NoDup idxs /\
              (forall i : nat,
               In i idxs <->
               (exists t : transition,
                  nth_error (c_transitions guest) i = Some t /\
                  (CopyProofs.in_S guest source (t_source t) \/
                   (exists tg : name, t_target t = Some tg /\ CopyProofs.in_S guest source tg))))) /\
           c_name h' = c_name host /\ c_description h' = c_description host /\ c_preamble h' = c_preamble host.
Proof. exact CopyProofs.C17_copy_structure. Qed.
Print Assumptions C17_copy_structure_thm.

(* the order of the copied transitions when the renaming moves every descendant or none *)
Theorem C17_copy_transitions_order_thm :
  forall (host guest : chart) (source replace : name) (rho : list (name * name)),
         EditProofs.einv host ->
         EditProofs.einv guest ->
         has_state host replace = true ->
         children_for host replace = [] ->
         has_state guest source = true ->
         source = replace \/ has_state guest replace = false ->
         (forall n : name, In n (descendants_for guest source) -> has_state host (rho_apply rho n) = false) ->
         (forall n : name, In n (descendants_for guest source) -> rho_apply rho n <> "") ->
         NoDup (map (rho_apply rho) (descendants_for guest source)) ->
         (forall n : name,
          In n (descendants_for guest source) ->
          rho_apply rho n = n \/ has_state guest (rho_apply rho n) = false) ->
         (forall (n p : name) (sp sn : state),
          In n (descendants_for guest source) ->
          lookup n (c_parent guest) = Some (Some p) ->
          lookup p (c_states guest) = Some sp ->
          lookup n (c_states guest) = Some sn ->
          is_composite (s_kind sp) = true /\ (is_history (s_kind sn) = true -> s_kind sp = KCompound)) ->
         (forall t : transition,
          In t (c_transitions guest) ->
          forall tg : name,
          t_target t = Some tg ->
          t_source t = source \/ In (t_source t) (descendants_for guest source) <->
          tg = source \/ In tg (descendants_for guest source)) ->
         (forall n : name, In n (descendants_for guest source) -> rho_apply rho n <> n) \/
         (forall n : name, In n (descendants_for guest source) -> rho_apply rho n = n) ->
         exists h' : chart,
           copy_from_statechart host guest source replace rho = (h', EOk) /\
           c_transitions h' =
           (c_transitions host ++
            map (EditProofs.map_trans (CopyProofs.rs guest source replace rho))
              (flat_map (nth_trans (c_transitions guest))
                 (collect_transitions guest (source :: descendants_for guest source) [])))%list.
Proof. exact CopyProofs.C17_copy_transitions_order. Qed.
Print Assumptions C17_copy_transitions_order_thm.

(* COPY, soundness: the host stays sound (side conditions K1: the source state has no memory, K2: the source may own transitions if the replaced state has outgoing ones) *)
Theorem C17_copy_sound_thm :
  forall (host guest : chart) (source replace : name) (rho : list (name * name)),
         EditProofs.einv host ->
         EditProofs.einv guest ->
         has_state host replace = true ->
         children_for host replace = [] ->
         has_state guest source = true ->
         source = replace \/ has_state guest replace = false ->
         (forall n : name, In n (descendants_for guest source) -> has_state host (rho_apply rho n) = false) ->
         (forall n : name, In n (descendants_for guest source) -> rho_apply rho n <> "") ->
         NoDup (map (rho_apply rho) (descendants_for guest source)) ->
         (forall n : name,
          In n (descendants_for guest source) ->
          rho_apply rho n = n \/ has_state guest (rho_apply rho n) = false) ->
         (forall (n p : name) (sp sn : state),
          In n (descendants_for guest source) ->
          lookup n (c_parent guest) = Some (Some p) ->
          lookup p (c_states guest) = Some sp ->
          lookup n (c_states guest) = Some sn ->
          is_composite (s_kind sp) = true /\ (is_history (s_kind sn) = true -> s_kind sp = KCompound)) ->
         (forall t : transition,
          In t (c_transitions guest) ->
          forall tg : name,
          t_target t = Some tg ->
          t_source t = source \/ In (t_source t) (descendants_for guest source) <->
          tg = source \/ In tg (descendants_for guest source)) ->
         s_memory (CopyProofs.state_of guest source) = None ->
         (forall t : transition,
          In t (c_transitions host) ->
          t_source t = replace -> owns_transitions (s_kind (CopyProofs.state_of guest source)) = true) ->
         exists h' : chart,
           copy_from_statechart host guest source replace rho = (h', EOk) /\ EditProofs.einv h'.
Proof. exact CopyProofs.C17_copy_sound. Qed.
Print Assumptions C17_copy_sound_thm.

(* ... and those side conditions are needed: a final state copied over a state with an outgoing transition (witness) *)
Theorem C17_copy_sound_unconditional_refuted_thm :
  exists (host guest : chart) (source replace : name) (rho : list (name * name)) 
         (h' : chart),
           EditProofs.einv host /\
           EditProofs.einv guest /\
           copy_from_statechart host guest source replace rho = (h', EOk) /\ ~ EditProofs.sound h'.
Proof. exact CopyProofs.C17_copy_sound_unconditional_refuted. Qed.
Print Assumptions C17_copy_sound_unconditional_refuted_thm.

(* ... a history state copied without the sibling its memory names (witness) *)
Theorem C17_copy_sound_history_memory_refuted_thm :
  exists (host guest : chart) (source replace : name) (rho : list (name * name)) 
         (h' : chart),
           EditProofs.einv host /\
           EditProofs.einv guest /\
           copy_from_statechart host guest source replace rho = (h', EOk) /\
           ~ EditProofs.sound h' /\ validate h' = false.
Proof. exact CopyProofs.C17_copy_sound_history_memory_refuted. Qed.
Print Assumptions C17_copy_sound_history_memory_refuted_thm.

(* the copied transitions are NOT always in the guest's own order: a renaming that fixes some children and moves others (witness) *)
Theorem C17_copy_transitions_guest_order_refuted_thm :
  exists (host guest : chart) (source replace : name) (rho : list (name * name)) 
         (h' : chart),
           EditProofs.einv host /\
           EditProofs.einv guest /\
           copy_from_statechart host guest source replace rho = (h', EOk) /\
           EditProofs.einv h' /\
           c_transitions h' <>
           (c_transitions host ++
            map (EditProofs.map_trans (CopyProofs.rs guest source replace rho))
              (flat_map (nth_trans (c_transitions guest))
                 (collect_transitions guest (source :: descendants_for guest source) [])))%list.
Proof. exact CopyProofs.C17_copy_transitions_guest_order_refuted. Qed.
Print Assumptions C17_copy_transitions_guest_order_refuted_thm.

(* a refused copy (no such state to replace, or it has children, or the source cannot take its name) leaves the host unchanged *)
Theorem copy_refused_unchanged_thm :
  forall (host guest : chart) (source replace : name) (rho : list (name * name)),
         (has_state host replace = false ->
          copy_from_statechart host guest source replace rho = (host, EStatechartError)) /\
         (children_for host replace <> [] ->
          copy_from_statechart host guest source replace rho = (host, EStatechartError)) /\
         (forall (g : chart) (r : eres),
          rename_state guest source replace = (g, r) ->
          r <> EOk ->
          copy_from_statechart host guest source replace rho = (host, r) \/
          copy_from_statechart host guest source replace rho = (host, EStatechartError)) /\
         (forall (g : chart) (r : eres),
          has_state host replace = true ->
          children_for host replace = [] ->
          rename_state guest source replace = (g, r) ->
          r <> EOk -> copy_from_statechart host guest source replace rho = (host, r) /\ r = EStatechartError).
Proof. exact CopyProofs.copy_refused_unchanged. Qed.
Print Assumptions copy_refused_unchanged_thm.

(* each transition touching the copied subtree is taken exactly once *)
Theorem copy_transitions_once_thm :
  forall (g : chart) (names : list name),
         NoDup (collect_transitions g names []) /\
         (forall i : nat,
          In i (collect_transitions g names []) <->
          (exists t : transition,
             nth_error (c_transitions g) i = Some t /\
             (In (t_source t) names \/ (exists tg : name, t_target t = Some tg /\ In tg names)))).
Proof. exact CopyProofs.copy_transitions_once. Qed.
Print Assumptions copy_transitions_once_thm.

(* what bit 4 of the correspondence check of copy cases means *)
Theorem check_ccase_bit4_thm :
  forall c : ccase,
         EditProofs.no_empty_name (cc_host c) ->
         EditProofs.no_empty_name (cc_guest c) ->
         EditProofs.no_empty_name (cc_post c) ->
         N.testbit (check_ccase c) 2 = false <->
         (EditProofs.sound (cc_host c) ->
          EditProofs.sound (cc_guest c) -> cc_res c = EOk -> EditProofs.sound (cc_post c)).
Proof. exact CopyProofs.check_ccase_bit4. Qed.
Print Assumptions check_ccase_bit4_thm.

(* EMBEDDING. The host shape used by the check: a statechart c placed under a new compound root h (wrap c h; no code, no contracts, no transitions of its own). For a chart satisfying wrap_ok (decidable: wrap_okb; in particular the root has no final child), an evaluator that does not see h and any listeners: execute_once on the wrapped chart from the wrapped state returns exactly the result of c (same macro step - event, transitions, exited/entered lists, sent events - or the same error) and the wrapped post-state *)
Theorem C17_wrap_step_thm :
  forall (c : chart) (r h : name),
         WrapProofs.wrap_ok c r h ->
         forall (ctx X : Type) (exec_code exec_code' : call ctx -> ctx -> option (ctx * list event))
           (eval_code eval_code' : call ctx -> ctx -> option bool) (emit : Z -> meta -> X -> X * option err),
         (forall (cl : call ctx) (x : ctx), exec_code' (WrapProofs.wrap_call h cl) x = exec_code cl x) ->
         (forall (cl : call ctx) (x : ctx), eval_code' (WrapProofs.wrap_call h cl) x = eval_code cl x) ->
         forall (t0 : Z) (fuel : nat) (now : Z) (s : mstate ctx X),
         WrapProofs.wrap_inv c ctx X s ->
         WrapProofs.root_active r ctx X s ->
         execute_once ctx X exec_code' eval_code' emit (WrapProofs.wrap c h) fuel now
           (WrapProofs.wrap_mstate h t0 s) =
         (WrapProofs.wrap_mstate h t0 (fst (execute_once ctx X exec_code eval_code emit c fuel now s)),
          snd (execute_once ctx X exec_code eval_code emit c fuel now s)) /\
         WrapProofs.wrap_inv c ctx X (fst (execute_once ctx X exec_code eval_code emit c fuel now s)) /\
         (forall m : option macrostep,
          snd (execute_once ctx X exec_code eval_code emit c fuel now s) = inl m ->
          WrapProofs.root_active r ctx X (fst (execute_once ctx X exec_code eval_code emit c fuel now s))).
Proof. exact WrapProofs.C17_wrap_step. Qed.
Print Assumptions C17_wrap_step_thm.

(* the same for queue() *)
Theorem C17_wrap_queue_thm :
  forall (c : chart) (r h : name),
         WrapProofs.wrap_ok c r h ->
         forall (ctx X : Type) (t0 : Z) (e : event) (s : mstate ctx X),
         WrapProofs.wrap_inv c ctx X s ->
         queue ctx X e (WrapProofs.wrap_mstate h t0 s) =
         (WrapProofs.wrap_mstate h t0 (fst (queue ctx X e s)), inl tt) /\
         WrapProofs.wrap_inv c ctx X (fst (queue ctx X e s)).
Proof. exact WrapProofs.C17_wrap_queue. Qed.
Print Assumptions C17_wrap_queue_thm.

(* ... and for every history of queue / execute_once operations (as long as the root is active whenever a step starts) *)
Theorem C17_wrap_run_thm :
  forall (c : chart) (r h : name),
         WrapProofs.wrap_ok c r h ->
         forall (ctx X : Type) (exec_code exec_code' : call ctx -> ctx -> option (ctx * list event))
           (eval_code eval_code' : call ctx -> ctx -> option bool) (emit : Z -> meta -> X -> X * option err),
         (forall (cl : call ctx) (x : ctx), exec_code' (WrapProofs.wrap_call h cl) x = exec_code cl x) ->
         (forall (cl : call ctx) (x : ctx), eval_code' (WrapProofs.wrap_call h cl) x = eval_code cl x) ->
         forall (t0 : Z) (fuel : nat) (ops : list op) (s : mstate ctx X),
         WrapProofs.wrap_inv c ctx X s ->
         WrapProofs.wrap_alive c r ctx X exec_code eval_code emit fuel ops s ->
         run_ops ctx X exec_code' eval_code' emit (WrapProofs.wrap c h) fuel ops
           (WrapProofs.wrap_mstate h t0 s) =
         (WrapProofs.wrap_mstate h t0 (fst (run_ops ctx X exec_code eval_code emit c fuel ops s)),
          snd (run_ops ctx X exec_code eval_code emit c fuel ops s)) /\
         WrapProofs.wrap_inv c ctx X (fst (run_ops ctx X exec_code eval_code emit c fuel ops s)).
Proof. exact WrapProofs.C17_wrap_run. Qed.
Print Assumptions C17_wrap_run_thm.

(* which holds when no step but possibly the last one raises *)
Theorem C17_wrap_run_errfree_thm :
  forall (c : chart) (r h : name),
         WrapProofs.wrap_ok c r h ->
         forall (ctx X : Type) (exec_code exec_code' : call ctx -> ctx -> option (ctx * list event))
           (eval_code eval_code' : call ctx -> ctx -> option bool) (emit : Z -> meta -> X -> X * option err),
         (forall (cl : call ctx) (x : ctx), exec_code' (WrapProofs.wrap_call h cl) x = exec_code cl x) ->
         (forall (cl : call ctx) (x : ctx), eval_code' (WrapProofs.wrap_call h cl) x = eval_code cl x) ->
         forall (t0 : Z) (fuel : nat) (ops : list op) (s : mstate ctx X),
         WrapProofs.wrap_inv c ctx X s ->
         WrapProofs.root_active r ctx X s ->
         Forall WrapProofs.is_inl (removelast (snd (run_ops ctx X exec_code eval_code emit c fuel ops s))) ->
         run_ops ctx X exec_code' eval_code' emit (WrapProofs.wrap c h) fuel ops
           (WrapProofs.wrap_mstate h t0 s) =
         (WrapProofs.wrap_mstate h t0 (fst (run_ops ctx X exec_code eval_code emit c fuel ops s)),
          snd (run_ops ctx X exec_code eval_code emit c fuel ops s)) /\
         WrapProofs.wrap_inv c ctx X (fst (run_ops ctx X exec_code eval_code emit c fuel ops s)).
Proof. exact WrapProofs.C17_wrap_run_errfree. Qed.
Print Assumptions C17_wrap_run_errfree_thm.

(* the first macro step: the wrapped chart enters h and then does exactly what c does *)
Theorem C17_wrap_init_thm :
  forall (c : chart) (r h : name),
         WrapProofs.wrap_ok c r h ->
         r <> "" ->
         forall (ctx X : Type) (exec_code exec_code' : call ctx -> ctx -> option (ctx * list event))
           (eval_code eval_code' : call ctx -> ctx -> option bool) (emit : Z -> meta -> X -> X * option err),
         (forall (cl : call ctx) (x : ctx), exec_code' (WrapProofs.wrap_call h cl) x = exec_code cl x) ->
         (forall (cl : call ctx) (x : ctx), eval_code' (WrapProofs.wrap_call h cl) x = eval_code cl x) ->
         (forall (t : Z) (x : X), emit t (MEntered h) x = (x, None)) ->
         forall (fuel : nat) (now : Z) (s0 : mstate ctx X) (m : option macrostep),
         i_initialized (m_i s0) = false ->
         i_config (m_i s0) = [] ->
         i_entry (m_i s0) = [] ->
         i_idle (m_i s0) = [] ->
         WrapProofs.memK c (i_memory (m_i s0)) ->
         snd (execute_once ctx X exec_code eval_code emit c fuel now s0) = inl m ->
         let s1 := fst (execute_once ctx X exec_code eval_code emit c fuel now s0) in
         exists T : list (obs ctx),
           m_tr s1 = (T ++ ObMeta (MStepStarted now) :: m_tr s0)%list /\
           execute_once ctx X exec_code' eval_code' emit (WrapProofs.wrap c h) (S fuel) now
             {| m_i := m_i s0; m_x := m_x s0; m_tr := map (WrapProofs.wrap_obs h) (m_tr s0) |} =
           ({|
              m_i := WrapProofs.wrap_state h now (m_i s1);
              m_x := m_x s1;
              m_tr :=
                map (WrapProofs.wrap_obs h) T ++
                WrapProofs.init_extra h ctx (i_id (m_i s0)) now ++
                ObMeta (MStepStarted now) :: map (WrapProofs.wrap_obs h) (m_tr s0)
            |}, inl (WrapProofs.add_h h m)) /\
           WrapProofs.wrap_inv c ctx X s1 /\ WrapProofs.root_active r ctx X s1.
Proof. exact WrapProofs.C17_wrap_init. Qed.
Print Assumptions C17_wrap_init_thm.

(* the hypothesis "the root has no final child" is needed (witness): a final child of the ROOT empties the configuration, under a host it does not - the reason why the check skips such guests *)
Theorem C17_wrap_step_final_child_refuted_thm :
  exists (c : chart) (r : name) (h : string),
           C02Proofs.wf_chart_b c = true /\
           root c = Some r /\
           h <> "" /\ state_for c h = None /\ ~ WrapProofs.WrapRefutations.wrap_step_statement c r h.
Proof. exact WrapProofs.WrapRefutations.C17_wrap_step_final_child_refuted. Qed.
Print Assumptions C17_wrap_step_final_child_refuted_thm.

(* and so is "the root is active": after an exception in the middle of a step that exits the root the two interpreters differ (witness) *)
Theorem C17_wrap_run_root_active_needed_thm :
  WrapProofs.wrap_ok WrapProofs.WrapRefutations.c_loop "r" "H" /\
         (forall (cl : call nat) (x : nat),
          WrapProofs.WrapRefutations.exec_boom (WrapProofs.wrap_call "H" cl) x =
          WrapProofs.WrapRefutations.exec_boom cl x) /\
         WrapProofs.wrap_inv WrapProofs.WrapRefutations.c_loop nat nat
           (fst
              (WrapProofs.WrapRefutations.runb WrapProofs.WrapRefutations.c_loop [OpStep 0]
                 WrapProofs.WrapExample.s0)) /\
         WrapProofs.root_active "r" nat nat
           (fst
              (WrapProofs.WrapRefutations.runb WrapProofs.WrapRefutations.c_loop [OpStep 0]
                 WrapProofs.WrapExample.s0)) /\
         snd
           (WrapProofs.WrapRefutations.runb WrapProofs.WrapRefutations.c_loop
              WrapProofs.WrapRefutations.loop_ops
              (fst
                 (WrapProofs.WrapRefutations.runb WrapProofs.WrapRefutations.c_loop [
                    OpStep 0] WrapProofs.WrapExample.s0))) =
         [inr (ECode CAction (OTrans 0) 0);
          inl
            (Some
               (2%Z,
                [{|
                   ms_event := Some (WrapProofs.WrapExample.ev "zzz");
                   ms_trans := None;
                   ms_entered := [];
                   ms_exited := [];
                   ms_sent := []
                 |}]))] /\
         i_config
           (m_i
              (fst
                 (WrapProofs.WrapRefutations.runb WrapProofs.WrapRefutations.c_loop
                    WrapProofs.WrapRefutations.loop_ops
                    (fst
                       (WrapProofs.WrapRefutations.runb WrapProofs.WrapRefutations.c_loop [
                          OpStep 0] WrapProofs.WrapExample.s0))))) = [] /\
         WrapProofs.WrapExample.shape
           (snd
              (WrapProofs.WrapRefutations.runb (WrapProofs.wrap WrapProofs.WrapRefutations.c_loop "H")
                 WrapProofs.WrapRefutations.loop_ops
                 (WrapProofs.wrap_mstate "H" 0
                    (fst
                       (WrapProofs.WrapRefutations.runb WrapProofs.WrapRefutations.c_loop [
                          OpStep 0] WrapProofs.WrapExample.s0))))) = [[]; [([], []); (["r"], []); (["a"], [])]].
Proof. exact WrapProofs.WrapRefutations.C17_wrap_run_root_active_needed. Qed.
Print Assumptions C17_wrap_run_root_active_needed_thm.

(* the decidable form of the hypotheses *)
Theorem wrap_okb_sound_thm :
  forall (c : chart) (r h : name), WrapProofs.wrap_okb c r h = true -> WrapProofs.wrap_ok c r h.
Proof. exact WrapProofs.wrap_okb_sound. Qed.
Print Assumptions wrap_okb_sound_thm.

(* COMPOSITION. For the host the check uses (hroot > plug): what copy_from_statechart builds is the wrapped, renamed guest - equal for every query (state_for, parent_for, children_for in the same order, root), equivalent up to the order of dictionary entries and of the transition list (chart_equiv) *)
Theorem copy_into_plug_is_wrap_thm :
  forall (g : chart) (r : name) (rho : list (name * name)) (nm : string) (d : option string)
           (pre : option code),
         EditProofs.einv g ->
         root g = Some r ->
         r = "plug" \/ has_state g "plug" = false ->
         (forall n : name,
          In n (descendants_for g r) -> rho_apply rho n <> "hroot" /\ rho_apply rho n <> "plug") ->
         (forall n : name, In n (descendants_for g r) -> rho_apply rho n <> "") ->
         NoDup (map (rho_apply rho) (descendants_for g r)) ->
         (forall n : name,
          In n (descendants_for g r) -> rho_apply rho n = n \/ has_state g (rho_apply rho n) = false) ->
         (forall (n p : name) (sp sn : state),
          In n (descendants_for g r) ->
          lookup n (c_parent g) = Some (Some p) ->
          lookup p (c_states g) = Some sp ->
          lookup n (c_states g) = Some sn ->
          is_composite (s_kind sp) = true /\ (is_history (s_kind sn) = true -> s_kind sp = KCompound)) ->
         exists (h' : chart) (idxs : list nat),
           copy_from_statechart (C17ComposeProofs.plug_host nm d pre) g r "plug" rho = (h', EOk) /\
           C17ComposeProofs.chart_equiv (WrapProofs.wrap (map_chart (CopyProofs.rs g r "plug" rho) g) "hroot")
             h' idxs /\
           c_name h' = nm /\
           c_description h' = d /\
           c_preamble h' = pre /\
           (exists g2 : chart,
              EditProofs.einv g2 /\
              CopyProofs.img (CopyProofs.rs g r "plug" rho) g g2 /\
              idxs = collect_transitions g2 ("plug" :: descendants_for g2 "plug") []).
Proof. exact C17ComposeProofs.copy_into_plug_is_wrap. Qed.
Print Assumptions copy_into_plug_is_wrap_thm.

(* ... the transition lists are NOT equal: the copy lists the transitions in another order (witness) *)
Theorem copy_into_plug_same_transitions_refuted_thm :
  exists (g : chart) (r : name) (table : list (name * name)),
           (EditProofs.einv g /\
            root g = Some r /\
            (r = "plug" \/ has_state g "plug" = false) /\
            (forall n : name,
             In n (descendants_for g r) -> rho_apply table n <> "hroot" /\ rho_apply table n <> "plug") /\
            (forall n : name, In n (descendants_for g r) -> rho_apply table n <> "") /\
            NoDup (map (rho_apply table) (descendants_for g r)) /\
            (forall n : name,
             In n (descendants_for g r) -> rho_apply table n = n \/ has_state g (rho_apply table n) = false) /\
            (forall (n p : name) (sp sn : state),
             In n (descendants_for g r) ->
             lookup n (c_parent g) = Some (Some p) ->
             lookup p (c_states g) = Some sp ->
             lookup n (c_states g) = Some sn ->
             is_composite (s_kind sp) = true /\ (is_history (s_kind sn) = true -> s_kind sp = KCompound))) /\
           (exists h' : chart,
              copy_from_statechart (C17ComposeProofs.plug_host "host" None None) g r "plug" table = (h', EOk) /\
              c_transitions h' <>
              c_transitions (WrapProofs.wrap (map_chart (CopyProofs.rs g r "plug" table) g) "hroot")).
Proof. exact C17ComposeProofs.ComposeExample.copy_into_plug_same_transitions_refuted. Qed.
Print Assumptions copy_into_plug_same_transitions_refuted_thm.

(* renaming and embedding composed (exact equalities): the wrapped, renamed guest started afresh enters the new root first and then produces the image of every outcome of the guest alone *)
Theorem C17_wrap_rename_run_thm :
  forall rho : name -> name,
         (forall a b : name, rho a = rho b -> a = b) ->
         rho "" = "" ->
         forall g : chart,
         (forall a b : name, inN g a -> inN g b -> str_leb (rho a) (rho b) = str_leb a b) ->
         forall r h : name,
         WrapProofs.wrap_ok (map_chart rho g) (rho r) h ->
         r <> "" ->
         forall (ctx X X' : Type) (exec_g exec_h : call ctx -> ctx -> option (ctx * list event))
           (eval_g eval_h : call ctx -> ctx -> option bool) (emit_g : Z -> meta -> X -> X * option err)
           (emit_h : Z -> meta -> X' -> X' * option err) (fx : X -> X'),
         (forall (cl : call ctx) (x : ctx), exec_h (WrapProofs.wrap_call h (map_call rho cl)) x = exec_g cl x) ->
         (forall (cl : call ctx) (x : ctx), eval_h (WrapProofs.wrap_call h (map_call rho cl)) x = eval_g cl x) ->
         (forall (t : Z) (m : meta) (x : X),
          emit_h t (map_meta rho m) (fx x) =
          (fx (fst (emit_g t m x)), option_map (map_err rho) (snd (emit_g t m x)))) ->
         (forall (t : Z) (x : X'), emit_h t (MEntered h) x = (x, None)) ->
         forall (fuel : nat) (now : Z) (s0 : mstate ctx X) (m1 : option macrostep) 
           (fuel' : nat) (ops : list op),
         C17ComposeProofs.guest_init ctx X s0 ->
         snd (execute_once ctx X exec_g eval_g emit_g g fuel now s0) = inl m1 ->
         let s1 := fst (execute_once ctx X exec_g eval_g emit_g g fuel now s0) in
         let rg := run_ops ctx X exec_g eval_g emit_g g fuel' ops s1 in
         Forall WrapProofs.is_inl (removelast (snd rg)) ->
         execute_once ctx X' exec_h eval_h emit_h (WrapProofs.wrap (map_chart rho g) h) 
           (S fuel) now (C17ComposeProofs.host_init rho h ctx X X' fx s0) =
         (C17ComposeProofs.host_image rho h ctx X X' fx now s0 s1,
          inl (WrapProofs.add_h h (option_map (map_macro rho) m1))) /\
         run_ops ctx X' exec_h eval_h emit_h (WrapProofs.wrap (map_chart rho g) h) fuel' ops
           (C17ComposeProofs.host_image rho h ctx X X' fx now s0 s1) =
         (C17ComposeProofs.host_image rho h ctx X X' fx now s0 (fst rg), map (map_outcome rho) (snd rg)).
Proof. exact C17ComposeProofs.C17_wrap_rename_run. Qed.
Print Assumptions C17_wrap_rename_run_thm.

(* the run of the host built by copy_from_statechart: copy structure + declaration-order invariance (C07) + renaming + embedding; outcomes related up to the renaming of transition indices, states up to the order-insensitive relation of C07 (run_equiv); stops at the first exception *)
Theorem C17_copy_run_thm :
  forall (g : chart) (r : name) (table : list (name * name)) (nm : string) (d : option string)
           (pre : option code),
         EditProofs.einv g ->
         root g = Some r ->
         r = "plug" \/ has_state g "plug" = false ->
         (forall n : name,
          In n (descendants_for g r) -> rho_apply table n <> "hroot" /\ rho_apply table n <> "plug") ->
         (forall n : name, In n (descendants_for g r) -> rho_apply table n <> "") ->
         NoDup (map (rho_apply table) (descendants_for g r)) ->
         (forall n : name,
          In n (descendants_for g r) -> rho_apply table n = n \/ has_state g (rho_apply table n) = false) ->
         (forall (n p : name) (sp sn : state),
          In n (descendants_for g r) ->
          lookup n (c_parent g) = Some (Some p) ->
          lookup p (c_states g) = Some sp ->
          lookup n (c_states g) = Some sn ->
          is_composite (s_kind sp) = true /\ (is_history (s_kind sn) = true -> s_kind sp = KCompound)) ->
         forall rho : name -> name,
         (forall a b : name, rho a = rho b -> a = b) ->
         rho "" = "" ->
         (forall n : name, In n (all_occ g) -> rho n = CopyProofs.rs g r "plug" table n) ->
         (forall a b : name, inN g a -> inN g b -> str_leb (rho a) (rho b) = str_leb a b) ->
         WrapProofs.wrap_ok (map_chart rho g) (rho r) "hroot" ->
         forall (ctx X X' : Type) (exec_g exec_h : call ctx -> ctx -> option (ctx * list event))
           (eval_g eval_h : call ctx -> ctx -> option bool) (emit_g : Z -> meta -> X -> X * option err)
           (emit_h : Z -> meta -> X' -> X' * option err) (fx : X -> X'),
         (forall (cl : call ctx) (x : ctx),
          exec_h (WrapProofs.wrap_call "hroot" (map_call rho cl)) x = exec_g cl x) ->
         (forall (cl : call ctx) (x : ctx),
          eval_h (WrapProofs.wrap_call "hroot" (map_call rho cl)) x = eval_g cl x) ->
         (forall (t : Z) (m : meta) (x : X),
          emit_h t (map_meta rho m) (fx x) =
          (fx (fst (emit_g t m x)), option_map (map_err rho) (snd (emit_g t m x)))) ->
         (forall (t : Z) (x : X'), emit_h t (MEntered "hroot") x = (x, None)) ->
         (forall (pi : nat -> nat) (cl : call ctx) (x : ctx), exec_h (C07Proofs.cmap pi cl) x = exec_h cl x) ->
         (forall (pi : nat -> nat) (cl : call ctx) (x : ctx), eval_h (C07Proofs.cmap pi cl) x = eval_h cl x) ->
         (forall (t : Z) (m : meta) (x : X') (e : err),
          snd (emit_h t m x) = Some e -> forall pi : nat -> nat, C07Proofs.emap pi e = e) ->
         exists (h' : chart) (idxs : list nat),
           copy_from_statechart (C17ComposeProofs.plug_host nm d pre) g r "plug" table = (h', EOk) /\
           Permutation.Permutation idxs (seq 0 (Datatypes.length (c_transitions g))) /\
           C17ComposeProofs.chart_equiv (WrapProofs.wrap (map_chart rho g) "hroot") h' idxs /\
           (let pi := C17ComposeProofs.pi_of idxs (Datatypes.length (c_transitions g)) in
            forall (id : nat) (t0 : Z) (ign : bool) (c0 : ctx) (x : X) (fuel : nat) 
              (now : Z) (m1 : option macrostep) (fuel' : nat) (ops : list op),
            let s0 := {| m_i := init_istate id t0 ign c0; m_x := x; m_tr := [] |} in
            snd (execute_once ctx X exec_g eval_g emit_g g fuel now s0) = inl m1 ->
            let s1 := fst (execute_once ctx X exec_g eval_g emit_g g fuel now s0) in
            let rg := run_ops ctx X exec_g eval_g emit_g g fuel' ops s1 in
            Forall WrapProofs.is_inl (removelast (snd rg)) ->
            let oh :=
              execute_once ctx X' exec_h eval_h emit_h h' (S fuel) now
                {| m_i := init_istate id t0 ign c0; m_x := fx x; m_tr := [] |} in
            let rh := run_ops ctx X' exec_h eval_h emit_h h' fuel' ops (fst oh) in
            snd oh = inl (C07Proofs.macmap pi (WrapProofs.add_h "hroot" (option_map (map_macro rho) m1))) /\
            C07Proofs.run_equiv pi (C17ComposeProofs.host_image rho "hroot" ctx X X' fx now s0 s1) (fst oh) /\
            Forall2 (C17ComposeProofs.out_rel pi) (map (map_outcome rho) (snd rg)) (snd rh) /\
            (Forall WrapProofs.is_inl (snd rg) ->
             C07Proofs.run_equiv pi (C17ComposeProofs.host_image rho "hroot" ctx X X' fx now s0 (fst rg))
               (fst rh))).
Proof. exact C17ComposeProofs.C17_copy_run. Qed.
Print Assumptions C17_copy_run_thm.

(* the global injective renaming those theorems take as a parameter exists under the hypotheses of the copy theorem *)
Theorem copy_renaming_extends_thm :
  forall (g : chart) (r : name) (table : list (name * name)),
         string ->
         option string ->
         option code ->
         EditProofs.einv g ->
         root g = Some r ->
         r = "plug" \/ has_state g "plug" = false ->
         (forall n : name,
          In n (descendants_for g r) -> rho_apply table n <> "hroot" /\ rho_apply table n <> "plug") ->
         (forall n : name, In n (descendants_for g r) -> rho_apply table n <> "") ->
         NoDup (map (rho_apply table) (descendants_for g r)) ->
         exists rho : string -> string,
           (forall a b : string, rho a = rho b -> a = b) /\
           rho "" = "" /\ (forall n : name, In n (all_occ g) -> rho n = CopyProofs.rs g r "plug" table n).
Proof. exact C17ComposeProofs.copy_renaming_extends. Qed.
Print Assumptions copy_renaming_extends_thm.

(* the hypotheses of the embedding theorems follow from DESIGN.md section 2 (wf_chart_b) plus explicit extra clauses (wrap_extra_b: every referenced name registered, the root neither final nor history and without final child, the new root fresh and non-empty) *)
Theorem wrap_ok_of_wf_b_thm :
  forall (c : chart) (r h : name),
         C02Proofs.wf_chart_b c = true ->
         root c = Some r -> C17ComposeProofs.wrap_extra_b c r h = true -> WrapProofs.wrap_ok c r h.
Proof. exact C17ComposeProofs.wrap_ok_of_wf_b. Qed.
Print Assumptions wrap_ok_of_wf_b_thm.
