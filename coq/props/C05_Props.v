(* C05 -- Event queues: one event per step, internal first, FIFO, delays respected.
   Property theorems only; proofs in proofs/C05Proofs.v (frame lemmas in proofs/FrameLib.v).

   Vocabulary (C05Proofs.v / FrameLib.v):
     Q_inv i        both queues sorted by due time; the internal queue holds only internal events,
                    the external queue only non-internal ones
     pop now iq eq consumed iq1 eq1
                    nothing removed, or the head of the internal queue (due <= now), or the head of
                    the external queue (due <= now) when the internal head is not due
     ins_all now es q   the events es inserted one after the other with due = now + delay
     outcome_ok now r consumed sent
                    r = Some macro step: its time is now, its event is the consumed one, its sent
                    events are `sent`;  r = None: nothing consumed, nothing sent *)
From Coq Require Import List ZArith Permutation.
From Sismic Require Import Base Chart Interp.
From SismicProofs Require Import FrameLib C05Proofs.
Import ListNotations.
Open Scope Z_scope.

(* queue()/send insert after every entry with due <= t and before every entry with due > t
   (FIFO among equal due times), in the queue of the event's class, and change nothing else *)
Theorem C05_insert :
  forall (ctx : Type) (i : istate ctx) (e : event),
    Q_inv i ->
    let t := i_time i + delay_of e in
    let q := if is_internal e then i_iq i else i_eq i in
    exists l1 l2 : list entry,
      q = l1 ++ l2 /\
      Forall (fun te => due te <= t) l1 /\
      Forall (fun te => due te > t) l2 /\
      queue_event i e =
        (if is_internal e then set_iq ctx (l1 ++ (t, e) :: l2) i else set_eq ctx (l1 ++ (t, e) :: l2) i) /\
      Q_inv (queue_event i e).
Proof. exact C05_insert. Qed.
Print Assumptions C05_insert.

(* which event is considered: the head of the internal queue if due, else the head of the
   external queue if due; by sortedness a due entry exists iff the head is due and the head is
   minimal: a due internal event is taken before any external one, nothing is overtaken *)
Theorem C05_which :
  forall (ctx : Type) (i : istate ctx),
    Q_inv i ->
    let now := i_time i in
    (forall e, select_event i = Some e <->
       head_due now (i_iq i) e \/ (no_head_due now (i_iq i) /\ head_due now (i_eq i) e)) /\
    (select_event i = None <->
       Forall (fun te => due te > now) (i_iq i) /\ Forall (fun te => due te > now) (i_eq i)) /\
    (Exists (fun te => due te <= now) (i_iq i) ->
       exists t e q, i_iq i = (t, e) :: q /\ select_event i = Some e /\ e_kind e = Internal /\
                     t <= now /\ Forall (fun te => t <= due te) q) /\
    (forall e, select_event i = Some e -> e_kind e <> Internal ->
       Forall (fun te => due te > now) (i_iq i) /\
       exists t q, i_eq i = (t, e) :: q /\ t <= now /\ Forall (fun te => t <= due te) q).
Proof.
  intros ctx i H. destruct (C05_which ctx i H) as (H1 & _ & H3 & H4 & H5).
  split; [exact H1|]. split; [exact H3|]. split; [exact H4|exact H5].
Qed.
Print Assumptions C05_which.

(* one execute_once, ANY outcome: at most one entry is removed, it is the considered event and
   its due time is <= now; then only internal events are inserted, into the internal queue, in
   sending order; the external queue is never inserted into; the macro step reports the consumed
   event and the sent events; an empty result leaves both queues unchanged *)
Theorem C05_step :
  forall (ctx X : Type) exec_code eval_code (emit : Z -> meta -> X -> X * option err) (sc : chart)
         fuel now (s s' : mstate ctx X) r,
    Q_inv (m_i s) ->
    execute_once ctx X exec_code eval_code emit sc fuel now s = (s', r) ->
    Q_inv (m_i s') /\ i_time (m_i s') = now /\
    exists (consumed : option entry) (sent : list event) (iq1 eq1 : list entry),
      pop now (i_iq (m_i s)) (i_eq (m_i s)) consumed iq1 eq1 /\
      (consumed = None <-> iq1 = i_iq (m_i s) /\ eq1 = i_eq (m_i s)) /\
      (consumed <> None -> option_map snd consumed = select_event (set_time ctx now (m_i s))) /\
      i_iq (m_i s') = ins_all now (internals sent) iq1 /\
      i_eq (m_i s') = eq1 /\
      outcome_ok now r consumed sent.
Proof.
  intros ctx X ex ev em sc fuel now s s' r HQ H.
  destruct (C05_step ctx X ex ev em sc fuel now s s' r HQ H)
    as (H1 & H2 & consumed & sent & iq1 & eq1 & P1 & P2 & P3 & _ & P5 & P6 & P7).
  split; [exact H1|]. split; [exact H2|]. exists consumed, sent, iq1, eq1.
  split; [exact P1|]. split; [exact P2|]. split; [exact P3|]. split; [exact P5|]. split; [exact P6|exact P7].
Qed.
Print Assumptions C05_step.

(* nothing is lost or duplicated: with multiplicity, consumed + pending' = pending + sent internal *)
Theorem C05_conservation :
  forall (ctx X : Type) exec_code eval_code (emit : Z -> meta -> X -> X * option err) (sc : chart)
         fuel now (s s' : mstate ctx X) r,
    execute_once ctx X exec_code eval_code emit sc fuel now s = (s', r) ->
    exists (consumed : option entry) (sent : list event),
      outcome_ok now r consumed sent /\
      Permutation (opt_list consumed ++ i_iq (m_i s') ++ i_eq (m_i s'))
                  (i_iq (m_i s) ++ i_eq (m_i s) ++ map (stamp now) (internals sent)).
Proof.
  intros ctx X ex ev em sc fuel now s s' r H.
  destruct (C05_conservation ctx X ex ev em sc fuel now s s' r H) as (c & sent & H1 & H2 & _).
  exists c, sent. split; [exact H1|exact H2].
Qed.
Print Assumptions C05_conservation.

(* over any sequence of queue()/execute_once calls: pending' + consumed = pending + queued + sent *)
Theorem C05_conservation_run :
  forall (ctx X : Type) exec_code eval_code (emit : Z -> meta -> X -> X * option err) (sc : chart)
         (ops : list op) (s : mstate ctx X) (ms : list (option macrostep)) (s' : mstate ctx X),
    runs ctx X exec_code eval_code emit sc ops s ms s' ->
    Permutation (pending ctx X s' ++ consumed_of ms) (pending ctx X s ++ queued_of ops ++ sent_of ms).
Proof. exact C05_conservation_run. Qed.
Print Assumptions C05_conservation_run.

(* delays: a consumed entry has due <= now; an entry with due <= now exists iff an event is considered *)
Theorem C05_delay :
  forall (ctx : Type) (now : Z) (i : istate ctx),
    Q_inv i ->
    (forall te iq1 eq1, pop now (i_iq i) (i_eq i) (Some te) iq1 eq1 ->
       due te <= now /\ In te (i_iq i ++ i_eq i)) /\
    (Exists (fun te => due te <= now) (i_iq i) \/ Exists (fun te => due te <= now) (i_eq i) <->
     select_event (set_time ctx now i) <> None).
Proof. exact C05_delay. Qed.
Print Assumptions C05_delay.

(* a due event makes the step non-empty: it is consumed (possibly in a transition-less macro
   step) or an eventless transition fires instead *)
Theorem C05_delay_progress :
  forall (ctx X : Type) exec_code eval_code (emit : Z -> meta -> X -> X * option err) (sc : chart)
         fuel now (s s' : mstate ctx X) m,
    Q_inv (m_i s) -> i_initialized (m_i s) = true ->
    Exists (fun te => due te <= now) (i_iq (m_i s)) \/ Exists (fun te => due te <= now) (i_eq (m_i s)) ->
    execute_once ctx X exec_code eval_code emit sc fuel now s = (s', inl m) ->
    exists steps, m = Some (now, steps) /\ steps <> [].
Proof. exact C05_delay_progress. Qed.
Print Assumptions C05_delay_progress.
