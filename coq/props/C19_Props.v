(* C19 -- BDD verdicts are sound.
   Property theorems only: every statement below is the statement of a lemma proved in proofs/,
   printed by Coq and closed by `exact`. *)
From Coq Require Import List QArith.
From Sismic Require Import Base Chart Interp Bdd.
From SismicProofs Require Import BddProofs.
Import ListNotations.

Theorem doc_samples_ok_thm : forall ci, Doc.samples_ok ci Doc.patterns = true.
Proof. exact doc_samples_ok. Qed.
Print Assumptions doc_samples_ok_thm.
