(* C19 -- BDD verdicts are sound.
   Property theorems only: every statement below is the statement of a lemma proved in proofs/,
   printed by Coq and closed by `exact`. *)
From Coq Require Import List QArith.
From Sismic Require Import Base Chart Interp Bdd.
From SismicProofs Require Import BddProofs.
Import ListNotations.
Open Scope string_scope.

(* environment.py + steps.py over ANY interpreter: a then step all of whose predecessors passed, preceded by a when step and naming existing states, is reported passed iff its fact holds of (the block of when steps, the plain interpreter after the same given/when steps) *)
Theorem C19_verdict_thm :
  forall (I : Type) (i_queue : event -> I -> I) (i_advance : Q -> I -> I)
           (i_execute : I -> I * option (list macrostep)) (i_config : I -> list name) 
           (i_final : I -> bool) (i_ctx : I -> list (name * value)) (i_eval : I -> string -> option bool)
           (states : list name) (fuel : nat) (feat : feature) (pre : list step) (t : assertion)
           (rest : list step) (i0 : I) (sts : list status),
         run_scenario I i_queue i_advance i_execute i_config i_final i_ctx i_eval states fuel feat
           (pre ++ SThen t :: rest) i0 = Some sts ->
         (forall j : nat, (j < Datatypes.length pre)%nat -> nth_error sts j = Some Passed) ->
         (exists a : action, In (SAct When a) pre) ->
         states_ok states t = true ->
         exists (i : I) (h : list hitem) (blk : list macrostep),
           plain_steps I i_queue i_advance i_execute fuel feat pre i0 = Some (i, h) /\
           is_block h blk /\
           (nth_error sts (Datatypes.length pre) = Some Passed <-> fact I i_config i_final i_ctx i_eval t blk i).
Proof. exact C19_verdict. Qed.
Print Assumptions C19_verdict_thm.

(* every step after the first one that did not pass is skipped *)
Theorem C19_skip_thm :
  forall (I : Type) (i_queue : event -> I -> I) (i_advance : Q -> I -> I)
           (i_execute : I -> I * option (list macrostep)) (i_config : I -> list name) 
           (i_final : I -> bool) (i_ctx : I -> list (name * value)) (i_eval : I -> string -> option bool)
           (states : list name) (fuel : nat) (feat : feature) (steps : list step) (i0 : I) 
           (sts : list status) (j : nat) (s : status),
         run_scenario I i_queue i_advance i_execute i_config i_final i_ctx i_eval states fuel feat steps i0 =
         Some sts ->
         nth_error sts j = Some s ->
         s <> Passed ->
         forall k : nat, (j < k)%nat -> (k < Datatypes.length steps)%nat -> nth_error sts k = Some Skipped.
Proof. exact C19_skip. Qed.
Print Assumptions C19_skip_thm.

(* a given/when step passes iff its documented effect on a plain interpreter is defined and then leaves exactly that interpreter state; the documented effect kind by kind (queue with parameters, clock advance, repeat n = n-fold, reproduce = the given/when steps of the named scenario with their tables), each followed by execute() *)
Theorem C19_given_when_thm :
  forall (I : Type) (i_queue : event -> I -> I) (i_advance : Q -> I -> I)
           (i_execute : I -> I * option (list macrostep)),
         (forall (fuel : nat) (feat : feature) (k : gw) (a : action) (c c' : ctx I),
          inv I c ->
          run_act I i_queue i_advance i_execute fuel feat k a c = Some (c', Passed) <->
          (exists (i' : I) (ms : list macrostep),
             plain_act I i_queue i_advance i_execute fuel feat a (c_interp c) = Some (i', ms) /\
             c' = upd I k c i' ms)) /\
         (forall (f : nat) (feat : feature) (i : I),
          plain_act I i_queue i_advance i_execute (S f) feat ANothing i = exec I i_execute i) /\
         (forall (f : nat) (feat : feature) (n : name) (tbl : ptable) (inl_ : option (name * value)) (i : I),
          plain_act I i_queue i_advance i_execute (S f) feat (ASend n tbl inl_) i =
          exec I i_execute (i_queue {| e_kind := External; e_name := n; e_data := build_params tbl inl_ |} i) /\
          (forall (k : name) (v : value),
           In (k, v) (build_params tbl inl_) <-> last_binding k (bindings tbl inl_) = Some v)) /\
         (forall (f : nat) (feat : feature) (q : Q) (i : I),
          plain_act I i_queue i_advance i_execute (S f) feat (AWait q) i =
          (if Qle_bool 0 q then exec I i_execute (i_advance q i) else None)) /\
         (forall (f : nat) (feat : feature) (a : action) (n : nat) (i : I),
          plain_act I i_queue i_advance i_execute (S f) feat (ARepeat a n) i =
          match seq_of I (plain_act I i_queue i_advance i_execute f feat) (repeat a n) i with
          | Some (i1, m1) =>
              match exec I i_execute i1 with
              | Some (i2, m2) => Some (i2, (m1 ++ m2)%list)
              | None => None
              end
          | None => None
          end) /\
         (forall (f : nat) (feat : feature) (nm : string) (i : I),
          plain_act I i_queue i_advance i_execute (S f) feat (AReproduce nm) i =
          match find_scenario nm feat with
          | Some steps =>
              match
                seq_of I (plain_act I i_queue i_advance i_execute f feat) (actions_of steps)
                  i
              with
              | Some (i1, m1) =>
                  match exec I i_execute i1 with
                  | Some (i2, m2) => Some (i2, (m1 ++ m2)%list)
                  | None => None
                  end
              | None => None
              end
          | None => None
          end) /\
         (forall (pa : action -> I -> option (I * list macrostep)) (a : action) (l : list action) (i : I),
          seq_of I pa [] i = Some (i, []) /\
          seq_of I pa (a :: l) i =
          match pa a i with
          | Some (i1, m1) =>
              match seq_of I pa l i1 with
              | Some (i2, m2) => Some (i2, (m1 ++ m2)%list)
              | None => None
              end
          | None => None
          end).
Proof. exact C19_given_when. Qed.
Print Assumptions C19_given_when_thm.

(* context.monitored_trace = the macro steps of the when steps of the block delimited as environment.py does (since the then that precedes the most recent when; given steps inside do not end it and contribute nothing); None iff no when yet *)
Theorem C19_block_thm :
  forall (I : Type) (i_queue : event -> I -> I) (i_advance : Q -> I -> I)
           (i_execute : I -> I * option (list macrostep)) (i_config : I -> list name) 
           (i_final : I -> bool) (i_ctx : I -> list (name * value)) (i_eval : I -> string -> option bool)
           (states : list name) (fuel : nat) (feat : feature) (steps : list step) (i0 : I) 
           (c : ctx I),
         ctx_after I i_queue i_advance i_execute i_config i_final i_ctx i_eval states fuel feat steps
           (ctx_init I i0) = Some c ->
         exists (i : I) (h : list hitem),
           plain_steps I i_queue i_advance i_execute fuel feat steps i0 = Some (i, h) /\
           c_interp c = i /\
           (forall blk : list macrostep, is_block h blk -> c_trace c = Some blk) /\
           (existsb is_when h = true -> exists blk : list macrostep, is_block h blk) /\
           (existsb is_when h = false -> c_trace c = None).
Proof. exact C19_block. Qed.
Print Assumptions C19_block_thm.

(* every predicate of sismic/testing.py is equivalent to its declarative reading over the micro steps *)
Theorem C19_testing_thm :
  forall (teq : nat -> nat -> bool) (steps : list macrostep),
         (forall n : name, state_is_entered steps n = true <-> entered_in steps n) /\
         (forall n : name, state_is_exited steps n = true <-> exited_in steps n) /\
         (forall (n : option name) (ps : list (name * value)),
          event_is_fired steps n ps = true <-> fired_in steps n ps) /\
         (forall (n : option name) (ps : list (name * value)),
          event_is_consumed steps n ps = true <-> consumed_in steps n ps) /\
         (forall t : option nat, transition_is_processed teq steps t = true <-> processed_in teq steps t) /\
         (no_event_is_fired steps = true <-> ~ any_sent steps).
Proof. exact C19_testing. Qed.
Print Assumptions C19_testing_thm.

(* the decidable checker the harness evaluates on the implementation is the declarative fact *)
Theorem fact_b_sound_thm :
  forall I : Type,
         (I -> I * option (list macrostep)) ->
         forall (i_config : I -> list name) (i_final : I -> bool) (i_ctx : I -> list (name * value))
           (i_eval : I -> string -> option bool) (t : assertion) (blk : list macrostep) 
           (i : I),
         fact_b I i_config i_final i_ctx i_eval t blk i = true <-> fact I i_config i_final i_ctx i_eval t blk i.
Proof. exact fact_b_sound. Qed.
Print Assumptions fact_b_sound_thm.

(* over the documented pattern list (= the list extracted from steps.py, obligation regenerated on every run) every predefined step in documented spelling with plain arguments is dispatched to the intended function with the intended arguments, under both matching modes *)
Theorem C19_dispatch_thm :
  forall (ci : bool) (d : docstep),
         doc_plain ci d = true ->
         dispatch ci Doc.patterns (doc_type d) (doc_text d) = DMatch (doc_fn d) (doc_args d).
Proof. exact C19_dispatch. Qed.
Print Assumptions C19_dispatch_thm.

(* the quotes of expression "..." holds are never part of the expression (past defect) *)
Theorem C19_expression_unquoted_thm :
  forall (ci : bool) (e : string),
         nonempty e = true ->
         step_of_text ci Doc.patterns TyThen ("expression """ +++ e +++ """ holds") [] =
         Some (SThen (TExprHolds e)) /\
         step_of_text ci Doc.patterns TyThen ("expression """ +++ e +++ """ does not hold") [] =
         Some (SThen (TExprNotHolds e)).
Proof. exact C19_expression_unquoted. Qed.
Print Assumptions C19_expression_unquoted_thm.

(* completeness of the matcher for plain arguments, for arbitrary patterns *)
Theorem match_complete_thm :
  forall (ci : bool) (p : pattern) (args : list string) (s : string) (b : list binding),
         plain_for ci p args s b -> match_elems ci p s = Some b.
Proof. exact match_complete. Qed.
Print Assumptions match_complete_thm.

(* every documented spelling with sample arguments decodes to the intended step of the model *)
Theorem doc_samples_ok_thm :
  forall ci : bool, Doc.samples_ok ci Doc.patterns = true.
Proof. exact doc_samples_ok. Qed.
Print Assumptions doc_samples_ok_thm.
