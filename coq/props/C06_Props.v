(* C06 -- History states restore exactly what was active.
   Property theorems only: every statement below is the statement of a lemma proved in proofs/,
   printed by Coq and closed by `exact`. *)
From Coq Require Import List ZArith.
From Sismic Require Import Base Chart Interp World Spec.
From SismicProofs Require Import C06Proofs.
Import ListNotations.

(* RECORD. A micro step that returns normally leaves every MicroStep field as computed, the configuration as the exited/entered lists say, and the history memory = the memory before, updated, for every exited compound state, with the children (shallow) / descendants (deep) of it that were active AT THE START of the micro step (record_for); nothing else in the memory changes *)
Theorem C06_record_step_thm :
  forall (ctx X : Type) (exec_code : call ctx -> ctx -> option (ctx * list event))
           (eval_code : call ctx -> ctx -> option bool) (emit : Z -> meta -> X -> X * option err) 
           (sc : chart) (step : microstep) (s s' : mstate ctx X) (a : microstep),
         names_ok sc ->
         apply_step ctx X exec_code eval_code emit sc step s = (s', inl a) ->
         (ms_event a = ms_event step /\
          ms_trans a = ms_trans step /\ ms_entered a = ms_entered step /\ ms_exited a = ms_exited step) /\
         i_memory (m_i s') = fold_left (record_for sc (i_config (m_i s))) (ms_exited step) (i_memory (m_i s)) /\
         i_config (m_i s') =
         fold_left (fun (c : list name) (n : name) => set_add n c) (ms_entered step)
           (fold_left (fun (c : list name) (n : name) => remove_first n c) (ms_exited step) (i_config (m_i s))).
Proof. exact C06_record_step. Qed.
Print Assumptions C06_record_step_thm.

(* RESTORE. A stabilisation step that exits exactly one state h: h is an active history state and the step enters exactly the remembered states sorted by (depth, name) - or the declared default memory if nothing was ever recorded - and does nothing else *)
Theorem C06_restore_thm :
  forall (ctx : Type) (sc : chart) (i : istate ctx) (step : microstep) (h : name),
         create_stabilization_step ctx sc i = Some (inl step) ->
         ms_exited step = [h] ->
         In h (i_config i) /\
         ms_event step = None /\
         ms_trans step = None /\
         ms_sent step = [] /\
         (exists hs : state,
            state_for sc h = Some hs /\
            is_history (s_kind hs) = true /\
            match lookup h (i_memory i) with
            | Some l => ms_entered step = sort (depth_name_leb sc) l
            | None => exists d : name, s_memory hs = Some d /\ ms_entered step = [d]
            end).
Proof. exact C06_restore. Qed.
Print Assumptions C06_restore_thm.

(* in that order every state comes after all of its ancestors that are restored too (parents before children) *)
Theorem C06_restore_parents_first_thm :
  forall sc : chart,
         (forall a b : name, In b (ancestors_for sc a) -> (depth_for sc b < depth_for sc a)%Z) ->
         forall (l l1 : list name) (a : name) (l2 : list name) (b : name),
         sort (depth_name_leb sc) l = l1 ++ a :: l2 -> In b (ancestors_for sc a) -> In b l -> In b l1.
Proof. exact C06_restore_parents_first. Qed.
Print Assumptions C06_restore_parents_first_thm.

(* CONTINUE. Stabilisation goes on below a restored state until nothing remains to be entered by default *)
Theorem C06_continue_thm :
  forall (ctx X : Type) (exec_code : call ctx -> ctx -> option (ctx * list event))
           (eval_code : call ctx -> ctx -> option bool) (emit : Z -> meta -> X -> X * option err) 
           (sc : chart) (fuel : nat) (s s' : mstate ctx X) (steps : list microstep),
         stabilize ctx X exec_code eval_code emit sc fuel s = (s', inl steps) ->
         create_stabilization_step ctx sc (m_i s') = None.
Proof. exact C06_continue. Qed.
Print Assumptions C06_continue_thm.

(* one execute_once = the documented replay of the returned micro steps (restore_ok for every history step, record_for for every exited state): configuration and memory after the call are those of hist_replay *)
Theorem C06_replay_sound_thm :
  forall (ctx X : Type) (exec_code : call ctx -> ctx -> option (ctx * list event))
           (eval_code : call ctx -> ctx -> option bool) (emit : Z -> meta -> X -> X * option err) 
           (sc : chart) (fuel : nat) (now : Z) (s s' : mstate ctx X) (t : Z) (steps : list microstep),
         names_ok sc ->
         execute_once ctx X exec_code eval_code emit sc fuel now s = (s', inl (Some (t, steps))) ->
         hist_replay sc steps (i_config (m_i s)) (i_memory (m_i s)) =
         Some (i_config (m_i s'), i_memory (m_i s')).
Proof. exact C06_replay_sound. Qed.
Print Assumptions C06_replay_sound_thm.

(* RUN. Over ANY history of macro steps from ANY start state, a step that restores history state h enters exactly spec_memory h (prefix of the history) - the declarative "what was active when the parent was last exited" computed from the micro-step lists alone - or the default memory when the parent was never exited *)
Theorem C06_run_thm :
  forall (ctx X : Type) (exec_code : call ctx -> ctx -> option (ctx * list event))
           (eval_code : call ctx -> ctx -> option bool) (emit : Z -> meta -> X -> X * option err) 
           (sc : chart) (s : mstate ctx X) (hist : list macrostep) (s' : mstate ctx X),
         names_ok sc ->
         run ctx X exec_code eval_code emit sc s hist s' ->
         forall (pre : list microstep) (st : microstep) (post : list microstep) (h : name) (hs : state),
         micro_of hist = pre ++ st :: post ->
         ms_exited st = [h] ->
         ms_trans st = None ->
         state_for sc h = Some hs ->
         is_history (s_kind hs) = true ->
         match spec_memory sc h pre (i_config (m_i s)) (lookup h (i_memory (m_i s))) with
         | Some l => ms_entered st = sort (depth_name_leb sc) l
         | None => exists d : name, s_memory hs = Some d /\ ms_entered st = [d]
         end.
Proof. exact C06_run. Qed.
Print Assumptions C06_run_thm.

(* ... and spec_memory unfolded: either the parent p was not exited since the start (then the initial memory/default applies) or there is a LAST micro step x that exited p and what is entered is the active scope of p (children for shallow, descendants for deep) in the configuration just before x, whatever happened in between *)
Theorem C06_run_last_exit_thm :
  forall (ctx X : Type) (exec_code : call ctx -> ctx -> option (ctx * list event))
           (eval_code : call ctx -> ctx -> option bool) (emit : Z -> meta -> X -> X * option err) 
           (sc : chart) (h p : name) (hs : state),
         tree_ok sc ->
         state_for sc h = Some hs ->
         is_history (s_kind hs) = true ->
         parent_for sc h = Some p ->
         kind_of sc p = Some KCompound ->
         forall (s : mstate ctx X) (hist : list macrostep) (s' : mstate ctx X),
         names_ok sc ->
         run ctx X exec_code eval_code emit sc s hist s' ->
         forall (pre : list microstep) (st : microstep) (post : list microstep),
         micro_of hist = pre ++ st :: post ->
         ms_exited st = [h] ->
         ms_trans st = None ->
         Forall (not_exiting p) pre /\
         match lookup h (i_memory (m_i s)) with
         | Some l => ms_entered st = sort (depth_name_leb sc) l
         | None => exists d : name, s_memory hs = Some d /\ ms_entered st = [d]
         end \/
         (exists (pre1 : list microstep) (x : microstep) (pre2 : list microstep),
            pre = pre1 ++ x :: pre2 /\
            In p (ms_exited x) /\
            Forall (not_exiting p) pre2 /\
            ms_entered st =
            sort (depth_name_leb sc) (active_scope sc (replay_config (i_config (m_i s)) pre1) p hs)).
Proof. exact C06_run_last_exit. Qed.
Print Assumptions C06_run_last_exit_thm.

(* the same from a fresh interpreter: never exited => exactly the declared default memory *)
Theorem C06_run_fresh_thm :
  forall (ctx X : Type) (exec_code : call ctx -> ctx -> option (ctx * list event))
           (eval_code : call ctx -> ctx -> option bool) (emit : Z -> meta -> X -> X * option err) 
           (sc : chart) (h p : name) (hs : state),
         tree_ok sc ->
         state_for sc h = Some hs ->
         is_history (s_kind hs) = true ->
         parent_for sc h = Some p ->
         kind_of sc p = Some KCompound ->
         forall (s : mstate ctx X) (hist : list macrostep) (s' : mstate ctx X),
         names_ok sc ->
         run ctx X exec_code eval_code emit sc s hist s' ->
         i_memory (m_i s) = [] ->
         i_config (m_i s) = [] ->
         forall (pre : list microstep) (st : microstep) (post : list microstep),
         micro_of hist = pre ++ st :: post ->
         ms_exited st = [h] ->
         ms_trans st = None ->
         Forall (not_exiting p) pre /\ (exists d : name, s_memory hs = Some d /\ ms_entered st = [d]) \/
         (exists (pre1 : list microstep) (x : microstep) (pre2 : list microstep),
            pre = pre1 ++ x :: pre2 /\
            In p (ms_exited x) /\
            Forall (not_exiting p) pre2 /\
            ms_entered st = sort (depth_name_leb sc) (active_scope sc (replay_config [] pre1) p hs)).
Proof. exact C06_run_fresh. Qed.
Print Assumptions C06_run_fresh_thm.

(* whenever a history state is entered, the same macro step continues with stabilisation steps only up to the step that restores it *)
Theorem C06_entered_then_restored_thm :
  forall (ctx X : Type) (exec_code : call ctx -> ctx -> option (ctx * list event))
           (eval_code : call ctx -> ctx -> option bool) (emit : Z -> meta -> X -> X * option err) 
           (sc : chart) (h : name),
         names_ok sc ->
         hist_leaf sc h ->
         root sc <> Some h ->
         forall (fuel : nat) (now : Z) (s s' : mstate ctx X) (t : Z) (steps pre : list microstep)
           (st : microstep) (post : list microstep),
         execute_once ctx X exec_code eval_code emit sc fuel now s = (s', inl (Some (t, steps))) ->
         steps = pre ++ st :: post ->
         In h (ms_entered st) ->
         exists (mid : list microstep) (x : microstep) (post' : list microstep),
           post = mid ++ x :: post' /\
           ms_exited x = [h] /\
           ms_trans x = None /\ Forall (fun y : microstep => ms_trans y = None /\ ~ In h (ms_exited y)) mid.
Proof. exact C06_entered_then_restored. Qed.
Print Assumptions C06_entered_then_restored_thm.

(* no history state is active when execute_once returns *)
Theorem C06_no_history_at_rest_thm :
  forall (ctx X : Type) (exec_code : call ctx -> ctx -> option (ctx * list event))
           (eval_code : call ctx -> ctx -> option bool) (emit : Z -> meta -> X -> X * option err) 
           (sc : chart) (fuel : nat) (now : Z) (s s' : mstate ctx X) (t : Z) (steps : list microstep)
           (h : name),
         execute_once ctx X exec_code eval_code emit sc fuel now s = (s', inl (Some (t, steps))) ->
         hist_leaf sc h -> ~ In h (i_config (m_i s')).
Proof. exact C06_no_history_at_rest. Qed.
Print Assumptions C06_no_history_at_rest_thm.
