(* C04 -- Non-determinism and conflicts are reported, never silently resolved.
   Property theorems only; proofs are in proofs/C04Proofs.v. *)
From Coq Require Import List ZArith Permutation.
From Sismic Require Import Base Chart Interp.
From SismicProofs Require Import C04Proofs.
Import ListNotations.

(* complete classification of one pair of selected transitions *)
Theorem C04_pair_classification :
  forall (sc : chart) (t1 t2 : transition),
    (check_pair sc t1 t2 = None <->
       separated sc t1 t2 /\ stays sc (lca_of sc t1 t2) t1 /\ stays sc (lca_of sc t1 t2) t2) /\
    (check_pair sc t1 t2 = Some ENonDeterminism <->
       t_source t1 = t_source t2 \/
       (exists l k, lca_of sc t1 t2 = Some l /\ kind_of sc l = Some k /\ k <> KOrthogonal)) /\
    (check_pair sc t1 t2 = Some EConflict <->
       separated sc t1 t2 /\ (leaves sc (lca_of sc t1 t2) t1 \/ leaves sc (lca_of sc t1 t2) t2)) /\
    (check_pair sc t1 t2 = Some EStatechart <->
       t_source t1 <> t_source t2 /\
       (lca_of sc t1 t2 = None \/ (exists l, lca_of sc t1 t2 = Some l /\ kind_of sc l = None))).
Proof. exact C04_check_pair. Qed.
Print Assumptions C04_pair_classification.

(* no error when the selected transitions are pairwise in distinct regions and stay inside them *)
Theorem C04_ok :
  forall (ctx X : Type) (sc : chart) (ts : list itrans) (s : mstate ctx X),
    (forall t1 t2, pair_at ts t1 t2 ->
       separated sc t1 t2 /\ stays sc (lca_of sc t1 t2) t1 /\ stays sc (lca_of sc t1 t2) t2) ->
    sort_transitions ctx X sc ts s = (s, inl (sort (trans_order_leb sc) ts)) /\
    Permutation (sort (trans_order_leb sc) ts) ts.
Proof. exact C04_ok_sort. Qed.
Print Assumptions C04_ok.

(* two selected transitions not in different children of a common orthogonal state
   (two transitions of the same state included): NonDeterminismError *)
Theorem C04_nd :
  forall (ctx X : Type) (sc : chart) (ts : list itrans) (s : mstate ctx X),
    2 <= length ts ->
    (exists t1 t2, pair_at ts t1 t2 /\ ~ separated sc t1 t2) ->
    (forall t1 t2, pair_at ts t1 t2 ->
       check_pair sc t1 t2 <> Some EConflict /\ check_pair sc t1 t2 <> Some EStatechart) ->
    sort_transitions ctx X sc ts s = (s, inr ENonDeterminism).
Proof. exact C04_nd. Qed.
Print Assumptions C04_nd.

(* different regions but one of them leaves its region: ConflictingTransitionsError *)
Theorem C04_conflict :
  forall (ctx X : Type) (sc : chart) (ts : list itrans) (s : mstate ctx X),
    2 <= length ts ->
    (forall t1 t2, pair_at ts t1 t2 -> separated sc t1 t2) ->
    (exists t1 t2, pair_at ts t1 t2 /\
       (leaves sc (lca_of sc t1 t2) t1 \/ leaves sc (lca_of sc t1 t2) t2)) ->
    sort_transitions ctx X sc ts s = (s, inr EConflict).
Proof. exact C04_conflict. Qed.
Print Assumptions C04_conflict.

(* general case: the first offending pair (in combinations order) decides, so the error is a
   function of the list of selected transitions *)
Theorem C04_first_pair :
  forall (sc : chart) (ts : list itrans),
    check_pairs sc ts =
    match find (offending sc) (pairs_of ts) with
    | Some p => check_pair sc (fst p) (snd p)
    | None => None
    end.
Proof. exact C04_first_pair. Qed.
Print Assumptions C04_first_pair.

(* when either error is raised nothing is exited, entered, executed or consumed: the
   interpreter state is the old one with the step time sampled and the list of sent events
   cleared; the only meta-event is 'step started'; only guards were evaluated *)
Theorem C04_nothing_happened :
  forall (ctx X : Type)
         (exec_code : call ctx -> ctx -> option (ctx * list event))
         (eval_code : call ctx -> ctx -> option bool)
         (emit : Z -> meta -> X -> X * option err) (sc : chart),
    (forall t m x x' e, emit t m x = (x', Some e) -> e <> ENonDeterminism /\ e <> EConflict) ->
    forall fuel now (s s' : mstate ctx X) e,
      execute_once ctx X exec_code eval_code emit sc fuel now s = (s', inr e) ->
      e = ENonDeterminism \/ e = EConflict ->
      i_initialized (m_i s) = true ->
      m_i s' = set_sent ctx [] (set_time ctx now (m_i s)) /\
      m_x s' = fst (emit now (MStepStarted now) (m_x s)) /\
      (exists new, m_tr s' = new ++ m_tr s /\
         (forall c r, ~ In (ObExec c r) new) /\
         (forall c r, In (ObEval c r) new -> cl_kind c = CGuard) /\
         (forall m, In (ObMeta m) new <-> m = MStepStarted now)).
Proof.
  intros ctx X ex ev em sc Hemit fuel now s s' e H He Hi.
  destruct (C04_nothing_happened ctx X ex ev em sc Hemit fuel now s s' e H He Hi)
    as (H1 & H2 & new & H3 & H4 & H5 & H6 & _).
  split; [exact H1|]. split; [exact H2|]. exists new. auto.
Qed.
Print Assumptions C04_nothing_happened.

(* such an error always comes from the pair check on the selected transitions *)
Theorem C04_only_from_selection :
  forall (ctx X : Type) exec_code eval_code (emit : Z -> meta -> X -> X * option err) (sc : chart),
    (forall t m x x' e, emit t m x = (x', Some e) -> e <> ENonDeterminism /\ e <> EConflict) ->
    forall fuel now (s s' : mstate ctx X) e,
      execute_once ctx X exec_code eval_code emit sc fuel now s = (s', inr e) ->
      e = ENonDeterminism \/ e = EConflict ->
      exists ts new, m_tr s' = ObSelected (map fst ts) :: new /\ 2 <= length ts /\ check_pairs sc ts = Some e.
Proof.
  intros ctx X ex ev em sc Hemit fuel now s s' e H He.
  destruct (C04_origin ctx X ex ev em sc Hemit fuel now s s' e H He)
    as (Hi & _ & s2 & ts & _ & Hlen & Hchk & _ & Hs').
  exists ts, (m_tr s2). subst s'. cbn. auto.
Qed.
Print Assumptions C04_only_from_selection.
