(* C10 -- Property-statechart monitoring: complete, ordered, fail-fast, non-intrusive.
   Property theorems only: every statement below is the statement of a lemma proved in proofs/,
   printed by Coq and closed by `exact`. *)
From Coq Require Import List ZArith.
From Sismic Require Import Base Chart Interp World.
From SismicProofs Require Import MetaProofs WorldProofs.
Import ListNotations.

(* every listener call sequence of a returning execute_once is exactly spec_meta of the returned macro step (each documented meta-event once, in order, with its attributes) *)
Theorem C10_complete_thm :
  forall (ctx X : Type) (exec_code : call ctx -> ctx -> option (ctx * list event))
           (eval_code : call ctx -> ctx -> option bool) (emit : Z -> meta -> X -> X * option err) 
           (sc : chart) (fuel : nat) (now : Z) (s s' : mstate ctx X) (macro : option macrostep),
         names_ok sc ->
         execute_once ctx X exec_code eval_code emit sc fuel now s = (s', inl macro) ->
         exists l : list (obs ctx), m_tr s' = l ++ m_tr s /\ tr_metas ctx l = spec_meta sc now macro.
Proof. exact C10_complete. Qed.
Print Assumptions C10_complete_thm.

(* when the call raises, what was emitted is a prefix of such a sequence *)
Theorem C10_prefix_thm :
  forall (ctx X : Type) (exec_code : call ctx -> ctx -> option (ctx * list event))
           (eval_code : call ctx -> ctx -> option bool) (emit : Z -> meta -> X -> X * option err) 
           (sc : chart) (fuel : nat) (now : Z) (s s' : mstate ctx X) (e : err),
         names_ok sc ->
         execute_once ctx X exec_code eval_code emit sc fuel now s = (s', inr e) ->
         exists (l : list (obs ctx)) (macro' : option macrostep),
           m_tr s' = l ++ m_tr s /\ prefix (tr_metas ctx l) (spec_meta sc now macro').
Proof. exact C10_prefix. Qed.
Print Assumptions C10_prefix_thm.

(* an attached listener (recorder) receives exactly spec_meta of the returned macro step *)
Theorem C10_complete_recorder_thm :
  forall (ctx : Type) (exec_code : call ctx -> ctx -> option (ctx * list event))
           (eval_code : call ctx -> ctx -> option bool) (sc : chart) (fuel : nat) (now : Z) 
           (s : istate ctx) (w : world ctx) (ms : mstate ctx (world ctx)) (macro : option macrostep) 
           (id : nat),
         names_ok sc ->
         execute_once1 ctx exec_code eval_code sc fuel now s w = (ms, inl macro) ->
         count (is_rec id) (w_listeners w) = 1 -> log ctx (m_x ms) id = log ctx w id ++ spec_meta sc now macro.
Proof. exact C10_complete_recorder. Qed.
Print Assumptions C10_complete_recorder_thm.

(* ... and the corresponding prefix when the call raises *)
Theorem C10_prefix_recorder_thm :
  forall (ctx : Type) (exec_code : call ctx -> ctx -> option (ctx * list event))
           (eval_code : call ctx -> ctx -> option bool) (sc : chart) (fuel : nat) (now : Z) 
           (s : istate ctx) (w : world ctx) (ms : mstate ctx (world ctx)) (e : err) 
           (id : nat),
         names_ok sc ->
         execute_once1 ctx exec_code eval_code sc fuel now s w = (ms, inr e) ->
         count (is_rec id) (w_listeners w) = 1 ->
         exists (p : list meta) (macro' : option macrostep),
           prefix p (spec_meta sc now macro') /\ log ctx (m_x ms) id = log ctx w id ++ p.
Proof. exact C10_prefix_recorder. Qed.
Print Assumptions C10_prefix_recorder_thm.

(* one delivery reaches every attached listener exactly once, in attach order *)
Theorem C10_recorder_gets_all_thm :
  forall (ctx : Type) (exec_code : call ctx -> ctx -> option (ctx * list event))
           (eval_code : call ctx -> ctx -> option bool) (now : Z) (m : meta) (ls : list listener)
           (w w' : world ctx),
         deliver ctx exec_code eval_code now m ls w = (w', None) ->
         forall id : nat, log ctx w' id = log ctx w id ++ repeat m (count (is_rec id) ls).
Proof. exact C10_recorder_gets_all. Qed.
Print Assumptions C10_recorder_gets_all_thm.

(* delivery stops at the first listener that raises; later listeners are not called *)
Theorem C10_failfast_deliver_thm :
  forall (ctx : Type) (exec_code : call ctx -> ctx -> option (ctx * list event))
           (eval_code : call ctx -> ctx -> option bool) (now : Z) (m : meta) (ls : list listener)
           (w w' : world ctx) (r : option err),
         deliver ctx exec_code eval_code now m ls w = (w', r) ->
         match r with
         | Some e =>
             exists (pre : list listener) (l : listener) (post : list listener),
               ls = pre ++ l :: post /\
               all_ok ctx exec_code eval_code now m pre w /\
               deliver_one ctx exec_code eval_code now m l (run ctx exec_code eval_code now m pre w) =
               (w', Some e)
         | None => all_ok ctx exec_code eval_code now m ls w /\ w' = run ctx exec_code eval_code now m ls w
         end.
Proof. exact C10_failfast_deliver. Qed.
Print Assumptions C10_failfast_deliver_thm.

(* a property statechart listener raises PropertyStatechartError exactly when its interpreter is final after executing the meta-event *)
Theorem C10_failfast_prop_iff_thm :
  forall (ctx : Type) (exec_code : call ctx -> ctx -> option (ctx * list event))
           (eval_code : call ctx -> ctx -> option bool) (now : Z) (m : meta) (id : nat) 
           (w : world ctx) (psc : chart) (ps : istate ctx) (macros : list macrostep),
         prop ctx w id = Some (psc, ps) ->
         snd (prop_run ctx exec_code eval_code w now m psc ps) = inl macros ->
         (snd (deliver_one ctx exec_code eval_code now m (LProp id) w) = Some (EProperty id) <->
          is_final (m_i (fst (prop_run ctx exec_code eval_code w now m psc ps))) = true) /\
         (snd (deliver_one ctx exec_code eval_code now m (LProp id) w) = None <->
          is_final (m_i (fst (prop_run ctx exec_code eval_code w now m psc ps))) = false).
Proof. exact C10_failfast_prop_iff. Qed.
Print Assumptions C10_failfast_prop_iff_thm.

(* an error during delivery always comes from a property statechart: its own error or PropertyStatechartError because it is final *)
Theorem C10_failfast_emit1_thm :
  forall (ctx : Type) (exec_code : call ctx -> ctx -> option (ctx * list event))
           (eval_code : call ctx -> ctx -> option bool) (now : Z) (m : meta) (w : world ctx) 
           (e : err),
         snd (emit1 ctx exec_code eval_code now m w) = Some e ->
         exists (pre : list listener) (id : nat) (post : list listener) (psc : chart) 
         (ps : istate ctx),
           w_listeners w = pre ++ LProp id :: post /\
           all_ok ctx exec_code eval_code now m pre w /\
           prop ctx (run ctx exec_code eval_code now m pre w) id = Some (psc, ps) /\
           e =
           match
             snd (prop_run ctx exec_code eval_code (run ctx exec_code eval_code now m pre w) now m psc ps)
           with
           | inl _ => EProperty id
           | inr e' => e'
           end /\
           (forall macros : list macrostep,
            snd (prop_run ctx exec_code eval_code (run ctx exec_code eval_code now m pre w) now m psc ps) =
            inl macros ->
            is_final
              (m_i
                 (fst (prop_run ctx exec_code eval_code (run ctx exec_code eval_code now m pre w) now m psc ps))) =
            true).
Proof. exact C10_failfast_emit1. Qed.
Print Assumptions C10_failfast_emit1_thm.

(* the property interpreter executes at the monitored interpreter s step time: its time is now afterwards, all its evaluator calls see now, its macro steps are stamped now *)
Theorem C10_sync_thm :
  forall (ctx : Type) (exec_code : call ctx -> ctx -> option (ctx * list event))
           (eval_code : call ctx -> ctx -> option bool) (now : Z) (m : meta) (id : nat) 
           (w : world ctx) (psc : chart) (ps : istate ctx) (w' : world ctx) (r : option err),
         prop ctx w id = Some (psc, ps) ->
         w_fuel w <> 0 ->
         deliver_one ctx exec_code eval_code now m (LProp id) w = (w', r) ->
         exists ps' : istate ctx,
           prop ctx w' id = Some (psc, ps') /\
           i_time ps' = now /\
           (exists l : list (obs ctx), w_tr w' = l ++ w_tr w /\ Forall (time_obs ctx now) l) /\
           (forall macros : list macrostep,
            snd (prop_run ctx exec_code eval_code w now m psc ps) = inl macros ->
            Forall (fun ms : Z * list microstep => fst ms = now) macros).
Proof. exact C10_sync. Qed.
Print Assumptions C10_sync_thm.

(* execute() at time now runs every execute_once at now *)
Theorem C10_sync_execute_thm :
  forall (ctx X : Type) (exec_code : call ctx -> ctx -> option (ctx * list event))
           (eval_code : call ctx -> ctx -> option bool) (emit : Z -> meta -> X -> X * option err) 
           (sc : chart) (fuel : nat) (now : Z) (s s' : mstate ctx X) (r : list macrostep + err),
         execute ctx X exec_code eval_code emit sc fuel now s = (s', r) ->
         (fuel = 0 \/ i_time (m_i s') = now) /\
         (exists l : list (obs ctx),
            m_tr s' = l ++ m_tr s /\
            Forall (time_obs ctx now) l /\ m_x s' = feed X emit now (tr_metas ctx l) (m_x s)) /\
         (forall macros : list macrostep,
          r = inl macros -> Forall (fun ms : Z * list microstep => fst ms = now) macros).
Proof. exact C10_sync_execute. Qed.
Print Assumptions C10_sync_execute_thm.

(* listeners that never raise do not influence the run: same result, same interpreter state, same evaluator calls, whatever the listeners are *)
Theorem C10_nonintrusive_never_thm :
  forall (ctx : Type) (exec_code : call ctx -> ctx -> option (ctx * list event))
           (eval_code : call ctx -> ctx -> option bool) (sc : chart) (Xa Xb : Type)
           (emit_a : Z -> meta -> Xa -> Xa * option err) (emit_b : Z -> meta -> Xb -> Xb * option err),
         (forall (t : Z) (m : meta) (x : Xb), snd (emit_b t m x) = None) ->
         forall (fuel : nat) (now : Z) (sa : mstate ctx Xa) (sb : mstate ctx Xb) (sa' : mstate ctx Xa)
           (ra : option macrostep + err) (sb' : mstate ctx Xb) (rb : option macrostep + err),
         (forall (t : Z) (m : meta) (x : Xa), snd (emit_a t m x) = None) ->
         sim ctx Xa Xb sa sb ->
         execute_once ctx Xa exec_code eval_code emit_a sc fuel now sa = (sa', ra) ->
         execute_once ctx Xb exec_code eval_code emit_b sc fuel now sb = (sb', rb) ->
         m_i sa' = m_i sb' /\ m_tr sa' = m_tr sb' /\ ra = rb.
Proof. exact C10_nonintrusive_never. Qed.
Print Assumptions C10_nonintrusive_never_thm.

(* a monitored run that returns is the run without any listener *)
Theorem C10_nonintrusive_returns_thm :
  forall (ctx : Type) (exec_code : call ctx -> ctx -> option (ctx * list event))
           (eval_code : call ctx -> ctx -> option bool) (sc : chart) (fuel : nat) (now : Z) 
           (s : istate ctx) (w : world ctx) (ms : mstate ctx (world ctx)) (macro : option macrostep)
           (ms0 : mstate ctx unit) (r0 : option macrostep + err),
         execute_once1 ctx exec_code eval_code sc fuel now s w = (ms, inl macro) ->
         execute_once ctx unit exec_code eval_code emit0 sc fuel now {| m_i := s; m_x := tt; m_tr := [] |} =
         (ms0, r0) -> m_i ms = m_i ms0 /\ m_tr ms = m_tr ms0 /\ r0 = inl macro.
Proof. exact C10_nonintrusive_returns. Qed.
Print Assumptions C10_nonintrusive_returns_thm.

(* without property statecharts the listeners never change the run *)
Theorem C10_nonintrusive_no_prop_thm :
  forall (ctx : Type) (exec_code : call ctx -> ctx -> option (ctx * list event))
           (eval_code : call ctx -> ctx -> option bool) (sc : chart) (fuel : nat) (now : Z) 
           (s : istate ctx) (w : world ctx) (ms : mstate ctx (world ctx)) (r : option macrostep + err)
           (ms0 : mstate ctx unit) (r0 : option macrostep + err),
         (forall id : nat, ~ In (LProp id) (w_listeners w)) ->
         execute_once1 ctx exec_code eval_code sc fuel now s w = (ms, r) ->
         execute_once ctx unit exec_code eval_code emit0 sc fuel now {| m_i := s; m_x := tt; m_tr := [] |} =
         (ms0, r0) -> m_i ms = m_i ms0 /\ m_tr ms = m_tr ms0 /\ r = r0.
Proof. exact C10_nonintrusive_no_prop. Qed.
Print Assumptions C10_nonintrusive_no_prop_thm.

(* the hypothesis names_ok (a state registered under a name has that name) is decidable *)
Theorem names_okb_sound_thm :
  forall sc : chart, names_okb sc = true -> names_ok sc.
Proof. exact names_okb_sound. Qed.
Print Assumptions names_okb_sound_thm.

From Sismic Require Spec.
(* the checker evaluated by the correspondence run on the implementation's listener logs
   (Spec.spec_meta, bit PB_META of Corr.v) is the specification of the theorems above *)
Theorem Pb_spec_meta_is_spec_meta :
  forall sc now macro, Sismic.Spec.spec_meta sc now macro = MetaProofs.spec_meta sc now macro.
Proof. reflexivity. Qed.
Print Assumptions Pb_spec_meta_is_spec_meta.
