(* C08 -- Contracts are checked at the documented points; failures raise the right error.
   Property theorems only: every statement below is the statement of a lemma proved in proofs/,
   printed by Coq and closed by `exact`. *)
From Coq Require Import List ZArith.
From Sismic Require Import Base Chart Interp World Spec.
From SismicProofs Require Import TraceProofs.
Import ListNotations.

(* POINTS. With contract checking on, the evaluator calls of an execute_once that returns a macro step are: guard evaluations, then EXACTLY the documented slots of the returned micro steps in order (per exited state: exit code then its postconditions; per transition: preconditions, invariants, action, postconditions, invariants; per entered state: preconditions then entry code; conditions in declaration order, each once), then the invariants of every active state of the resulting configuration by (depth, name) - nothing else, all conditions true *)
Theorem C08_execute_once_points_doc_thm :
  forall (ctx X : Type) (exec_code : call ctx -> ctx -> option (ctx * list event))
           (eval_code : call ctx -> ctx -> option bool) (emit : Z -> meta -> X -> X * option err) 
           (sc : chart) (fuel : nat) (now : Z) (s s' : mstate ctx X) (t : Z) (steps : list microstep),
         names_coherent sc ->
         ig ctx X s = false ->
         execute_once ctx X exec_code eval_code emit sc fuel now s = (s', inl (Some (t, steps))) ->
         t = now /\
         (exists new guards r1 r2 : list (obs ctx),
            m_tr s' = new ++ m_tr s /\
            calls ctx (rev new) = guards ++ r1 ++ r2 /\
            Forall (guard_ok ctx) guards /\
            realises ctx false (flat_map (slots_of_micro_doc sc) steps) r1 RDone /\
            realises ctx false (inv_slots_doc sc (i_config (m_i s')) (macro_event steps)) r2 RDone /\
            i_config (m_i s') = fold_left cfg_step_doc steps (i_config (m_i s))).
Proof. exact C08_execute_once_points_doc. Qed.
Print Assumptions C08_execute_once_points_doc_thm.

(* the same for one micro step *)
Theorem C08_apply_step_points_doc_thm :
  forall (ctx X : Type) (exec_code : call ctx -> ctx -> option (ctx * list event))
           (eval_code : call ctx -> ctx -> option bool) (emit : Z -> meta -> X -> X * option err) 
           (sc : chart) (step : microstep) (s s' : mstate ctx X) (a : microstep),
         names_coherent sc ->
         ig ctx X s = false ->
         apply_step ctx X exec_code eval_code emit sc step s = (s', inl a) ->
         exists new : list (obs ctx),
           m_tr s' = new ++ m_tr s /\
           realises ctx false (slots_of_micro_doc sc step) (calls ctx (rev new)) RDone.
Proof. exact C08_apply_step_points_doc. Qed.
Print Assumptions C08_apply_step_points_doc_thm.

(* ... also when no step is produced: the invariants of every active state are still evaluated and the configuration is unchanged *)
Theorem C08_execute_once_empty_config_thm :
  forall (ctx X : Type) (exec_code : call ctx -> ctx -> option (ctx * list event))
           (eval_code : call ctx -> ctx -> option bool) (emit : Z -> meta -> X -> X * option err) 
           (sc : chart) (fuel : nat) (now : Z) (s s' : mstate ctx X),
         execute_once ctx X exec_code eval_code emit sc fuel now s = (s', inl None) ->
         i_config (m_i s') = i_config (m_i s) /\
         (exists new guards r2 : list (obs ctx),
            m_tr s' = new ++ m_tr s /\
            calls ctx (rev new) = guards ++ r2 /\
            Forall (guard_ok ctx) guards /\
            realises ctx (ig ctx X s) (inv_slots sc (i_config (m_i s)) None) r2 RDone).
Proof. exact C08_execute_once_empty_config. Qed.
Print Assumptions C08_execute_once_empty_config_thm.

(* GENERAL FORM, any outcome: the calls are a play of the slot list that stops at the first failing call; the result and the play agree (verdict) *)
Theorem C08_execute_once_run_thm :
  forall (ctx X : Type) (exec_code : call ctx -> ctx -> option (ctx * list event))
           (eval_code : call ctx -> ctx -> option bool) (emit : Z -> meta -> X -> X * option err) 
           (sc : chart) (fuel : nat) (now : Z) (s s' : mstate ctx X) (r : option macrostep + err),
         execute_once ctx X exec_code eval_code emit sc fuel now s = (s', r) ->
         exists (new : list (obs ctx)) (out : outcome) (done : list microstep),
           m_tr s' = new ++ m_tr s /\
           ig ctx X s' = ig ctx X s /\
           i_time (m_i s') = now /\
           realises ctx (ig ctx X s)
             (SGuards
              :: flat_map (slots_of_micro sc) done ++ inv_slots sc (i_config (m_i s')) (macro_event done))
             (calls ctx (rev new)) out /\
           verdict ctx (AEM X emit) out r new /\
           (forall m : option macrostep,
            r = inl m -> m = None /\ done = [] \/ done <> [] /\ m = Some (now, done)).
Proof. exact C08_execute_once_run. Qed.
Print Assumptions C08_execute_once_run_thm.

(* FIRST FAILURE. If execute_once raises Pre/Post/InvariantError(owner, condition idx) then the NEWEST observation is the evaluation of exactly that condition of that owner, it yielded false, every earlier call succeeded, and nothing (no code, no evaluation, no meta-event) follows it *)
Theorem C08_first_failure_thm :
  forall (ctx X : Type) (exec_code : call ctx -> ctx -> option (ctx * list event))
           (eval_code : call ctx -> ctx -> option bool) (emit : Z -> meta -> X -> X * option err) 
           (sc : chart) (fuel : nat) (now : Z) (s s' : mstate ctx X) (k : ckind) (o : owner) 
           (idx : nat),
         emit_clean X emit ->
         execute_once ctx X exec_code eval_code emit sc fuel now s = (s', inr (EContract k o idx)) ->
         exists (x : obs ctx) (rest : list (obs ctx)) (done : list microstep),
           m_tr s' = x :: rest ++ m_tr s /\
           fails_with ctx x (RFalse k o idx) /\
           Forall (ok_obs ctx) (calls ctx (rev rest)) /\
           realises ctx (ig ctx X s)
             (SGuards
              :: flat_map (slots_of_micro sc) done ++ inv_slots sc (i_config (m_i s')) (macro_event done))
             (calls ctx (rev rest) ++ [x]) (RFalse k o idx).
Proof. exact C08_first_failure. Qed.
Print Assumptions C08_first_failure_thm.

(* the same when the failing call raised (CodeEvaluationError) *)
Theorem C08_first_raise_thm :
  forall (ctx X : Type) (exec_code : call ctx -> ctx -> option (ctx * list event))
           (eval_code : call ctx -> ctx -> option bool) (emit : Z -> meta -> X -> X * option err) 
           (sc : chart) (fuel : nat) (now : Z) (s s' : mstate ctx X) (k : ckind) (o : owner) 
           (idx : nat),
         emit_clean X emit ->
         execute_once ctx X exec_code eval_code emit sc fuel now s = (s', inr (ECode k o idx)) ->
         exists (x : obs ctx) (rest : list (obs ctx)) (done : list microstep),
           m_tr s' = x :: rest ++ m_tr s /\
           fails_with ctx x (RRaise k o idx) /\
           Forall (ok_obs ctx) (calls ctx (rev rest)) /\
           realises ctx (ig ctx X s)
             (SGuards
              :: flat_map (slots_of_micro sc) done ++ inv_slots sc (i_config (m_i s')) (macro_event done))
             (calls ctx (rev rest) ++ [x]) (RRaise k o idx).
Proof. exact C08_first_raise. Qed.
Print Assumptions C08_first_raise_thm.

(* OLD. What a condition sees as __old__ is the stored snapshot of its owner (invariants, postconditions) and nothing for preconditions *)
Theorem C08_old_at_eval_thm :
  forall (ctx X : Type) (eval_code : call ctx -> ctx -> option bool) (sc : chart) 
           (k : ckind) (o : owner) (idx : nat) (cd : code) (ev : option event) (s s' : mstate ctx X)
           (r : bool + err),
         eval_cond ctx X eval_code sc k o idx cd ev s = (s', r) ->
         exists (c : call ctx) (rb : option bool),
           m_tr s' = ObEval c rb :: m_tr s /\
           m_i s' = m_i s /\
           rb = eval_code c (i_ctx (m_i s)) /\
           cl_kind c = k /\
           cl_owner c = o /\
           cl_idx c = idx /\
           cl_old c = match k with
                      | CInv | CPost => old_lookup o (i_old (m_i s))
                      | _ => None
                      end.
Proof. exact C08_old_at_eval. Qed.
Print Assumptions C08_old_at_eval_thm.

(* entering a state with invariants/postconditions stores the context as it is JUST BEFORE its preconditions and entry code run, for that state only *)
Theorem C08_old_state_entry_thm :
  forall (ctx X : Type) (exec_code : call ctx -> ctx -> option (ctx * list event))
           (eval_code : call ctx -> ctx -> option bool) (emit : Z -> meta -> X -> X * option err) 
           (sc : chart) (ev : option event) (st : state) (s s' : mstate ctx X) (a : list event),
         enter_state ctx X exec_code eval_code emit sc ev st s = (s', inl a) ->
         let o := OState (s_name st) in
         i_old (m_i s') = contract_old ctx CPre o (s_post st) (s_inv st) (m_i s) /\
         (exists (pre_evals : list (obs ctx)) (c : call ctx),
            m_tr s' = ObMeta (MEntered (s_name st)) :: ObExec c (Some a) :: pre_evals ++ m_tr s /\
            Forall
              (fun x : obs ctx =>
               exists c0 : call ctx, x = ObEval c0 (eval_code c0 (i_ctx (m_i s))) /\ cl_kind c0 = CPre)
              pre_evals) /\
         (ig ctx X s = false ->
          s_inv st <> [] \/ s_post st <> [] ->
          i_old (m_i s') = old_set o (i_ctx (m_i s)) (i_old (m_i s)) /\
          old_lookup o (i_old (m_i s')) = Some (i_ctx (m_i s)) /\
          (forall o' : owner,
           owner_eqb o' o = false -> old_lookup o' (i_old (m_i s')) = old_lookup o' (i_old (m_i s)))).
Proof. exact C08_old_state_entry. Qed.
Print Assumptions C08_old_state_entry_thm.

(* for a transition every condition evaluated after the preconditions sees the context as it was just before the action *)
Theorem C08_old_transition_thm :
  forall (ctx X : Type) (exec_code : call ctx -> ctx -> option (ctx * list event))
           (eval_code : call ctx -> ctx -> option bool) (emit : Z -> meta -> X -> X * option err) 
           (sc : chart) (ev : option event) (i : nat) (t : transition) (s s' : mstate ctx X)
           (r : list event + err),
         nth_error (c_transitions sc) i = Some t ->
         ig ctx X s = false ->
         t_inv t <> [] \/ t_post t <> [] ->
         process_transition ctx X exec_code eval_code emit sc ev i s = (s', r) ->
         exists new : list (obs ctx),
           m_tr s' = new ++ m_tr s /\ Forall (sees_old ctx exec_code (i_ctx (m_i s))) new.
Proof. exact C08_old_transition. Qed.
Print Assumptions C08_old_transition_thm.

(* postconditions at exit read the store and do not change it *)
Theorem C08_old_exit_thm :
  forall (ctx X : Type) (exec_code : call ctx -> ctx -> option (ctx * list event))
           (eval_code : call ctx -> ctx -> option bool) (emit : Z -> meta -> X -> X * option err) 
           (sc : chart) (active : list name) (ev : option event) (st : state) (s s' : mstate ctx X)
           (r : list event + err),
         exit_state ctx X exec_code eval_code emit sc active ev st s = (s', r) ->
         exists new : list (obs ctx),
           m_tr s' = new ++ m_tr s /\
           Forall (reads_store ctx CPost (OState (s_name st)) (i_old (m_i s))) new /\
           (forall a : list event, r = inl a -> i_old (m_i s') = i_old (m_i s)).
Proof. exact C08_old_exit. Qed.
Print Assumptions C08_old_exit_thm.

(* the invariants at the end of a macro step read the store, run no code and change nothing *)
Theorem C08_old_invariants_thm :
  forall (ctx X : Type) (eval_code : call ctx -> ctx -> option bool) (sc : chart) 
           (ev : option event) (s s' : mstate ctx X) (r : unit + err),
         check_invariants ctx X eval_code sc ev s = (s', r) ->
         m_i s' = m_i s /\
         (exists new : list (obs ctx),
            m_tr s' = new ++ m_tr s /\
            Forall
              (fun x : obs ctx =>
               exists o : owner,
                 reads_store ctx CInv o (i_old (m_i s)) x /\ match x with
                                                             | ObExec _ _ => False
                                                             | _ => True
                                                             end) new).
Proof. exact C08_old_invariants. Qed.
Print Assumptions C08_old_invariants_thm.

(* nothing but the evaluation of preconditions ever writes the store *)
Theorem C08_old_written_only_by_pre_thm :
  forall (ctx X : Type) (exec_code : call ctx -> ctx -> option (ctx * list event))
           (eval_code : call ctx -> ctx -> option bool) (emit : Z -> meta -> X -> X * option err) 
           (sc : chart),
         (forall (k : ckind) (o : owner) (cd : option code) (ev : option event) (s : mstate ctx X),
          keepsAt ctx X (list (owner * ctx)) i_old (run_code ctx X exec_code sc k o cd ev) s) /\
         (forall (k : ckind) (o : owner) (idx : nat) (cd : code) (ev : option event) (s : mstate ctx X),
          keepsAt ctx X (list (owner * ctx)) i_old (eval_cond ctx X eval_code sc k o idx cd ev) s) /\
         (forall (k : ckind) (o : owner) (pre post inv : list code) (ev : option event) (s : mstate ctx X),
          k <> CPre ->
          keepsAt ctx X (list (owner * ctx)) i_old (contract ctx X eval_code sc k o pre post inv ev) s) /\
         (forall (o : owner) (pre post inv : list code) (ev : option event) (s s' : mstate ctx X)
            (r : unit + err),
          contract ctx X eval_code sc CPre o pre post inv ev s = (s', r) ->
          i_old (m_i s') = contract_old ctx CPre o post inv (m_i s)) /\
         (forall (active : list name) (st : state) (s : mstate ctx X),
          keepsAt ctx X (list (owner * ctx)) i_old (record_history ctx X sc active st) s) /\
         (forall (m : meta) (s : mstate ctx X),
          keepsAt ctx X (list (owner * ctx)) i_old (raise_meta ctx X emit m) s) /\
         (forall (e : event) (s : mstate ctx X),
          keepsAt ctx X (list (owner * ctx)) i_old (raise_event ctx X emit e) s) /\
         (forall s : mstate ctx X,
          keepsAt ctx X (list (owner * ctx)) i_old (compute_steps ctx X eval_code sc) s) /\
         (forall s : mstate ctx X, keepsAt ctx X (list (owner * ctx)) i_old (consume_event ctx X) s) /\
         (forall (ev : option event) (s : mstate ctx X),
          keepsAt ctx X (list (owner * ctx)) i_old (check_invariants ctx X eval_code sc ev) s).
Proof. exact C08_old_written_only_by_pre. Qed.
Print Assumptions C08_old_written_only_by_pre_thm.
