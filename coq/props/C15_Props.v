(* C15 -- Bound statecharts: sent events reach every bound target once, in order.
   Property theorems only: every statement below is the statement of a lemma proved in proofs/,
   printed by Coq and closed by `exact`. *)
From Coq Require Import List ZArith.
From Sismic Require Import Base Chart Interp World.
From SismicProofs Require Import MetaProofs WorldProofs.
Import ListNotations.

(* a bound callable receives, as external events, exactly the internal events listed in the returned macro step, in order; a bound interpreter gets exactly those queued into its EXTERNAL queue (at its own time + delay) *)
Theorem C15_delivery_complete_thm :
  forall (ctx : Type) (exec_code : call ctx -> ctx -> option (ctx * list event))
           (eval_code : call ctx -> ctx -> option bool) (sc : chart) (fuel : nat) (now : Z) 
           (s : istate ctx) (w : world ctx) (ms : mstate ctx (world ctx)) (macro : option macrostep) 
           (id : nat),
         names_ok sc ->
         execute_once1 ctx exec_code eval_code sc fuel now s w = (ms, inl macro) ->
         (count (is_callable id) (w_listeners w) = 1 ->
          calls ctx (m_x ms) id = calls ctx w id ++ map as_external (macro_internal_sent macro)) /\
         (count (is_interp id) (w_listeners w) = 1 ->
          bound ctx (m_x ms) id =
          option_map (queue_all ctx (map as_external (macro_internal_sent macro))) (bound ctx w id)).
Proof. exact C15_delivery_complete. Qed.
Print Assumptions C15_delivery_complete_thm.

(* one delivery: a bound target receives the event iff the meta-event is event sent; targets are served in binding order *)
Theorem C15_delivery_thm :
  forall (ctx : Type) (exec_code : call ctx -> ctx -> option (ctx * list event))
           (eval_code : call ctx -> ctx -> option bool) (now : Z) (m : meta) (ls : list listener)
           (w w' : world ctx),
         deliver ctx exec_code eval_code now m ls w = (w', None) ->
         forall id : nat,
         calls ctx w' id = calls ctx w id ++ concat (repeat (forwarded m) (count (is_callable id) ls)) /\
         bound ctx w' id =
         option_map (queue_all ctx (concat (repeat (forwarded m) (count (is_interp id) ls)))) (bound ctx w id).
Proof. exact C15_delivery. Qed.
Print Assumptions C15_delivery_thm.

(* nothing but event sent is ever forwarded (no notify meta-events, no consumed events, no delayed-event duplicates) *)
Theorem C15_filter_thm :
  forall m : meta, (forall e : event, m <> MSent e) -> forwarded m = [].
Proof. exact C15_filter. Qed.
Print Assumptions C15_filter_thm.

(* a listener that is not attached receives nothing *)
Theorem C15_detach_thm :
  forall (ctx : Type) (exec_code : call ctx -> ctx -> option (ctx * list event))
           (eval_code : call ctx -> ctx -> option bool) (now : Z) (m : meta) (ls : list listener)
           (w w' : world ctx) (r : option err) (id : nat),
         deliver ctx exec_code eval_code now m ls w = (w', r) ->
         (~ In (LRec id) ls -> log ctx w' id = log ctx w id) /\
         (~ In (LCallable id) ls -> calls ctx w' id = calls ctx w id) /\
         (~ In (LInterp id) ls -> bound ctx w' id = bound ctx w id).
Proof. exact C15_detach. Qed.
Print Assumptions C15_detach_thm.

(* the event sent meta-events of a returning step are exactly the internal events of the returned macro step *)
Theorem C15_sent_truth_thm :
  forall (ctx X : Type) (exec_code : call ctx -> ctx -> option (ctx * list event))
           (eval_code : call ctx -> ctx -> option bool) (emit : Z -> meta -> X -> X * option err) 
           (sc : chart) (fuel : nat) (now : Z) (s s' : mstate ctx X) (macro : option macrostep),
         names_ok sc ->
         execute_once ctx X exec_code eval_code emit sc fuel now s = (s', inl macro) ->
         exists l : list (obs ctx),
           m_tr s' = l ++ m_tr s /\ sent_events_of (tr_metas ctx l) = macro_internal_sent macro.
Proof. exact C15_sent_truth. Qed.
Print Assumptions C15_sent_truth_thm.

(* the sender keeps its own copy: each sent internal event is inserted in its internal queue *)
Theorem C15_self_thm :
  forall (ctx X : Type) (exec_code : call ctx -> ctx -> option (ctx * list event))
           (eval_code : call ctx -> ctx -> option bool) (emit : Z -> meta -> X -> X * option err) 
           (sc : chart) (fuel : nat) (now : Z) (s s' : mstate ctx X) (t : Z) (steps : list microstep),
         names_ok sc ->
         execute_once ctx X exec_code eval_code emit sc fuel now s = (s', inl (Some (t, steps))) ->
         exists q0 : list (Z * event),
           (q0 = i_iq (m_i s) \/ (exists te : Z * event, i_iq (m_i s) = te :: q0)) /\
           i_iq (m_i s') = ins now (internal_sent steps) q0.
Proof. exact C15_self. Qed.
Print Assumptions C15_self_thm.

(* ... so it is pending there with due = now + delay *)
Theorem C15_self_In_thm :
  forall (ctx X : Type) (exec_code : call ctx -> ctx -> option (ctx * list event))
           (eval_code : call ctx -> ctx -> option bool) (emit : Z -> meta -> X -> X * option err) 
           (sc : chart) (fuel : nat) (now : Z) (s s' : mstate ctx X) (t : Z) (steps : list microstep)
           (e : event),
         names_ok sc ->
         execute_once ctx X exec_code eval_code emit sc fuel now s = (s', inl (Some (t, steps))) ->
         In e (internal_sent steps) -> In ((now + delay_of e)%Z, e) (i_iq (m_i s')).
Proof. exact C15_self_In. Qed.
Print Assumptions C15_self_In_thm.

(* when the call raises, what was delivered is the prefix emitted before the failure *)
Theorem C15_prefix_callable_thm :
  forall (ctx : Type) (exec_code : call ctx -> ctx -> option (ctx * list event))
           (eval_code : call ctx -> ctx -> option bool) (sc : chart) (fuel : nat) (now : Z) 
           (s : istate ctx) (w : world ctx) (ms : mstate ctx (world ctx)) (e : err) 
           (id : nat),
         names_ok sc ->
         execute_once1 ctx exec_code eval_code sc fuel now s w = (ms, inr e) ->
         count (is_callable id) (w_listeners w) = 1 ->
         exists (p : list meta) (macro' : option macrostep),
           prefix p (spec_meta sc now macro') /\
           calls ctx (m_x ms) id = calls ctx w id ++ map as_external (sent_events_of p).
Proof. exact C15_prefix_callable. Qed.
Print Assumptions C15_prefix_callable_thm.

(* what a bound interpreter does with a forwarded event: insertion into its external queue *)
Theorem queue_event_as_external_thm :
  forall (ctx : Type) (bi : istate ctx) (e : event),
         queue_event bi (as_external e) =
         set_eq ctx (queue_insert (i_eq bi) (i_time bi + delay_of e) (as_external e)) bi.
Proof. exact queue_event_as_external. Qed.
Print Assumptions queue_event_as_external_thm.

From Sismic Require Spec.
(* the checker evaluated by the correspondence run on what bound callables received
   (Spec.spec_deliveries, bit PB_DELIV of Corr.v) is the specification of C15_delivery_complete *)
Theorem Pb_spec_deliveries_is_spec :
  forall steps, Sismic.Spec.spec_deliveries steps = map as_external (internal_sent steps).
Proof. reflexivity. Qed.
Print Assumptions Pb_spec_deliveries_is_spec.
