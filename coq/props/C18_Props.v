(* C18 -- A pickled or deep-copied interpreter continues exactly like the original.  theories/Snapshot.v: a Python interpreter is identities + the evaluator store keyed by id(obj) + plain data; to_model is the interpreter of Interp.v it denotes; snapshot rekey ids is what pickle/deepcopy produce (rekey = PythonEvaluator.__setstate__ re-keys the store for the copied objects).
   Property theorems only: every statement below is the statement of a lemma proved in proofs/,
   printed by Coq and closed by `exact`. *)
From Coq Require Import List ZArith String.
From Sismic Require Import Base Chart Interp Snapshot.
From SismicProofs Require Import C09Proofs C18Proofs.
Import ListNotations.
Open Scope string_scope.

(* SNAPSHOT. The copy denotes the same model interpreter as the original - every field, the store behind __old__ included *)
Theorem C18_snapshot_model_thm :
  forall (ctx : Type) (p : pyinterp ctx) (ids' : owner -> ident),
         well_keyed (py_ids p) (py_store p) -> to_model (snapshot true ids' p) = to_model p.
Proof. exact C18_snapshot_model. Qed.
Print Assumptions C18_snapshot_model_thm.

(* CONTINUE. Hence for every statechart, evaluator, listeners and every continuation (any sequence of queue / execute_once) the copy produces exactly the results, final state and trace of the original: macro steps, contexts, contract verdicts including those reading __old__, history, pending and delayed events *)
Theorem C18_continue_thm :
  forall (ctx X : Type) (exec_code : call ctx -> ctx -> option (ctx * list event))
           (eval_code : call ctx -> ctx -> option bool) (emit : Z -> meta -> X -> X * option err) 
           (sc : chart) (p : pyinterp ctx) (ids' : owner -> ident) (ops : list op) 
           (x : X) (tr : list (obs ctx)),
         well_keyed (py_ids p) (py_store p) ->
         run_ops ctx X exec_code eval_code emit sc ops
           {| m_i := to_model (snapshot true ids' p); m_x := x; m_tr := tr |} =
         run_ops ctx X exec_code eval_code emit sc ops {| m_i := to_model p; m_x := x; m_tr := tr |}.
Proof. exact C18_continue. Qed.
Print Assumptions C18_continue_thm.

(* ... one execute_once *)
Theorem C18_continue_step_thm :
  forall (ctx X : Type) (exec_code : call ctx -> ctx -> option (ctx * list event))
           (eval_code : call ctx -> ctx -> option bool) (emit : Z -> meta -> X -> X * option err) 
           (sc : chart) (p : pyinterp ctx) (ids' : owner -> ident) (fuel : nat) (now : Z) 
           (x : X) (tr : list (obs ctx)),
         well_keyed (py_ids p) (py_store p) ->
         execute_once ctx X exec_code eval_code emit sc fuel now
           {| m_i := to_model (snapshot true ids' p); m_x := x; m_tr := tr |} =
         execute_once ctx X exec_code eval_code emit sc fuel now {| m_i := to_model p; m_x := x; m_tr := tr |}.
Proof. exact C18_continue_step. Qed.
Print Assumptions C18_continue_step_thm.

(* the copy is again a well-keyed interpreter: snapshots of snapshots are covered *)
Theorem C18_snapshot_well_keyed_thm :
  forall (ctx : Type) (p : pyinterp ctx) (ids' : owner -> ident),
         well_keyed (py_ids (snapshot true ids' p)) (py_store (snapshot true ids' p)).
Proof. exact C18_snapshot_well_keyed. Qed.
Print Assumptions C18_snapshot_well_keyed_thm.

(* the owner-keyed store of the model is a faithful abstraction: Python lookup by object identity returns what the model lookup by owner returns *)
Theorem old_for_abs_thm :
  forall (ctx : Type) (ids : owner -> ident) (st : idstore ctx) (o : owner),
         (forall a b : owner, ids a = ids b -> a = b) ->
         well_keyed ids st -> old_for ids st o = old_lookup o (abs_store ids st).
Proof. exact old_for_abs. Qed.
Print Assumptions old_for_abs_thm.

(* ... and the write made when preconditions are evaluated commutes with the abstraction *)
Theorem abs_set_thm :
  forall (ctx : Type) (ids : owner -> ident) (st : idstore ctx) (o : owner) (c : ctx),
         (forall a b : owner, ids a = ids b -> a = b) ->
         well_keyed ids st -> abs_store ids (id_set (ids o) (o, c) st) = old_set o c (abs_store ids st).
Proof. exact abs_set. Qed.
Print Assumptions abs_set_thm.

(* WITHOUT the re-keying (the behaviour before the fix be889f9) the copy sees an empty store whenever its objects have fresh identities *)
Theorem C18_stale_store_thm :
  forall (ctx : Type) (p : pyinterp ctx) (ids' : owner -> ident),
         well_keyed (py_ids p) (py_store p) ->
         (forall a b : owner, ids' a <> py_ids p b) -> i_old (to_model (snapshot false ids' p)) = [].
Proof. exact C18_stale_store. Qed.
Print Assumptions C18_stale_store_thm.

(* ... and there is a concrete statechart and history on which that copy raises CodeEvaluationError where the original carries on (the defect switch; a regression to it is what the correspondence run reports) *)
Theorem C18_continue_refuted_without_rekey_thm :
  exists (p : pyinterp Z) (ids' : owner -> ident),
           well_keyed (py_ids p) (py_store p) /\
           (forall a b : owner, ids' a <> py_ids p b) /\
           C18Example.cont (snapshot false ids' p) <> C18Example.cont p /\
           In (inr (ECode CInv (OState "a") 1)) (C18Example.cont (snapshot false ids' p)).
Proof. exact C18Example.C18_continue_refuted_without_rekey. Qed.
Print Assumptions C18_continue_refuted_without_rekey_thm.
