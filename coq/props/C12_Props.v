(* C12 -- YAML import accepts only structurally sound statecharts.  import_pipeline = schema validation, import_from_dict (add_state / add_transition in the order of the importer) and validate(), over an arbitrary YAML data tree; None = StatechartError.
   Property theorems only: every statement below is the statement of a lemma proved in proofs/,
   printed by Coq and closed by `exact`. *)
From Coq Require Import List ZArith String.
From SismicProofs Require Import IOProofs.
From Sismic Require Import Base Chart Edit IO IOCorr.
Import ListNotations.
Open Scope string_scope.

(* SOUND. Whatever the document, a statechart that the import returns has unique state names stored under their own name, consistent parent/children relations forming one tree, transitions only from states that own transitions and only towards existing states, history states only under compound states, every declared initial a direct child, every memory a sibling other than the history state itself *)
Theorem C12_sound_thm :
  forall (d : ydata) (c : chart), import_pipeline d = Some c -> import_sound c.
Proof. exact C12_sound. Qed.
Print Assumptions C12_sound_thm.

(* ... one tree: exactly one root, every other state below it *)
Theorem import_sound_one_tree_thm :
  forall c : chart,
         import_sound c ->
         forall x : name,
         has_state c x = true ->
         exists r : name,
           lookup r (c_parent c) = Some None /\
           (forall r' : name, lookup r' (c_parent c) = Some None -> r' = r) /\
           (forall y : name, has_state c y = true -> y = r \/ EditProofs.anc c y r).
Proof. exact import_sound_one_tree. Qed.
Print Assumptions import_sound_one_tree_thm.

(* the decidable checker evaluated on the statecharts the real importer returns means exactly that *)
Theorem import_sound_b_iff_thm :
  forall c : chart,
         EditProofs.no_empty_name c -> refs_tidy c -> import_sound_b c = true <-> import_sound c.
Proof. exact import_sound_b_iff. Qed.
Print Assumptions import_sound_b_iff_thm.

(* ERROR TYPE. On EVERY data tree the import returns a statechart or raises StatechartError: it never depends on fuel (the recursion always terminates) and the registration loop never ends in a KeyError *)
Theorem C12_error_type_thm :
  forall d : ydata,
         (import_pipeline d = None \/ (exists c : chart, import_pipeline d = Some c)) /\
         (forall k1 k2 : nat, import_pipeline_f k1 k2 d = import_pipeline d) /\
         (forall (m root : list (string * ydata)) (states : list (state * option name))
            (trans : list transition),
          ylookup "root state" m = Some (YMap root) ->
          import_walk (S (count_nodes (YMap root))) [(root, None)] [] [] = Some (states, trans) ->
          let e :=
            empty_chart match get_str "name" m with
                        | Some n => n
                        | None => ""
                        end (get_str "description" m) (get_str "preamble" m) in
          add_states_err e states = EOk \/ add_states_err e states = EStatechartError).
Proof. exact C12_error_type. Qed.
Print Assumptions C12_error_type_thm.

(* REJECT unknown key at statechart level *)
Theorem C12_reject_unknown_key_statechart_thm :
  forall (m : list (name * ydata)) (k : name) (v : ydata),
         In (k, v) m -> mem k statechart_keys = false -> import_pipeline (doc m) = None.
Proof. exact C12_reject_unknown_key_statechart. Qed.
Print Assumptions C12_reject_unknown_key_statechart_thm.

(* REJECT missing statechart name *)
Theorem C12_reject_missing_statechart_name_thm :
  forall m : list (string * ydata), ylookup "name" m = None -> import_pipeline (doc m) = None.
Proof. exact C12_reject_missing_statechart_name. Qed.
Print Assumptions C12_reject_missing_statechart_name_thm.

(* REJECT missing root state *)
Theorem C12_reject_missing_root_state_thm :
  forall m : list (string * ydata), ylookup "root state" m = None -> import_pipeline (doc m) = None.
Proof. exact C12_reject_missing_root_state. Qed.
Print Assumptions C12_reject_missing_root_state_thm.

(* REJECT unknown key in a state, at any depth *)
Theorem C12_reject_unknown_key_state_thm :
  forall (m : list (string * ydata)) (root : ydata) (sm : list (string * ydata)) 
           (k : string) (v : ydata),
         In ("root state", root) m ->
         state_in root (YMap sm) -> In (k, v) sm -> mem k state_keys = false -> import_pipeline (doc m) = None.
Proof. exact C12_reject_unknown_key_state. Qed.
Print Assumptions C12_reject_unknown_key_state_thm.

(* REJECT state without a name, at any depth *)
Theorem C12_reject_missing_state_name_thm :
  forall (m : list (string * ydata)) (root : ydata) (sm : list (string * ydata)),
         In ("root state", root) m ->
         state_in root (YMap sm) -> ylookup "name" sm = None -> import_pipeline (doc m) = None.
Proof. exact C12_reject_missing_state_name. Qed.
Print Assumptions C12_reject_missing_state_name_thm.

(* REJECT unknown type *)
Theorem C12_reject_unknown_type_thm :
  forall (m : list (string * ydata)) (root : ydata) (sm : list (string * ydata)) (v : ydata),
         In ("root state", root) m ->
         state_in root (YMap sm) ->
         In ("type", v) sm ->
         (forall s : string, v = YStr s -> mem s type_values = false) -> import_pipeline (doc m) = None.
Proof. exact C12_reject_unknown_type. Qed.
Print Assumptions C12_reject_unknown_type_thm.

(* REJECT unknown key in a transition *)
Theorem C12_reject_unknown_key_transition_thm :
  forall (m : list (string * ydata)) (root : ydata) (sm : list (string * ydata)) 
           (ts : list ydata) (tm : list (string * ydata)) (k : string) (v : ydata),
         In ("root state", root) m ->
         state_in root (YMap sm) ->
         In ("transitions", YList ts) sm ->
         In (YMap tm) ts -> In (k, v) tm -> mem k transition_keys = false -> import_pipeline (doc m) = None.
Proof. exact C12_reject_unknown_key_transition. Qed.
Print Assumptions C12_reject_unknown_key_transition_thm.

(* REJECT a priority that is neither an integer nor high/low *)
Theorem C12_reject_bad_priority_thm :
  forall (m : list (string * ydata)) (root : ydata) (sm : list (string * ydata)) 
           (ts : list ydata) (tm : list (string * ydata)) (v : ydata),
         In ("root state", root) m ->
         state_in root (YMap sm) ->
         In ("transitions", YList ts) sm ->
         In (YMap tm) ts -> In ("priority", v) tm -> use_priority v = None -> import_pipeline (doc m) = None.
Proof. exact C12_reject_bad_priority. Qed.
Print Assumptions C12_reject_bad_priority_thm.

(* REJECT unknown key in a state contract *)
Theorem C12_reject_unknown_key_state_contract_thm :
  forall (m : list (string * ydata)) (root : ydata) (sm : list (string * ydata)) 
           (cs : list ydata) (cm : list (string * ydata)) (k : string) (v : ydata),
         In ("root state", root) m ->
         state_in root (YMap sm) ->
         In ("contract", YList cs) sm ->
         In (YMap cm) cs -> In (k, v) cm -> mem k contract_keys = false -> import_pipeline (doc m) = None.
Proof. exact C12_reject_unknown_key_state_contract. Qed.
Print Assumptions C12_reject_unknown_key_state_contract_thm.

(* REJECT unknown key in a transition contract *)
Theorem C12_reject_unknown_key_transition_contract_thm :
  forall (m : list (string * ydata)) (root : ydata) (sm : list (string * ydata)) 
           (ts : list ydata) (tm : list (string * ydata)) (cs : list ydata) (cm : list (string * ydata))
           (k : string) (v : ydata),
         In ("root state", root) m ->
         state_in root (YMap sm) ->
         In ("transitions", YList ts) sm ->
         In (YMap tm) ts ->
         In ("contract", YList cs) tm ->
         In (YMap cm) cs -> In (k, v) cm -> mem k contract_keys = false -> import_pipeline (doc m) = None.
Proof. exact C12_reject_unknown_key_transition_contract. Qed.
Print Assumptions C12_reject_unknown_key_transition_contract_thm.

(* REJECT a state declaring both (non-empty) states and parallel states *)
Theorem C12_reject_both_states_and_parallel_thm :
  forall (d : ydata) (m root : list (string * ydata)),
         schema_statechart d = Some (doc m) ->
         ylookup "root state" m = Some (YMap root) ->
         forall (x : list (string * ydata)) (xp : option name) (a : ydata) (la : list ydata) 
           (b : ydata) (lb : list ydata),
         walk_in root None x xp ->
         ylookup "type" x = None ->
         ylist_of "states" x = a :: la -> ylist_of "parallel states" x = b :: lb -> import_pipeline d = None.
Proof. exact C12_reject_both_states_and_parallel. Qed.
Print Assumptions C12_reject_both_states_and_parallel_thm.

(* REJECT two states with the same name *)
Theorem C12_reject_duplicate_name_thm :
  forall (d : ydata) (m root : list (string * ydata)),
         schema_statechart d = Some (doc m) ->
         ylookup "root state" m = Some (YMap root) ->
         forall (x : list (string * ydata)) (xp : option name) (y : list (string * ydata)) 
           (yp : option name) (sx sy : state),
         walk_in root None x xp ->
         walk_in root None y yp ->
         import_state x = Some sx ->
         import_state y = Some sy -> s_name sx = s_name sy -> (sx, xp) <> (sy, yp) -> import_pipeline d = None.
Proof. exact C12_reject_duplicate_name. Qed.
Print Assumptions C12_reject_duplicate_name_thm.

(* REJECT a transition declared on a final or history state *)
Theorem C12_reject_transition_on_final_or_history_thm :
  forall (d : ydata) (m root : list (string * ydata)),
         schema_statechart d = Some (doc m) ->
         ylookup "root state" m = Some (YMap root) ->
         forall (x : list (string * ydata)) (xp : option name) (st : state) (tm : list (string * ydata)),
         walk_in root None x xp ->
         import_state x = Some st ->
         owns_transitions (s_kind st) = false ->
         In (YMap tm) (ylist_of "transitions" x) -> import_pipeline d = None.
Proof. exact C12_reject_transition_on_final_or_history. Qed.
Print Assumptions C12_reject_transition_on_final_or_history_thm.

(* REJECT a transition towards a state that does not exist *)
Theorem C12_reject_unknown_target_thm :
  forall (d : ydata) (m root : list (string * ydata)),
         schema_statechart d = Some (doc m) ->
         ylookup "root state" m = Some (YMap root) ->
         forall (x : list (string * ydata)) (xp : option name) (tm : list (string * ydata)) (tg : string),
         walk_in root None x xp ->
         In (YMap tm) (ylist_of "transitions" x) ->
         get_str "target" tm = Some tg ->
         (forall (y : list (string * ydata)) (yp : option name) (sy : state),
          walk_in root None y yp -> import_state y = Some sy -> s_name sy <> tg) -> 
         import_pipeline d = None.
Proof. exact C12_reject_unknown_target. Qed.
Print Assumptions C12_reject_unknown_target_thm.

(* REJECT a history state as root *)
Theorem C12_reject_history_root_thm :
  forall (d : ydata) (m root : list (string * ydata)),
         schema_statechart d = Some (doc m) ->
         ylookup "root state" m = Some (YMap root) ->
         forall st : state,
         import_state root = Some st -> is_history (s_kind st) = true -> import_pipeline d = None.
Proof. exact C12_reject_history_root. Qed.
Print Assumptions C12_reject_history_root_thm.

(* REJECT a history state whose parent is not a compound state *)
Theorem C12_reject_history_under_non_compound_thm :
  forall (d : ydata) (m root : list (string * ydata)),
         schema_statechart d = Some (doc m) ->
         ylookup "root state" m = Some (YMap root) ->
         forall (x : list (string * ydata)) (xp : option name) (px : state) (sub : list (string * ydata))
           (st : state),
         walk_in root None x xp ->
         import_state x = Some px ->
         s_kind px <> KCompound ->
         In (YMap sub) (subs_of px x) ->
         import_state sub = Some st -> is_history (s_kind st) = true -> import_pipeline d = None.
Proof. exact C12_reject_history_under_non_compound. Qed.
Print Assumptions C12_reject_history_under_non_compound_thm.

(* REJECT an initial that is not a direct child *)
Theorem C12_reject_initial_not_child_thm :
  forall (d : ydata) (m root : list (string * ydata)),
         schema_statechart d = Some (doc m) ->
         ylookup "root state" m = Some (YMap root) ->
         forall (x : list (string * ydata)) (xp : option name) (st : state) (i : name),
         walk_in root None x xp ->
         import_state x = Some st ->
         s_kind st = KCompound ->
         truthy (s_initial st) = Some i ->
         (forall (y : list (string * ydata)) (sy : state),
          walk_in root None y (Some (s_name st)) -> import_state y = Some sy -> s_name sy <> i) ->
         import_pipeline d = None.
Proof. exact C12_reject_initial_not_child. Qed.
Print Assumptions C12_reject_initial_not_child_thm.

(* REJECT a memory that is the history state itself, not a sibling, or unknown *)
Theorem C12_reject_memory_not_sibling_thm :
  forall (d : ydata) (m root : list (string * ydata)),
         schema_statechart d = Some (doc m) ->
         ylookup "root state" m = Some (YMap root) ->
         forall (x : list (string * ydata)) (xp : option name) (st : state) (mm : name),
         walk_in root None x xp ->
         import_state x = Some st ->
         is_history (s_kind st) = true ->
         s_memory st = Some mm ->
         mm = s_name st \/
         (forall (y : list (string * ydata)) (sy : state),
          walk_in root None y xp -> import_state y = Some sy -> s_name sy <> mm) -> 
         import_pipeline d = None.
Proof. exact C12_reject_memory_not_sibling. Qed.
Print Assumptions C12_reject_memory_not_sibling_thm.

(* (kept on purpose) initial given as the empty string is accepted: it means "no initial state" to the importer, validate() and the interpreter alike; C12_sound reads initial through truthiness as Python does *)
Theorem C12_sound_b_refuted_thm :
  exists (d : ydata) (c : chart), import_pipeline d = Some c /\ import_sound_b c = false.
Proof. exact C12_sound_b_refuted. Qed.
Print Assumptions C12_sound_b_refuted_thm.
