(* C07 -- Execution is deterministic and independent of declaration order.  ms_equiv: states equal up to the order of the configuration (a Python set) and of the remembered lists; perm_chart: same states, parents, transitions, every declaration list permuted; decl_outcome: same macro steps up to the induced renumbering of transitions, or errors of the same kind at the same step.
   Property theorems only: every statement below is the statement of a lemma proved in proofs/,
   printed by Coq and closed by `exact`. *)
From Coq Require Import List ZArith String.
From Sismic Require Import Base Chart Interp World Spec.
From SismicProofs Require Import C07Proofs.
From SismicProofs Require CorollaryProofs WFProofs.
Import ListNotations.
Open Scope string_scope.

(* HASH SEED. Whatever order the configuration set and the history memory are iterated in, execute_once returns the same macro step or the same error, the same observation trace, and states that again differ only in those orders - no hypothesis on the statechart *)
Theorem C07_hashseed_execute_once_thm :
  forall (ctx X : Type) (exec : call ctx -> ctx -> option (ctx * list event))
           (eval : call ctx -> ctx -> option bool) (emit : Z -> meta -> X -> X * option err) 
           (sc : chart) (fuel : nat) (now : Z) (s1 s2 : mstate ctx X),
         ms_equiv s1 s2 ->
         same_outcome (execute_once ctx X exec eval emit sc fuel now s1)
           (execute_once ctx X exec eval emit sc fuel now s2).
Proof. exact C07_hashseed_execute_once. Qed.
Print Assumptions C07_hashseed_execute_once_thm.

(* ... for every sequence of queue / execute_once / execute *)
Theorem C07_hashseed_ops_thm :
  forall (ctx X : Type) (exec : call ctx -> ctx -> option (ctx * list event))
           (eval : call ctx -> ctx -> option bool) (emit : Z -> meta -> X -> X * option err) 
           (sc : chart) (ops : list op) (s1 s2 : mstate ctx X),
         ms_equiv s1 s2 ->
         same_outcome (run_ops ctx X exec eval emit sc ops s1) (run_ops ctx X exec eval emit sc ops s2).
Proof. exact C07_hashseed_ops. Qed.
Print Assumptions C07_hashseed_ops_thm.

(* DECLARATION ORDER of sibling states and of the dictionaries: same results and same trace *)
Theorem C07_decl_children_thm :
  forall (ctx X : Type) (exec : call ctx -> ctx -> option (ctx * list event))
           (eval : call ctx -> ctx -> option bool) (emit : Z -> meta -> X -> X * option err) 
           (sc1 sc2 : chart),
         struct_equiv sc1 sc2 ->
         c_transitions sc2 = c_transitions sc1 ->
         forall (fuel : nat) (now : Z) (s1 s2 : mstate ctx X),
         ms_equiv s1 s2 ->
         same_outcome (execute_once ctx X exec eval emit sc1 fuel now s1)
           (execute_once ctx X exec eval emit sc2 fuel now s2).
Proof. exact C07_decl_children. Qed.
Print Assumptions C07_decl_children_thm.

(* the non-determinism / conflict check gives the SAME error whatever the order of the selected transitions within a source (which error wins when both kinds of offending pairs exist does not depend on declaration order) *)
Theorem C07_error_kind_thm :
  forall (sc1 sc2 : chart) (pi : nat -> nat),
         (forall n : name, state_for sc2 n = state_for sc1 n) ->
         (forall n : name, parent_for sc2 n = parent_for sc1 n) ->
         Datatypes.length (c_parent sc2) = Datatypes.length (c_parent sc1) ->
         (forall n : name, Permutation.Permutation (descendants_for sc1 n) (descendants_for sc2 n)) ->
         forall ts1 ts2 : list itrans, BP pi ts1 ts2 -> check_pairs sc2 ts2 = check_pairs sc1 ts1.
Proof. exact C07_error_kind. Qed.
Print Assumptions C07_error_kind_thm.

(* the same set of transitions is selected *)
Theorem C07_selected_same_set_thm :
  forall (pi : nat -> nat) (ts1 ts2 : list itrans),
         (forall i j : nat, pi i = pi j -> i = j) ->
         BP pi ts1 ts2 ->
         (forall it : itrans, In (imap pi it) ts2 <-> In it ts1) /\
         Permutation.Permutation (map snd ts1) (map snd ts2).
Proof. exact C07_selected_same_set. Qed.
Print Assumptions C07_selected_same_set_thm.

(* DECLARATION ORDER, full: for charts related by a permutation of states, children lists and transitions, and an evaluator that does not look at transition indices, execute_once yields macro steps equal up to the renumbering of transitions (same consumed event, same transition records in the same order, same exited/entered/sent lists, same context) or errors of the same kind *)
Theorem C07_decl_order_thm :
  forall (ctx X : Type) (exec : call ctx -> ctx -> option (ctx * list event))
           (eval : call ctx -> ctx -> option bool) (emit : Z -> meta -> X -> X * option err) 
           (sc1 sc2 : chart) (pi : nat -> nat),
         chart_perm sc1 sc2 pi ->
         (forall (c : call ctx) (x : ctx), exec (cmap pi c) x = exec c x) ->
         (forall (c : call ctx) (x : ctx), eval (cmap pi c) x = eval c x) ->
         (forall (t : Z) (m : meta) (x : X) (e : err), snd (emit t m x) = Some e -> emap pi e = e) ->
         forall (fuel : nat) (now : Z) (s1 s2 : mstate ctx X),
         run_equiv pi s1 s2 ->
         decl_outcome pi (execute_once ctx X exec eval emit sc1 fuel now s1)
           (execute_once ctx X exec eval emit sc2 fuel now s2).
Proof. exact C07_decl_order. Qed.
Print Assumptions C07_decl_order_thm.

(* ... for every input history *)
Theorem C07_decl_order_ops_thm :
  forall (ctx X : Type) (exec : call ctx -> ctx -> option (ctx * list event))
           (eval : call ctx -> ctx -> option bool) (emit : Z -> meta -> X -> X * option err) 
           (sc1 sc2 : chart) (pi : nat -> nat),
         chart_perm sc1 sc2 pi ->
         (forall (c : call ctx) (x : ctx), exec (cmap pi c) x = exec c x) ->
         (forall (c : call ctx) (x : ctx), eval (cmap pi c) x = eval c x) ->
         (forall (t : Z) (m : meta) (x : X) (e : err), snd (emit t m x) = Some e -> emap pi e = e) ->
         forall (ops : list op) (s1 s2 : mstate ctx X),
         run_equiv pi s1 s2 ->
         ops_outcome pi (run_ops ctx X exec eval emit sc1 ops s1) (run_ops ctx X exec eval emit sc2 ops s2).
Proof. exact C07_decl_order_ops. Qed.
Print Assumptions C07_decl_order_ops_thm.

(* the same from the concrete relation perm_chart (every declaration list a permutation) *)
Theorem C07_decl_order_perm_thm :
  forall (ctx X : Type) (exec : call ctx -> ctx -> option (ctx * list event))
           (eval : call ctx -> ctx -> option bool) (emit : Z -> meta -> X -> X * option err) 
           (sc1 sc2 : chart),
         perm_chart sc1 sc2 ->
         decl_wf sc1 ->
         desc_ok sc1 ->
         desc_ok sc2 ->
         (forall (pi : nat -> nat) (c : call ctx) (x : ctx), exec (cmap pi c) x = exec c x) ->
         (forall (pi : nat -> nat) (c : call ctx) (x : ctx), eval (cmap pi c) x = eval c x) ->
         (forall (pi : nat -> nat) (t : Z) (m : meta) (x : X) (e : err),
          snd (emit t m x) = Some e -> emap pi e = e) ->
         exists pi : nat -> nat,
           chart_perm sc1 sc2 pi /\
           (forall (fuel : nat) (now : Z) (s1 s2 : mstate ctx X),
            run_equiv pi s1 s2 ->
            decl_outcome pi (execute_once ctx X exec eval emit sc1 fuel now s1)
              (execute_once ctx X exec eval emit sc2 fuel now s2)).
Proof. exact C07_decl_order_perm. Qed.
Print Assumptions C07_decl_order_perm_thm.

(* ... with well-formedness (DESIGN.md section 2, decidable wf_chart_b) and duplicate-free dictionaries of the FIRST chart as the only chart hypotheses: the permuted chart is then well-formed too *)
Theorem C07_decl_order_perm_wf_thm :
  forall (ctx X : Type) (exec : call ctx -> ctx -> option (ctx * list event))
           (eval : call ctx -> ctx -> option bool) (emit : Z -> meta -> X -> X * option err) 
           (sc1 sc2 : chart),
         C02Proofs.wf_chart_b sc1 = true ->
         WFProofs.dict_ok sc1 ->
         perm_chart sc1 sc2 ->
         (forall (pi : nat -> nat) (c : call ctx) (x : ctx), exec (cmap pi c) x = exec c x) ->
         (forall (pi : nat -> nat) (c : call ctx) (x : ctx), eval (cmap pi c) x = eval c x) ->
         (forall (pi : nat -> nat) (t : Z) (m : meta) (x : X) (e : err),
          snd (emit t m x) = Some e -> emap pi e = e) ->
         C02Proofs.wf_chart_b sc2 = true /\
         WFProofs.dict_ok sc2 /\
         (exists pi : nat -> nat,
            chart_perm sc1 sc2 pi /\
            (forall (fuel : nat) (now : Z) (s1 s2 : mstate ctx X),
             run_equiv pi s1 s2 ->
             decl_outcome pi (execute_once ctx X exec eval emit sc1 fuel now s1)
               (execute_once ctx X exec eval emit sc2 fuel now s2))).
Proof. exact WFProofs.C07_decl_order_perm_wf. Qed.
Print Assumptions C07_decl_order_perm_wf_thm.

(* the side conditions of C07_decl_order_perm hold of every statechart built through the API or imported (sound) *)
Theorem desc_ok_of_sound_thm :
  forall c : chart,
         CorollaryProofs.E.sound c -> CorollaryProofs.E.no_empty_name c -> CorollaryProofs.C7.desc_ok c.
Proof. exact CorollaryProofs.desc_ok_of_sound. Qed.
Print Assumptions desc_ok_of_sound_thm.

(* ... *)
Theorem decl_wf_of_sound_thm :
  forall c : chart, CorollaryProofs.E.sound c -> CorollaryProofs.C7.decl_wf c.
Proof. exact CorollaryProofs.decl_wf_of_sound. Qed.
Print Assumptions decl_wf_of_sound_thm.

(* e.g. reversing every declaration list *)
Theorem perm_chart_rev_thm :
  forall sc : chart, perm_chart sc (rev_chart sc).
Proof. exact perm_chart_rev. Qed.
Print Assumptions perm_chart_rev_thm.

(* (kept on purpose) "the same error" cannot be strengthened to "attributed to the same transition": when two guards of one state both raise, the reported owner is whichever was declared first; kind and step are the same, which is all C07 asks *)
Theorem C07_guard_error_owner_refuted_thm :
  exists e1 e2 : err,
           snd (execute_once unit (list meta) c07_exec c07_eval_fail c07_emit c07_nd_chart 50 0 c07_nd_state) =
           inr e1 /\
           snd
             (execute_once unit (list meta) c07_exec c07_eval_fail c07_emit (rev_chart c07_nd_chart) 50 0
                c07_nd_state) = inr e2 /\
           (forall i : nat,
            nth_error (c_transitions (rev_chart c07_nd_chart)) (c07_nd_pi i) =
            nth_error (c_transitions c07_nd_chart) i) /\ e2 <> emap c07_nd_pi e1 /\ ERB c07_nd_pi e1 e2.
Proof. exact C07_guard_error_owner_refuted. Qed.
Print Assumptions C07_guard_error_owner_refuted_thm.
