(* C13 -- Time is frozen per step; after() and idle() mean what they say.
   Property theorems only: every statement below is the statement of a lemma proved in proofs/,
   printed by Coq and closed by `exact`. *)
From Coq Require Import List ZArith.
From Sismic Require Import Base Chart Interp World.
From SismicProofs Require Import MetaProofs WorldProofs.
Import ListNotations.

(* one execute_once, ANY outcome: the interpreter time is the sampled value now; every executed or evaluated code fragment sees time = now; step started carries now; the macro step is stamped now; every listener call gets now *)
Theorem C13_frozen_thm :
  forall (ctx X : Type) (exec_code : call ctx -> ctx -> option (ctx * list event))
           (eval_code : call ctx -> ctx -> option bool) (emit : Z -> meta -> X -> X * option err) 
           (sc : chart) (fuel : nat) (now : Z) (s s' : mstate ctx X) (r : option macrostep + err),
         execute_once ctx X exec_code eval_code emit sc fuel now s = (s', r) ->
         i_time (m_i s') = now /\
         (exists l : list (obs ctx),
            m_tr s' = l ++ m_tr s /\
            Forall (time_obs ctx now) l /\
            m_x s' = feed X emit now (tr_metas ctx l) (m_x s) /\ emits_ok ctx X emit now l (m_x s) (err_of r)) /\
         (forall (t : Z) (steps : list microstep), r = inl (Some (t, steps)) -> t = now).
Proof. exact C13_frozen. Qed.
Print Assumptions C13_frozen_thm.

(* queue() does not change the interpreter time *)
Theorem queue_time_thm :
  forall (ctx X : Type) (e : event) (s s' : mstate ctx X) (r : unit + err),
         queue ctx X e s = (s', r) -> i_time (m_i s') = i_time (m_i s).
Proof. exact queue_time. Qed.
Print Assumptions queue_time_thm.

(* ... nor does queueing any event *)
Theorem queue_event_time_thm :
  forall (ctx : Type) (i : istate ctx) (e : event), i_time (queue_event i e) = i_time i.
Proof. exact queue_event_time. Qed.
Print Assumptions queue_event_time_thm.

(* entry time = time of the latest macro step that entered the state; idle time = the later of that and the latest macro step in which the state was the source of a processed transition; nothing else changes them *)
Theorem C13_entry_idle_thm :
  forall (ctx X : Type) (exec_code : call ctx -> ctx -> option (ctx * list event))
           (eval_code : call ctx -> ctx -> option bool) (emit : Z -> meta -> X -> X * option err) 
           (sc : chart) (fuel : nat) (now : Z) (s s' : mstate ctx X) (macro : option macrostep),
         names_ok sc ->
         execute_once ctx X exec_code eval_code emit sc fuel now s = (s', inl macro) ->
         forall n : name,
         lookup n (i_entry (m_i s')) =
         (if mem n (steps_entered (macro_steps macro)) then Some now else lookup n (i_entry (m_i s))) /\
         lookup n (i_idle (m_i s')) =
         (if mem n (steps_touched sc (macro_steps macro)) then Some now else lookup n (i_idle (m_i s))).
Proof. exact C13_entry_idle. Qed.
Print Assumptions C13_entry_idle_thm.

(* guards and contracts (invariants, postconditions) see exactly those two values of the owning (source) state as bases of after() and idle(), and the frozen step time *)
Theorem C13_after_idle_base_thm :
  forall (ctx : Type) (sc : chart) (i : istate ctx) (k : ckind) (o : owner) 
           (idx : nat) (cd : option code) (ev : option event),
         k = CGuard \/ k = CInv \/ k = CPost ->
         cl_time (mk_call ctx sc i k o idx cd ev) = i_time i /\
         cl_entry (mk_call ctx sc i k o idx cd ev) =
         match owner_state sc o with
         | Some n => lookup n (i_entry i)
         | None => None
         end /\
         cl_idle (mk_call ctx sc i k o idx cd ev) =
         match owner_state sc o with
         | Some n => lookup n (i_idle i)
         | None => None
         end.
Proof. exact C13_after_idle_base. Qed.
Print Assumptions C13_after_idle_base_thm.
