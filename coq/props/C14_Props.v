(* C14 -- Clocks are monotonic and faithful.  Property theorems only. *)
From Coq Require Import QArith List Bool.
From Sismic Require Import Clock.
From SismicProofs Require Import ClockProofs.
Import ListNotations.
Open Scope Q_scope.

(* For every sequence of operations, every non-decreasing stream of wall-clock values
   (also when the wall clock advances between the two reads inside one operation) and
   non-negative speeds, successive readings never decrease. *)
Theorem C14_monotonic :
  forall w0 ops ws c' rs ws',
    wall_ok w0 ws -> Forall op_ok ops ->
    clock_run (clock_init w0) ops ws = (c', rs, ws') ->
    forallb (fun r => negb (starved r)) rs = true ->
    nondecr_from 0 (readings rs).
Proof. intros; eapply run_monotonic; eauto using init_inv. Qed.
Print Assumptions C14_monotonic.

(* Assigning a value below the current reading raises ValueError and changes nothing;
   an accepted assignment takes effect exactly. *)
Theorem C14_set :
  forall c v w1 w2 ws,
    let '(c', r, ws') := clock_step c (OpSetTime v) (w1 :: w2 :: ws) in
    (v < reading c w1 -> r = RValueError /\ c' = c) /\
    (reading c w1 <= v -> r = RUnit /\ reading c' (c_base c') == v /\
                          c_play c' = c_play c /\ c_speed c' = c_speed c).
Proof. exact set_time_decides. Qed.
Print Assumptions C14_set.

(* While stopped a read returns the same value whatever the wall clock shows. *)
Theorem C14_stopped :
  forall c ws, c_play c = false -> clock_step c OpTime ws = (c, RVal (c_time c + 0), ws).
Proof. exact stopped_reads_constant. Qed.
Print Assumptions C14_stopped.

(* While started the reading advances by speed x elapsed wall time. *)
Theorem C14_running :
  forall c w1 w2, c_play c = true -> reading c w2 - reading c w1 == c_speed c * (w2 - w1).
Proof. exact running_advances. Qed.
Print Assumptions C14_running.

Theorem C14_time_is_reading :
  forall c w ws, c_play c = true -> clock_step c OpTime (w :: ws) = (c, RVal (reading c w), ws).
Proof. exact time_op_is_reading. Qed.
Print Assumptions C14_time_is_reading.

(* Across a speed change: old speed up to the first read of the setter, new speed from the
   second read on (exactly speed x elapsed when the two reads coincide). *)
Theorem C14_speed_change :
  forall c v wa wb w0 w3 ws, c_play c = true ->
    let '(c', _, _) := clock_step c (OpSetSpeed v) (wa :: wb :: ws) in
    reading c' w3 - reading c w0 == c_speed c * (wa - w0) + v * (w3 - wb).
Proof. exact speed_change_advances. Qed.
Print Assumptions C14_speed_change.

Theorem C14_stop_continuous :
  forall c w ws, c_play c = true ->
    let '(c', _, _) := clock_step c OpStop (w :: ws) in
    c_play c' = false /\ c_time c' == reading c w.
Proof. exact stop_keeps_reading. Qed.
Print Assumptions C14_stop_continuous.

Theorem C14_start_continuous :
  forall c w ws, c_play c = false ->
    let '(c', _, _) := clock_step c OpStart (w :: ws) in
    c_play c' = true /\ reading c' w == c_time c /\ c_speed c' = c_speed c.
Proof. exact start_keeps_reading. Qed.
Print Assumptions C14_start_continuous.

(* Non-vacuity: a concrete run meeting the hypotheses, with a speed change and a rejected
   assignment, evaluated by the kernel. *)
Example C14_nonvacuous :
  let ops := [OpStart; OpTime; OpSetSpeed 2; OpTime; OpSetTime (1#2); OpStop; OpTime] in
  let ws := [1; 2; 3; 3; 4; 5; 6; 9] in
  wall_ok 0 ws /\ Forall op_ok ops /\
  readings (snd (fst (clock_run (clock_init 0) ops ws))) = [1; 4; 8].
Proof.
  cbn. repeat split; repeat constructor; try (cbv; discriminate).
Qed.

(* ---- SynchronizedClock (sismic/clock/clock.py: `time` returns `self._interpreter.time`): its reading is the followed
   interpreter's _time.  It equals the value sampled by the latest execute_once -- whatever the outcome of that call --, is
   that value at every moment of the call after the sampling (the listeners are called with it: C13_frozen), and no other
   operation changes it. *)
From Coq Require Import ZArith.
From Sismic Require Import Base Chart Interp.
From SismicProofs Require MetaProofs.
Close Scope Q_scope.

Definition sync_time {ctx : Type} (i : istate ctx) : Z := i_time i.

Theorem C14_sync :
  forall (ctx X : Type) (exec_code : call ctx -> ctx -> option (ctx * list event))
         (eval_code : call ctx -> ctx -> option bool) (emit : Z -> meta -> X -> X * option err)
         (sc : chart) (fuel : nat) (now : Z) (s s' : mstate ctx X) (r : option macrostep + err),
    execute_once ctx X exec_code eval_code emit sc fuel now s = (s', r) ->
    sync_time (m_i s') = now.
Proof.
  intros ctx X exec_code eval_code emit sc fuel now s s' r H.
  exact (proj1 (MetaProofs.C13_frozen ctx X exec_code eval_code emit sc fuel now s s' r H)).
Qed.
Print Assumptions C14_sync.

Theorem C14_sync_queue :
  forall (ctx X : Type) (e : event) (s s' : mstate ctx X) (r : unit + err),
    queue ctx X e s = (s', r) -> sync_time (m_i s') = sync_time (m_i s).
Proof. intros ctx X e s s' r H. exact (MetaProofs.queue_time ctx X e s s' r H). Qed.
Print Assumptions C14_sync_queue.
