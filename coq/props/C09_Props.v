(* C09 -- Contract checking is transparent.
   Property theorems only: every statement below is the statement of a lemma proved in proofs/,
   printed by Coq and closed by `exact`. *)
From Coq Require Import List ZArith.
From Sismic Require Import Base Chart Interp World Spec.
From SismicProofs Require Import FrameLib C09Proofs.
Import ListNotations.

(* IGNORE SILENT. With ignore_contract=True no contract condition is evaluated and no ContractError is produced by any part of execute_once / execute (provided listeners do not fabricate one) *)
Theorem C09_ignore_silent_thm :
  forall (ctx X : Type) (exec_code : call ctx -> ctx -> option (ctx * list event))
           (eval_code : call ctx -> ctx -> option bool) (emit : Z -> meta -> X -> X * option err) 
           (sc : chart),
         (forall (t : Z) (m : meta) (x x' : X) (k : ckind) (o : owner) (i : nat),
          emit t m x <> (x', Some (EContract k o i))) ->
         (forall step : microstep, silent ctx X (apply_step ctx X exec_code eval_code emit sc step)) /\
         (forall fuel : nat, silent ctx X (stabilize ctx X exec_code eval_code emit sc fuel)) /\
         (forall (fuel : nat) (steps : list microstep),
          silent ctx X (run_steps ctx X exec_code eval_code emit sc fuel steps)) /\
         (forall ev : option event, silent ctx X (check_invariants ctx X eval_code sc ev)) /\
         (forall (fuel : nat) (now : Z), silent ctx X (execute_once ctx X exec_code eval_code emit sc fuel now)) /\
         (forall (fuel : nat) (now : Z), silent ctx X (execute ctx X exec_code eval_code emit sc fuel now)).
Proof. exact C09_ignore_silent. Qed.
Print Assumptions C09_ignore_silent_thm.

(* nothing ever changes the ignore_contract flag *)
Theorem C09_flag_constant_thm :
  forall (ctx X : Type) (exec_code : call ctx -> ctx -> option (ctx * list event))
           (eval_code : call ctx -> ctx -> option bool) (emit : Z -> meta -> X -> X * option err) 
           (sc : chart),
         (forall step : microstep, flag_constant ctx X (apply_step ctx X exec_code eval_code emit sc step)) /\
         (forall fuel : nat, flag_constant ctx X (stabilize ctx X exec_code eval_code emit sc fuel)) /\
         (forall (fuel : nat) (steps : list microstep),
          flag_constant ctx X (run_steps ctx X exec_code eval_code emit sc fuel steps)) /\
         (forall ev : option event, flag_constant ctx X (check_invariants ctx X eval_code sc ev)) /\
         flag_constant ctx X (compute_steps ctx X eval_code sc) /\
         (forall (fuel : nat) (now : Z),
          flag_constant ctx X (execute_once ctx X exec_code eval_code emit sc fuel now)) /\
         (forall (fuel : nat) (now : Z),
          flag_constant ctx X (execute ctx X exec_code eval_code emit sc fuel now)) /\
         (forall e : event, flag_constant ctx X (queue ctx X e)).
Proof. exact C09_flag_constant. Qed.
Print Assumptions C09_flag_constant_thm.

(* TRANSPARENT, one step. From states equal up to the flag and the __old__ store (sim), if the checking run meets no failing or erring condition (res_ok), the ignoring run returns the SAME result, ends in a sim-related state with the same listener state, and its trace is the checking trace with the contract evaluations removed - in particular the same meta-events *)
Theorem C09_transparent_thm :
  forall (ctx X : Type) (exec_code : call ctx -> ctx -> option (ctx * list event))
           (eval_code : call ctx -> ctx -> option bool) (emit : Z -> meta -> X -> X * option err) 
           (sc : chart) (fuel : nat) (now : Z) (ia ib : istate ctx) (x : X) (tr_a tr_b : list (obs ctx))
           (sa' : mstate ctx X) (ra : option macrostep + err),
         sim ctx ia ib ->
         execute_once ctx X exec_code eval_code emit sc fuel now {| m_i := ia; m_x := x; m_tr := tr_a |} =
         (sa', ra) ->
         res_ok ra ->
         exists (sb' : mstate ctx X) (l : list (obs ctx)),
           execute_once ctx X exec_code eval_code emit sc fuel now {| m_i := ib; m_x := x; m_tr := tr_b |} =
           (sb', ra) /\
           sim ctx (m_i sa') (m_i sb') /\
           m_x sa' = m_x sb' /\
           m_tr sa' = l ++ tr_a /\
           m_tr sb' = filter non_contract l ++ tr_b /\
           contracts_all_true l = true /\ filter is_meta_obs (filter non_contract l) = filter is_meta_obs l.
Proof. exact C09_transparent. Qed.
Print Assumptions C09_transparent_thm.

(* the same with the premise stated on the trace (every contract evaluation of the checking run yielded true) *)
Theorem C09_transparent_trace_thm :
  forall (ctx X : Type) (exec_code : call ctx -> ctx -> option (ctx * list event))
           (eval_code : call ctx -> ctx -> option bool) (emit : Z -> meta -> X -> X * option err) 
           (sc : chart),
         (forall (t : Z) (m : meta) (x x' : X) (e : err), emit t m x = (x', Some e) -> contract_err e = false) ->
         forall (fuel : nat) (now : Z) (ia ib : istate ctx) (x : X) (tr_a tr_b : list (obs ctx))
           (sa' : mstate ctx X) (ra : option macrostep + err) (l : list (obs ctx)),
         sim ctx ia ib ->
         execute_once ctx X exec_code eval_code emit sc fuel now {| m_i := ia; m_x := x; m_tr := tr_a |} =
         (sa', ra) ->
         m_tr sa' = l ++ tr_a ->
         contracts_all_true l = true ->
         exists sb' : mstate ctx X,
           execute_once ctx X exec_code eval_code emit sc fuel now {| m_i := ib; m_x := x; m_tr := tr_b |} =
           (sb', ra) /\
           sim ctx (m_i sa') (m_i sb') /\
           m_x sa' = m_x sb' /\
           m_tr sb' = filter non_contract l ++ tr_b /\
           filter is_meta_obs (filter non_contract l) = filter is_meta_obs l.
Proof. exact C09_transparent_trace. Qed.
Print Assumptions C09_transparent_trace_thm.

(* the two forms of the premise coincide *)
Theorem C09_all_true_iff_res_ok_thm :
  forall (ctx X : Type) (exec_code : call ctx -> ctx -> option (ctx * list event))
           (eval_code : call ctx -> ctx -> option bool) (emit : Z -> meta -> X -> X * option err) 
           (sc : chart),
         (forall (t : Z) (m : meta) (x x' : X) (e : err), emit t m x = (x', Some e) -> contract_err e = false) ->
         forall (fuel : nat) (now : Z) (s s' : mstate ctx X) (r : option macrostep + err) (l : list (obs ctx)),
         execute_once ctx X exec_code eval_code emit sc fuel now s = (s', r) ->
         m_tr s' = l ++ m_tr s -> i_ignore_contract (m_i s) = false -> contracts_all_true l = true <-> res_ok r.
Proof. exact C09_all_true_iff_res_ok. Qed.
Print Assumptions C09_all_true_iff_res_ok_thm.

(* TRANSPARENT, whole runs: any sequence of queue / execute_once operations *)
Theorem C09_run_thm :
  forall (ctx X : Type) (exec_code : call ctx -> ctx -> option (ctx * list event))
           (eval_code : call ctx -> ctx -> option bool) (emit : Z -> meta -> X -> X * option err) 
           (sc : chart) (ops : list op) (ia ib : istate ctx) (x : X) (tr_a tr_b : list (obs ctx))
           (sa' : mstate ctx X) (rs : list (option macrostep + err)),
         sim ctx ia ib ->
         run_ops ctx X exec_code eval_code emit sc ops {| m_i := ia; m_x := x; m_tr := tr_a |} = (sa', rs) ->
         Forall res_ok rs ->
         exists (sb' : mstate ctx X) (l : list (obs ctx)),
           run_ops ctx X exec_code eval_code emit sc ops {| m_i := ib; m_x := x; m_tr := tr_b |} = (sb', rs) /\
           sim ctx (m_i sa') (m_i sb') /\
           m_x sa' = m_x sb' /\
           m_tr sa' = l ++ tr_a /\
           m_tr sb' = filter non_contract l ++ tr_b /\
           contracts_all_true l = true /\ filter is_meta_obs (filter non_contract l) = filter is_meta_obs l.
Proof. exact C09_run. Qed.
Print Assumptions C09_run_thm.

(* ... with the premise on the trace *)
Theorem C09_run_trace_thm :
  forall (ctx X : Type) (exec_code : call ctx -> ctx -> option (ctx * list event))
           (eval_code : call ctx -> ctx -> option bool) (emit : Z -> meta -> X -> X * option err) 
           (sc : chart),
         (forall (t : Z) (m : meta) (x x' : X) (e : err), emit t m x = (x', Some e) -> contract_err e = false) ->
         forall (ops : list op) (ia ib : istate ctx) (x : X) (tr_a tr_b : list (obs ctx)) 
           (sa' : mstate ctx X) (rs : list (option macrostep + err)) (l : list (obs ctx)),
         sim ctx ia ib ->
         run_ops ctx X exec_code eval_code emit sc ops {| m_i := ia; m_x := x; m_tr := tr_a |} = (sa', rs) ->
         m_tr sa' = l ++ tr_a ->
         contracts_all_true l = true ->
         exists sb' : mstate ctx X,
           run_ops ctx X exec_code eval_code emit sc ops {| m_i := ib; m_x := x; m_tr := tr_b |} = (sb', rs) /\
           sim ctx (m_i sa') (m_i sb') /\
           m_x sa' = m_x sb' /\
           m_tr sb' = filter non_contract l ++ tr_b /\
           filter is_meta_obs (filter non_contract l) = filter is_meta_obs l.
Proof. exact C09_run_trace. Qed.
Print Assumptions C09_run_trace_thm.

(* with ignore_contract=True the __old__ store is never read: runs from states that differ only there are equal *)
Theorem C09_old_irrelevant_execute_thm :
  forall (ctx X : Type) (exec_code : call ctx -> ctx -> option (ctx * list event))
           (eval_code : call ctx -> ctx -> option bool) (emit : Z -> meta -> X -> X * option err) 
           (sc : chart) (fuel : nat) (now : Z),
         old_irrelevant ctx X (execute ctx X exec_code eval_code emit sc fuel now).
Proof. exact C09_old_irrelevant_execute. Qed.
Print Assumptions C09_old_irrelevant_execute_thm.
