(* C20 -- Async runner (two-thread LTS of theories/Runner.v; every theorem quantifies over ALL schedules and client scripts).
   Property theorems only: every statement below is the statement of a lemma proved in proofs/,
   printed by Coq and closed by `exact`. *)
From Coq Require Import List ZArith Bool.
From Sismic Require Import Runner.
From SismicProofs Require Import RunnerProofs.
Import ListNotations.

(* handed lists ++ steps of the cycle under way = macro steps executed on the runner thread (order, each once); <= 1 per list without execute_all; all handed once the thread has ended *)
Theorem C20_report_thm :
  forall (cf : config) (sched : list tid) (s : state) (tr : list titem),
         run_schedule cf sched = (s, tr) ->
         executed tr = handed tr ++ in_flight s /\
         (cf_all cf = false -> Forall (fun l : list mstep => length l <= 1) (reports tr)) /\
         (s_rpc s = PDone -> executed tr = handed tr).
Proof. exact C20_report. Qed.
Print Assumptions C20_report_thm.

(* before_run / after_run at most once, first and last actions of the runner thread; exactly once each if the thread ends *)
Theorem C20_hooks_thm :
  forall (cf : config) (sched : list tid) (s : state) (tr : list titem),
         run_schedule cf sched = (s, tr) ->
         count_ract is_before_run tr <= 1 /\
         count_ract is_after_run tr <= 1 /\
         (forall (a : ract) (rest : list ract), ractions tr = a :: rest -> a = ABeforeRun) /\
         (forall pre post : list ract, ractions tr = pre ++ AAfterRun :: post -> post = [] /\ s_rpc s = PDone) /\
         (s_rpc s = PDone -> count_ract is_before_run tr = 1 /\ count_ract is_after_run tr = 1).
Proof. exact C20_hooks. Qed.
Print Assumptions C20_hooks_thm.

(* after pause() has returned, at most one cycle begins until the next unpause()/stop()/start() sets the flag *)
Theorem C20_pause_thm :
  forall (cf : config) (sched1 : list tid) (s1 : state) (tr0 : list titem) (sched2 : list tid)
           (s2 : state) (mid : list titem),
         run_schedule cf sched1 = (s1, tr0 ++ [TRet 0 CPause OK]) ->
         run_from cf s1 sched2 = (s2, mid) -> no_unp_set mid -> count_ract is_before_exec mid <= 1.
Proof. exact C20_pause. Qed.
Print Assumptions C20_pause_thm.

(* at any reachable point where _stop is set, under every continuation the runner thread performs at most mu further actions of its own; mu <= 10 without execute_all, <= 13 + 3 * (queue length + 2 * insertions still to come + 1) with it *)
Theorem C20_stop_thm :
  forall (cf : config) (sched1 : list tid) (s : state) (tr : list titem) (sched2 : list tid)
           (s' : state) (l : list titem),
         run_schedule cf sched1 = (s, tr) ->
         s_stop s = true ->
         run_from cf s sched2 = (s', l) ->
         length (ractions l) <= mu cf s /\ mu cf s <= 13 + 3 * phi cf s /\ (cf_all cf = false -> mu cf s <= 10).
Proof. exact C20_stop. Qed.
Print Assumptions C20_stop_thm.

(* the same from any state satisfying the thread-bookkeeping invariant, with the remaining budget *)
Theorem C20_stop_bound_thm :
  forall (cf : config) (sched : list tid) (s s' : state) (l : list titem),
         base_inv s ->
         s_stop s = true -> run_from cf s sched = (s', l) -> length (ractions l) + mu cf s' <= mu cf s.
Proof. exact C20_stop_bound. Qed.
Print Assumptions C20_stop_bound_thm.

(* inside stop() with both flags set, every continuation with >= mu runner turns and then one client turn makes stop() return (so: under every fair schedule) *)
Theorem C20_stop_returns_thm :
  forall (cf : config) (sched0 : list tid) (s : state) (tr : list titem) (a b : list tid) 
           (s' : state) (l : list titem),
         run_schedule cf sched0 = (s, tr) ->
         in_stop2 (s_cpc s) = true ->
         mu cf s <= run_turns a -> In (TCli 0) b -> run_from cf s (a ++ b) = (s', l) -> In (TRet 0 CStop OK) l.
Proof. exact C20_stop_returns. Qed.
Print Assumptions C20_stop_returns_thm.

(* after stop() has returned the runner thread never acts again (it is not alive and _stop is set), whatever is called afterwards *)
Theorem C20_stop_quiet_thm :
  forall (cf : config) (sched1 : list tid) (s1 : state) (tr0 : list titem) (sched2 : list tid)
           (s2 : state) (l : list titem),
         run_schedule cf sched1 = (s1, tr0 ++ [TRet 0 CStop OK]) ->
         run_from cf s1 sched2 = (s2, l) -> ractions l = [] /\ s_alive s1 = false /\ s_stop s1 = true.
Proof. exact C20_stop_quiet. Qed.
Print Assumptions C20_stop_quiet_thm.

(* after the loop test read final = true the only further runner actions are _stop.set() and after_run; _stop is then set *)
Theorem C20_final_thm :
  forall (cf : config) (sched1 : list tid) (s1 : state) (tr0 : list titem) (sched2 : list tid)
           (s2 : state) (l : list titem),
         run_schedule cf sched1 = (s1, tr0 ++ [TR (ATestFinal true)]) ->
         run_from cf s1 sched2 = (s2, l) ->
         (ractions l = [] \/ ractions l = [AStopSet] \/ ractions l = [AStopSet; AAfterRun]) /\
         (ractions l <> [] -> s_stop s2 = true).
Proof. exact C20_final. Qed.
Print Assumptions C20_final_thm.

(* interpreter.final is true exactly when an executed macro step made the chart final *)
Theorem C20_final_meaning_thm :
  forall (cf : config) (sched : list tid) (s : state) (tr : list titem),
         run_schedule cf sched = (s, tr) -> s_fin s = final_of cf (executed tr).
Proof. exact C20_final_meaning. Qed.
Print Assumptions C20_final_meaning_thm.

(* the value the loop test reads is that one *)
Theorem C20_final_test_thm :
  forall (cf : config) (sched : list tid) (s : state) (tr0 : list titem) (b : bool),
         run_schedule cf sched = (s, tr0 ++ [TR (ATestFinal b)]) -> b = final_of cf (executed tr0).
Proof. exact C20_final_test. Qed.
Print Assumptions C20_final_test_thm.

(* zero-delay events, one client: inserted = consumed ++ queue (FIFO, at most once, nothing lost); processed = consumed; inserted is a prefix of the script order; execute_once finds nothing only when everything inserted was consumed *)
Theorem C20_events_thm :
  forall (cf : config) (sched : list tid) (s : state) (tr : list titem),
         zero_delay_script (cf_script cf) ->
         run_schedule cf sched = (s, tr) ->
         ins_events (cf_atomic cf) tr = popped_events tr ++ map snd (s_queue s) /\
         pops_ok tr /\
         (exists rest : list ev, queued_events (cf_script cf) = ins_events (cf_atomic cf) tr ++ rest) /\
         (forall tr0 : list titem,
          tr = tr0 ++ [TR (AExPeek PkNone)] -> ins_events (cf_atomic cf) tr0 = popped_events tr0).
Proof. exact C20_events. Qed.
Print Assumptions C20_events_thm.

(* delayed events, code as it is: witness schedule after which execute_once finds nothing although an inserted, unconsumed event is due (stale bisect index; known finding C20-stale-bisect-index) *)
Theorem C20_events_refuted_thm :
  exists (s : state) (tr0 : list titem),
           run_schedule (w_cf false) w_sched = (s, tr0 ++ [TR (AExPeek PkNone)]) /\
           (exists (k : Z) (e : ev),
              In (k, e) (s_queue s) /\
              (k <= s_itime s)%Z /\ In e (ins_events false tr0) /\ ~ In e (popped_events tr0)).
Proof. exact C20_events_refuted. Qed.
Print Assumptions C20_events_refuted_thm.

(* second manifestation: the step computed for the peeked event consumes another event *)
Theorem C20_events_refuted_pop_thm :
  ~
         pops_ok
           (snd
              (run_schedule
                 {| cf_chart := ChPlain; cf_all := false; cf_atomic := false; cf_script := w2_script |}
                 w2_sched)).
Proof. exact C20_events_refuted_pop. Qed.
Print Assumptions C20_events_refuted_pop_thm.
