(* C20 -- Async runner.  Property theorems only: every statement below is the statement of a lemma proved
   in proofs/RunnerProofs.v, printed by Coq and closed by `exact`. *)
From Coq Require Import List ZArith.
From Sismic Require Import Runner.
Import ListNotations.
