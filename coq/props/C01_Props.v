(* C01 -- Transition selection follows the documented step semantics.
   Property theorems only; proofs are in proofs/C01Proofs.v (and proofs/SortLib.v).

   Vocabulary (defined in C01Proofs.v, all relative to the interpreter state i, the pending
   event ev and the configuration cfg, for a transition `it` of the chart):
     guard_val i it exposed  the truth value of the guard of `it` when it is shown `exposed`
                             (a pure function of the state: evaluating a guard changes nothing)
     enabled0 it   source active, no event, guard holds when shown NO event
     enabled1 it   source active, named event = name of ev, guard holds when shown ev
     comp it       eventless ones pre-empt: enabled0 if some eventless transition is enabled,
                   otherwise enabled1
     inner it' it  the source of it' is a strict descendant of the source of it
     fires it      comp it, no competing transition on a descendant of its source (inner-first),
                   none from the same source with a strictly higher priority *)
From Coq Require Import List ZArith Permutation.
From Sismic Require Import Base Chart Interp.
From SismicProofs Require Import C01Proofs.
Import ListNotations.

(* for EVERY configuration (reachable or not), pending event and guard valuation: the
   transitions selected are exactly those that fire; selection changes nothing *)
Theorem C01_selection :
  forall (ctx X : Type) (eval_code : call ctx -> ctx -> option bool) (sc : chart),
    (forall a b, In b (ancestors_for sc a) -> (depth_for sc b < depth_for sc a)%Z) ->
    forall ev cfg (s s' : mstate ctx X) sel,
      select_transitions ctx X eval_code sc ev cfg s = (s', inl sel) ->
      (forall it, In it sel <-> fires ctx eval_code sc (m_i s) ev cfg it) /\
      NoDup sel /\ m_i s' = m_i s /\ m_x s' = m_x s.
Proof. exact C01_selection. Qed.
Print Assumptions C01_selection.

(* the tree hypothesis is decidable; the checker is sound *)
Theorem C01_selection_checked :
  forall (ctx X : Type) (eval_code : call ctx -> ctx -> option bool) (sc : chart),
    anc_depth_okb sc = true ->
    forall ev cfg (s s' : mstate ctx X) sel,
      select_transitions ctx X eval_code sc ev cfg s = (s', inl sel) ->
      (forall it, In it sel <-> fires ctx eval_code sc (m_i s) ev cfg it) /\
      NoDup sel /\ m_i s' = m_i s /\ m_x s' = m_x s.
Proof. exact C01_selection_checked. Qed.
Print Assumptions C01_selection_checked.

(* guards of eventless transitions never see the pending event, guards of event-triggered
   ones see exactly the pending event; only guards of transitions with an active source are
   evaluated; nothing else is evaluated during selection *)
Theorem C01_guard_view :
  forall (ctx X : Type) (eval_code : call ctx -> ctx -> option bool) (sc : chart),
    (forall a b, In b (ancestors_for sc a) -> (depth_for sc b < depth_for sc a)%Z) ->
    forall ev cfg (s s' : mstate ctx X) sel,
      select_transitions ctx X eval_code sc ev cfg s = (s', inl sel) ->
      exists new, m_tr s' = new ++ m_tr s /\
        Forall (fun o => exists c r i t,
                   o = ObEval c r /\ cl_kind c = CGuard /\ cl_owner c = OTrans i /\
                   In (i, t) (itransitions sc) /\ mem (t_source t) cfg = true /\
                   (t_event t = None -> cl_event c = None) /\
                   (t_event t <> None -> cl_event c = ev)) new.
Proof.
  intros ctx X ev_ sc Hanc ev cfg s s' sel H.
  destruct (C01_guard_view ctx X ev_ sc Hanc ev cfg s s' sel H) as (new & Htr & Hall).
  exists new; split; [exact Htr|].
  eapply Forall_impl; [|exact Hall].
  intros o (c & r & i & t & H1 & H2 & H3 & H4 & H5 & H6 & H7 & _).
  exists c, r, i, t. repeat split; assumption.
Qed.
Print Assumptions C01_guard_view.

(* event consumption: when an eventless transition is enabled the steps carry no event (nothing
   will be consumed); otherwise every computed step carries the pending event; when nothing
   fires and an event is pending, a transition-less step carries it (so that it is consumed) *)
Theorem C01_consumption :
  forall (ctx X : Type) (eval_code : call ctx -> ctx -> option bool) (sc : chart),
    (forall a b, In b (ancestors_for sc a) -> (depth_for sc b < depth_for sc a)%Z) ->
    forall (s s' : mstate ctx X) steps,
      i_initialized (m_i s) = true ->
      compute_steps ctx X eval_code sc s = (s', inl steps) ->
      let i := m_i s in let ev := select_event i in let cfg := i_config i in
      exists sel ts',
        (forall it, In it sel <-> fires ctx eval_code sc i ev cfg it) /\ Permutation ts' sel /\
        (sel = [] -> steps = match ev with None => [] | Some e => [mkMicro (Some e) None [] [] []] end) /\
        (sel <> [] -> map ms_trans steps = map (fun it => Some (fst it)) ts') /\
        (some_eventless ctx eval_code sc i cfg -> forall st0, In st0 steps -> ms_event st0 = None) /\
        (~ some_eventless ctx eval_code sc i cfg -> forall st0, In st0 steps -> ms_event st0 = ev) /\
        m_i s' = m_i s /\ m_x s' = m_x s.
Proof.
  intros ctx X ev_ sc Hanc s s' steps Hi H.
  destruct (C01_consumption ctx X ev_ sc Hanc s s' steps Hi H)
    as (sel & ts' & H1 & H2 & H3 & H4 & H5 & H6 & H7 & H8).
  exists sel, ts'.
  split; [exact H1|]. split; [exact H2|]. split; [exact H3|].
  split; [intros Hne; exact (proj1 (H4 Hne))|].
  split; [exact H5|]. split; [exact H6|]. split; assumption.
Qed.
Print Assumptions C01_consumption.

(* non-vacuity: a concrete chart satisfies the tree hypothesis and the selection picks the
   inner transition / the eventless transition (evaluated by the kernel) *)
Example C01_nonvacuous : anc_depth_okb c01_example_chart = true.
Proof. exact c01_example_ok. Qed.
