(* Corr.v -- evaluation of interpreter correspondence cases.

   The harness records, for ONE operation of the real interpreter: the complete state before,
   the operation, every evaluator call with what the code saw and what it returned (the oracle
   table), the outcome, the complete state after and what every listener received.  Here the
   model is run by vm_compute from the recorded pre-state, with code semantics given by the
   oracle table, and compared component by component; the result is a bit mask. *)
From Sismic Require Import Base Chart Interp World Spec.
Open Scope list_scope.

(* ---- oracle evaluator: the context is the recorded value of evaluator._context ---- *)
Definition cval := list (name * value).
Definition cval_eqb : cval -> cval -> bool := data_eqb.

Definition oz_eqb := opt_eqb Z.eqb.

Definition call_eqb (a b : call cval) : bool :=
  Nat.eqb (cl_interp a) (cl_interp b) && ckind_eqb (cl_kind a) (cl_kind b)
  && owner_eqb (cl_owner a) (cl_owner b) && Nat.eqb (cl_idx a) (cl_idx b)
  && ostr_eqb (cl_code a) (cl_code b) && oevent_eqb (cl_event a) (cl_event b)
  && Z.eqb (cl_time a) (cl_time b) && strs_eqb (cl_config a) (cl_config b)
  && oz_eqb (cl_entry a) (cl_entry b) && oz_eqb (cl_idle a) (cl_idle b)
  && strs_eqb (cl_sent a) (cl_sent b) && opt_eqb cval_eqb (cl_old a) (cl_old b).

Inductive ores :=
| REval (r : option bool)
| RExec (r : option (cval * list event)).

Definition table := list (call cval * cval * ores).

Fixpoint tlookup (c : call cval) (x : cval) (t : table) : option ores :=
  match t with
  | [] => None
  | (c', x', r) :: t' => if call_eqb c c' && cval_eqb x x' then Some r else tlookup c x t'
  end.

Definition o_exec (t : table) (c : call cval) (x : cval) : option (cval * list event) :=
  match tlookup c x t with Some (RExec r) => r | _ => None end.
Definition o_eval (t : table) (c : call cval) (x : cval) : option bool :=
  match tlookup c x t with Some (REval r) => r | _ => None end.

(* ---- cases ---- *)
Inductive iop := OpExecOnce (now : Z) | OpQueue (e : event).
Inductive outcome := OutMacro (m : option macrostep) | OutErr (e : err) | OutNone.

Record icase := mkICase {
  ic_chart : chart;
  ic_pre : istate cval;
  ic_world : world cval;
  ic_op : iop;
  ic_table : table;
  ic_out : outcome;                 (* implementation *)
  ic_post : istate cval;            (* implementation *)
  ic_world_post : world cval;       (* implementation: logs, calls, bound, props *)
  ic_selected : option (list nat);  (* implementation: result of _select_transitions when observable *)
  ic_seq : option (list (option meta))
      (* implementation: the monitored interpreter's evaluator calls (None) interleaved with the meta-events (Some m)
         in the global order in which they happened, as seen by the first listener when that is a recorder *)
}.

(* the implementation's evaluator calls, oldest first, are the table entries in order *)
Definition entry_obs (e : call cval * cval * ores) : obs cval :=
  match e with
  | (c, _, REval r) => ObEval c r
  | (c, _, RExec r) => ObExec c (option_map snd r)
  end.
Definition entry_interp (e : call cval * cval * ores) : nat := cl_interp (fst (fst e)).
Definition ic_trace (c : icase) : list (obs cval) :=
  map entry_obs (filter (fun e => Nat.eqb (entry_interp e) 0) (ic_table c)).
Definition ic_ptrace (c : icase) : list (obs cval) :=
  map entry_obs (filter (fun e => negb (Nat.eqb (entry_interp e) 0)) (ic_table c)).

(* ---- canonical forms ---- *)
Definition by_key {V} (l : list (name * V)) : list (name * V) :=
  sort (fun a b => str_leb (fst a) (fst b)) l.

Definition canon_memory (m : list (name * list name)) : list (name * list name) :=
  by_key (map (fun kv => (fst kv, sort_names (snd kv))) m).

Definition qentry_eqb (a b : Z * event) : bool := Z.eqb (fst a) (fst b) && event_eqb (snd a) (snd b).
Definition queue_eqb := list_eqb qentry_eqb.

Definition zdict_eqb (a b : list (name * Z)) : bool :=
  list_eqb (pair_eqb str_eqb Z.eqb) (by_key a) (by_key b).

Fixpoint old_sub (a b : list (owner * cval)) : bool :=
  match a with
  | [] => true
  | (o, c) :: a' =>
      (match old_lookup o b with Some c' => cval_eqb c c' | None => false end) && old_sub a' b
  end.
Definition old_eqb (a b : list (owner * cval)) : bool := old_sub a b && old_sub b a.

Definition obs_eqb (a b : obs cval) : bool :=
  match a, b with
  | ObExec c r, ObExec c' r' => call_eqb c c' && opt_eqb (list_eqb event_eqb) r r'
  | ObEval c r, ObEval c' r' => call_eqb c c' && opt_eqb Bool.eqb r r'
  | ObMeta m, ObMeta m' => meta_eqb m m'
  | ObSelected a, ObSelected b => list_eqb Nat.eqb a b
  | _, _ => false
  end.

Definition is_call (o : obs cval) : bool := match o with ObExec _ _ | ObEval _ _ => true | _ => false end.

Definition kind_code (k : ckind) : N :=
  match k with CEntry => 1 | CExit => 2 | CAction => 3 | CGuard => 4 | CPre => 5 | CInv => 6 | CPost => 7 end%N.
Definition obs_kind (o : obs cval) : N :=
  match o with ObExec c _ | ObEval c _ => kind_code (cl_kind c) | _ => 0%N end.

(* kind of the call at the first position where two traces differ (0 = equal) *)
Fixpoint first_diff (model impl : list (obs cval)) : N :=
  match model, impl with
  | [], [] => 0%N
  | m :: _, [] => (16 * obs_kind m)%N
  | [], i :: _ => obs_kind i
  | m :: ms, i :: is_ => if obs_eqb m i then first_diff ms is_ else (obs_kind i + 16 * obs_kind m)%N
  end.

(* the last ObSelected of the model's trace (newest first) *)
Fixpoint model_selected (tr : list (obs cval)) : option (list nat) :=
  match tr with
  | [] => None
  | ObSelected l :: _ => Some l
  | _ :: r => model_selected r
  end.

Definition outcome_code (o : outcome) : N :=
  match o with
  | OutNone => 0 | OutMacro None => 1 | OutMacro (Some _) => 2
  | OutErr ENonDeterminism => 3 | OutErr EConflict => 4 | OutErr (EContract _ _ _) => 5
  | OutErr (ECode _ _ _) => 6 | OutErr (EProperty _) => 7 | OutErr EStatechart => 8
  | OutErr EKey => 9 | OutErr EAssert => 10 | OutErr EFuel => 11
  end%N.

Definition macro_eqb (a b : macrostep) : bool :=
  Z.eqb (fst a) (fst b) && list_eqb micro_eqb (snd a) (snd b).

Fixpoint trans_of (steps : list microstep) : list nat :=
  match steps with
  | [] => []
  | s :: r => match ms_trans s with Some i => i :: trans_of r | None => trans_of r end
  end.
Definition sort_nat := sort Nat.leb.

(* bit values *)
Definition B_OUTCOME := 1%N.     (* error / no error / kind of error *)
Definition B_SELECTED := 2%N.    (* set of fired transitions                        C01 C04 *)
Definition B_EVENT := 4%N.       (* consumed event                                  C01 C05 *)
Definition B_MICRO := 8%N.       (* micro steps: order, entered, exited, sent       C03 C06 C07 *)
Definition B_CONFIG := 16%N.     (* configuration, initialized                      C02 *)
Definition B_QUEUES := 32%N.     (* both queues                                     C05 *)
Definition B_MEMORY := 64%N.     (* history memory                                  C06 *)
Definition B_TIMES := 128%N.     (* _time, _entry_time, _idle_time                  C13 *)
Definition B_TRACE := 256%N.     (* evaluator calls: which, order, what they see    C03 C08 C13 *)
Definition B_CTX := 512%N.       (* context, __old__ store, _sent_events            C08 C18 *)
Definition B_LOGS := 1024%N.     (* meta-events received by attached listeners      C10 *)
Definition B_BOUND := 2048%N.    (* deliveries to bound callables / interpreters    C15 *)
Definition B_PROPS := 4096%N.    (* property interpreters: state and calls          C10 *)
(* checkers evaluated on the implementation's own output (no model run involved) *)
Definition PB_LEGAL := 8192%N.    (* C02: configuration after a normal return is empty or legal+stable *)
Definition PB_QINV := 16384%N.    (* C05: queues sorted by due time, internal/external separated *)
Definition PB_META := 32768%N.    (* C10: every recorder received exactly spec_meta(returned macro step) *)
Definition PB_DELIV := 65536%N.   (* C15: every bound callable received exactly the sent internal events *)
Definition PB_REPLAY := 131072%N. (* C03: replaying exited/entered lists gives the new configuration *)
Definition PB_TIMES := 262144%N.  (* C13: step time frozen; entry/idle times as the macro step says *)
Definition B_OLD := 524288%N.     (* __old__ store                                    C08 C18 *)
Definition PB_HIST := 1048576%N.  (* C06: history restores/records as the replay of the macro step says *)
Definition PB_SLOTS := 2097152%N. (* C08/C03: evaluator calls are exactly the documented points of the returned macro step *)
Definition PB_FAIL := 4194304%N.  (* C08: a false/erring evaluation is the last one and is what the error carries *)
Definition B_INTERLEAVE := 8388608%N. (* C10/C03: meta-events are emitted at the documented points BETWEEN the evaluator calls *)

Definition model_seq (tr : list (obs cval)) : list (option meta) :=
  flat_map (fun o => match o with
                     | ObMeta m => [Some m]
                     | ObExec _ _ | ObEval _ _ => [None]
                     | ObSelected _ => []
                     end) (rev tr).

Definition bit (b : bool) (v : N) : N := if b then 0%N else v.

Definition istate_bits (a b : istate cval) : N :=
  (bit (strs_eqb (sort_names (i_config a)) (sort_names (i_config b))
        && Bool.eqb (i_initialized a) (i_initialized b)) B_CONFIG
   + bit (queue_eqb (i_iq a) (i_iq b) && queue_eqb (i_eq a) (i_eq b)) B_QUEUES
   + bit (list_eqb (pair_eqb str_eqb strs_eqb) (canon_memory (i_memory a)) (canon_memory (i_memory b))) B_MEMORY
   + bit (Z.eqb (i_time a) (i_time b) && zdict_eqb (i_entry a) (i_entry b) && zdict_eqb (i_idle a) (i_idle b)) B_TIMES
   + bit (cval_eqb (i_ctx a) (i_ctx b) && list_eqb event_eqb (i_sent a) (i_sent b)) B_CTX
   + bit (old_eqb (i_old a) (i_old b)) B_OLD)%N.

Definition istate_eqb (a b : istate cval) : bool := N.eqb (istate_bits a b) 0.

Definition nassoc_eqb {V} (eqb : V -> V -> bool) (a b : list (nat * V)) : bool :=
  let le := fun (x y : nat * V) => Nat.leb (fst x) (fst y) in
  list_eqb (pair_eqb Nat.eqb eqb) (sort le a) (sort le b).

Definition world_bits (a b : world cval) : N :=
  (bit (nassoc_eqb (list_eqb meta_eqb) (w_logs a) (w_logs b)) B_LOGS
   + bit (nassoc_eqb (list_eqb event_eqb) (w_calls a) (w_calls b)
          && nassoc_eqb istate_eqb (w_bound a) (w_bound b)) B_BOUND
   + bit (nassoc_eqb (fun x y => istate_eqb (snd x) (snd y)) (w_props a) (w_props b)) B_PROPS)%N.

Definition outcome_bits (model impl : outcome) : N :=
  match model, impl with
  | OutNone, OutNone => 0%N
  | OutErr e, OutErr e' => bit (err_eqb e e') B_OUTCOME
  | OutMacro None, OutMacro None => 0%N
  | OutMacro (Some m), OutMacro (Some m') =>
      (bit (list_eqb Nat.eqb (sort_nat (trans_of (snd m))) (sort_nat (trans_of (snd m')))) B_SELECTED
       + bit (oevent_eqb (macro_event (snd m)) (macro_event (snd m'))) B_EVENT
       + bit (macro_eqb m m') B_MICRO)%N
  | _, _ => B_OUTCOME
  end.

Definition run_case (c : icase) : mstate cval (world cval) * outcome :=
  let t := ic_table c in
  let s0 := mkM (ic_pre c) (ic_world c) [] in
  match ic_op c with
  | OpExecOnce now =>
      let '(s, r) := execute_once cval (world cval) (o_exec t) (o_eval t)
                       (emit1 cval (o_exec t) (o_eval t)) (ic_chart c)
                       (w_fuel (ic_world c)) now s0 in
      (s, match r with inl m => OutMacro m | inr e => OutErr e end)
  | OpQueue e =>
      let '(s, _) := queue cval (world cval) e s0 in (s, OutNone)
  end.

(* fired transitions of the implementation vs. the model's selection, whenever both are known *)
Definition selected_bits (tr : list (obs cval)) (impl : outcome) (isel : option (list nat)) : N :=
  match model_selected tr, impl, isel with
  | Some sel, OutMacro (Some m), _ => bit (list_eqb Nat.eqb (sort_nat sel) (sort_nat (trans_of (snd m)))) B_SELECTED
  | Some (_ :: _), OutMacro None, _ => B_SELECTED
  | Some sel, _, Some l => bit (list_eqb Nat.eqb (sort_nat sel) (sort_nat l)) B_SELECTED
  | None, _, Some (_ :: _) => B_SELECTED
  | _, _, _ => 0%N
  end.

(* ---- Pb on implementation outputs ---- *)
Definition call_time_ok (now : Z) (e : call cval * cval * ores) : bool :=
  negb (Nat.eqb (entry_interp e) 0) || Z.eqb (cl_time (fst (fst e))) now.

Definition is_rec (l : listener) : bool := match l with LRec _ => true | _ => false end.
Definition is_callable (l : listener) : bool := match l with LCallable _ => true | _ => false end.
Definition lid (l : listener) : nat :=
  match l with LRec i | LCallable i | LInterp i | LProp i => i end.

Definition entry_slot (e : call cval * cval * ores) : slot :=
  let c := fst (fst e) in (cl_kind c, cl_owner c, cl_idx c).
Definition main_nonguard (e : call cval * cval * ores) : bool :=
  Nat.eqb (entry_interp e) 0 && negb (ckind_eqb (cl_kind (fst (fst e))) CGuard).
Definition entry_failed (e : call cval * cval * ores) : bool :=
  match snd e with
  | REval (Some true) => false
  | REval (Some false) => negb (ckind_eqb (cl_kind (fst (fst e))) CGuard)   (* a false guard is not a failure *)
  | REval None => true
  | RExec None => true
  | RExec (Some _) => false
  end.

(* first failing evaluation of the monitored interpreter, with what follows it *)
Fixpoint after_first_failure (l : list (call cval * cval * ores))
  : option ((call cval * cval * ores) * list (call cval * cval * ores)) :=
  match l with
  | [] => None
  | e :: r => if entry_failed e then Some (e, r) else after_first_failure r
  end.

Definition fail_ok (c : icase) : bool :=
  let calls := filter (fun e => Nat.eqb (entry_interp e) 0) (ic_table c) in
  match after_first_failure calls, ic_out c with
  | None, OutErr (EContract _ _ _) => false
  | None, OutErr (ECode _ _ _) => false
  | None, _ => true
  | Some (e, rest), OutErr (EContract k o i) =>
      (match rest with [] => true | _ => false end)
      && slot_eqb (entry_slot e) (k, o, i)
      && (match snd e with REval (Some false) => true | _ => false end)
  | Some (e, rest), OutErr (ECode k o i) =>
      (match rest with [] => true | _ => false end) && slot_eqb (entry_slot e) (k, o, i)
      && (match snd e with REval None | RExec None => true | _ => false end)
  | Some _, _ => false
  end.

Definition pb_bits (c : icase) : N :=
  let sc := ic_chart c in
  let pre := ic_pre c in
  let post := ic_post c in
  let wpost := ic_world_post c in
  let qinv := bit (negb (Q_inv_b pre) || Q_inv_b post) PB_QINV in
  match ic_op c, ic_out c with
  | OpExecOnce now, OutMacro macro =>
      let steps := match macro with Some (_, st) => st | None => [] end in
      let recs := filter is_rec (w_listeners (ic_world c)) in
      let cals := filter is_callable (w_listeners (ic_world c)) in
      (qinv
       + bit (Pb_C02 sc (is_final pre) (i_config post)) PB_LEGAL
       + bit (forallb (fun l => match nlookup (lid l) (w_logs wpost) with
                                | Some log => list_eqb meta_eqb log (spec_meta sc now macro)
                                | None => false
                                end) recs) PB_META
       + bit (forallb (fun l => match nlookup (lid l) (w_calls wpost) with
                                | Some log => list_eqb event_eqb log (spec_deliveries steps)
                                | None => false
                                end) cals) PB_DELIV
       + bit (strs_eqb (sort_names (replay_config (i_config pre) steps)) (sort_names (i_config post))) PB_REPLAY
       + bit (list_eqb slot_eqb (map entry_slot (filter main_nonguard (ic_table c)))
                       (expected_slots sc (negb (i_ignore_contract pre)) steps (i_config post))) PB_SLOTS
       + bit (fail_ok c) PB_FAIL
       + bit (match hist_replay sc steps (i_config pre) (i_memory pre) with
              | Some (_, m) => list_eqb (pair_eqb str_eqb strs_eqb) (canon_memory m) (canon_memory (i_memory post))
              | None => false
              end) PB_HIST
       + bit (Z.eqb (i_time post) now
              && (match macro with Some (t, _) => Z.eqb t now | None => true end)
              && forallb (call_time_ok now) (ic_table c)
              && zdict_eqb (i_entry post) (spec_entry (i_entry pre) now steps)
              && zdict_eqb (i_idle post) (spec_idle sc (i_idle pre) now steps)) PB_TIMES)%N
  | OpExecOnce now, OutErr _ =>
      (qinv + bit (Z.eqb (i_time post) now && forallb (call_time_ok now) (ic_table c)) PB_TIMES
       + bit (fail_ok c) PB_FAIL)%N
  | _, _ => (qinv + bit (Z.eqb (i_time post) (i_time pre)) PB_TIMES)%N
  end.

Definition check_icase (c : icase) : N :=
  let '(s, out) := run_case c in
  let mask :=
  N.lor (pb_bits c)
  (N.lor (selected_bits (m_tr s) (ic_out c) (ic_selected c))
  (N.lor (outcome_bits out (ic_out c))
  (N.lor (istate_bits (m_i s) (ic_post c))
  (N.lor (world_bits (m_x s) (ic_world_post c))
  (N.lor (bit (list_eqb obs_eqb (filter is_call (rev (m_tr s))) (ic_trace c)) B_TRACE)
  (N.lor (bit (match ic_seq c with
               | Some l => list_eqb (opt_eqb meta_eqb) (model_seq (m_tr s)) l
               | None => true
               end) B_INTERLEAVE)
         (bit (list_eqb obs_eqb (filter is_call (rev (w_tr (m_x s)))) (ic_ptrace c))
              B_PROPS))))))) in
  if N.eqb mask 0 then 0%N else
  (mask + 16777216 * first_diff (filter is_call (rev (m_tr s))) (ic_trace c)
        + 4294967296 * outcome_code out)%N.

Fixpoint check_from (i : N) (cs : list icase) : list (N * N) :=
  match cs with
  | [] => []
  | c :: cs' =>
      let r := check_icase c in
      if N.eqb r 0 then check_from (N.succ i) cs' else (i, r) :: check_from (N.succ i) cs'
  end.
Definition check_icases (cs : list icase) : list (N * N) := check_from 0%N cs.
