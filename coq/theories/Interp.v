(* Interp.v -- executable model of sismic/interpreter/default.py (class Interpreter) together with
   the parts of sismic/code/python.py that decide WHEN code is evaluated and WHAT it sees.

   The model mirrors the Python code loop by loop.  It is written in a state-and-error monad
   that keeps the state on error (a Python exception leaves the interpreter as mutated so far).
   Code semantics is abstract: a Section over exec_code / eval_code (every theorem quantifies
   over them); listeners are abstract too (emit), see World.v for the concrete listeners. *)
From Sismic Require Import Base Chart.
Open Scope string_scope.
Open Scope list_scope.

(* ------------------------------------------------------------------ events *)
Inductive value := VNone | VBool (b : bool) | VInt (z : Z) | VStr (s : string).

Definition value_eqb (a b : value) : bool :=
  match a, b with
  | VNone, VNone => true
  | VBool x, VBool y => Bool.eqb x y
  | VInt x, VInt y => Z.eqb x y
  | VStr x, VStr y => str_eqb x y
  | _, _ => false
  end.

Inductive ekind := External | Internal | Meta.   (* Event / InternalEvent / MetaEvent *)
Definition ekind_eqb (a b : ekind) : bool :=
  match a, b with External, External | Internal, Internal | Meta, Meta => true | _, _ => false end.

Record event := mkEvent { e_kind : ekind; e_name : name; e_data : list (name * value) }.

Definition data_eqb := list_eqb (pair_eqb str_eqb value_eqb).
Definition event_eqb (a b : event) : bool :=
  ekind_eqb (e_kind a) (e_kind b) && str_eqb (e_name a) (e_name b) && data_eqb (e_data a) (e_data b).
Definition oevent_eqb := opt_eqb event_eqb.

(* getattr(event, 'delay', 0) -- the harness only uses integer delays *)
Definition delay_of (e : event) : Z :=
  match lookup "delay" (e_data e) with Some (VInt d) => d | _ => 0%Z end.
Definition has_delay (e : event) : bool :=
  match lookup "delay" (e_data e) with Some _ => true | None => false end.

(* meta-events emitted by the interpreter *)
Inductive meta :=
| MStepStarted (t : Z)
| MStepEnded
| MConsumed (e : event)
| MSent (e : event)
| MDelayedSent (e : event)
| MExited (s : name)
| MEntered (s : name)
| MProcessed (src : name) (tgt : option name) (ev : option event)
| MUser (n : name) (d : list (name * value)).     (* notify(...) *)

Definition meta_eqb (a b : meta) : bool :=
  match a, b with
  | MStepStarted x, MStepStarted y => Z.eqb x y
  | MStepEnded, MStepEnded => true
  | MConsumed x, MConsumed y | MSent x, MSent y | MDelayedSent x, MDelayedSent y => event_eqb x y
  | MExited x, MExited y | MEntered x, MEntered y => str_eqb x y
  | MProcessed s t e, MProcessed s' t' e' => str_eqb s s' && ostr_eqb t t' && oevent_eqb e e'
  | MUser n d, MUser n' d' => str_eqb n n' && data_eqb d d'
  | _, _ => false
  end.

(* A MetaEvent as the Event object a property statechart receives (nested events flattened) *)
Definition flat_event (prefix : string) (e : event) : list (name * value) :=
  ((prefix ++ ".name")%string, VStr (e_name e))
  :: map (fun kv => ((prefix ++ "." ++ fst kv)%string, snd kv)) (e_data e).
Definition meta_to_event (m : meta) : event :=
  match m with
  | MStepStarted t => mkEvent Meta "step started" [("time", VInt t)]
  | MStepEnded => mkEvent Meta "step ended" []
  | MConsumed e => mkEvent Meta "event consumed" (flat_event "event" e)
  | MSent e => mkEvent Meta "event sent" (flat_event "event" e)
  | MDelayedSent e => mkEvent Meta "delayed event sent" (flat_event "event" e)
  | MExited s => mkEvent Meta "state exited" [("state", VStr s)]
  | MEntered s => mkEvent Meta "state entered" [("state", VStr s)]
  | MProcessed s t e =>
      mkEvent Meta "transition processed"
        (("source", VStr s) :: ("target", match t with Some x => VStr x | None => VNone end)
         :: match e with Some ev => flat_event "event" ev | None => [("event", VNone)] end)
  | MUser n d => mkEvent Meta n d
  end.

(* ------------------------------------------------------------------ steps *)
Record microstep := mkMicro {
  ms_event : option event;
  ms_trans : option nat;          (* index of the transition in statechart.transitions *)
  ms_entered : list name;
  ms_exited : list name;
  ms_sent : list event
}.
Definition macrostep := (Z * list microstep)%type.   (* MacroStep(time, steps) *)

Definition micro_eqb (a b : microstep) : bool :=
  oevent_eqb (ms_event a) (ms_event b) && opt_eqb Nat.eqb (ms_trans a) (ms_trans b)
  && strs_eqb (ms_entered a) (ms_entered b) && strs_eqb (ms_exited a) (ms_exited b)
  && list_eqb event_eqb (ms_sent a) (ms_sent b).

(* MacroStep.event: first micro step with an event *)
Fixpoint macro_event (steps : list microstep) : option event :=
  match steps with
  | [] => None
  | s :: r => match ms_event s with Some e => Some e | None => macro_event r end
  end.

(* ------------------------------------------------------------------ errors *)
Inductive owner := OState (n : name) | OTrans (i : nat).
Definition owner_eqb (a b : owner) : bool :=
  match a, b with
  | OState x, OState y => str_eqb x y
  | OTrans x, OTrans y => Nat.eqb x y
  | _, _ => false
  end.

Inductive ckind := CEntry | CExit | CAction | CGuard | CPre | CInv | CPost.
Definition ckind_eqb (a b : ckind) : bool :=
  match a, b with
  | CEntry, CEntry | CExit, CExit | CAction, CAction | CGuard, CGuard
  | CPre, CPre | CInv, CInv | CPost, CPost => true
  | _, _ => false
  end.

Inductive err :=
| ENonDeterminism
| EConflict
| EContract (k : ckind) (o : owner) (idx : nat)   (* Pre/Post/InvariantError(obj, condition) *)
| ECode (k : ckind) (o : owner) (idx : nat)       (* CodeEvaluationError *)
| EProperty (listener : nat)                      (* PropertyStatechartError *)
| EStatechart                                     (* StatechartError: state does not exist *)
| EKey                                            (* KeyError (set.remove) *)
| EAssert                                         (* AssertionError in the history recording *)
| EFuel.                                          (* model ran out of fuel: not a Python outcome *)

Definition err_eqb (a b : err) : bool :=
  match a, b with
  | ENonDeterminism, ENonDeterminism | EConflict, EConflict | EStatechart, EStatechart
  | EKey, EKey | EAssert, EAssert | EFuel, EFuel => true
  | EContract k o i, EContract k' o' i' | ECode k o i, ECode k' o' i' =>
      ckind_eqb k k' && owner_eqb o o' && Nat.eqb i i'
  | EProperty x, EProperty y => Nat.eqb x y
  | _, _ => false
  end.

(* ------------------------------------------------------------------ evaluator interface *)
(* Everything a code fragment can observe besides the context (PythonEvaluator's
   exposed_context / additional_context). *)
Record call (ctx : Type) := mkCall {
  cl_interp : nat;                (* which interpreter (0 = the monitored one) *)
  cl_kind : ckind;
  cl_owner : owner;
  cl_idx : nat;                   (* index of the condition in its list; 0 otherwise *)
  cl_code : option code;
  cl_event : option event;        (* `event` *)
  cl_time : Z;                    (* `time` *)
  cl_config : list name;          (* what active() sees, sorted by name *)
  cl_entry : option Z;            (* base of after()  : _entry_time[owner state] *)
  cl_idle : option Z;             (* base of idle()   : _idle_time[owner state] *)
  cl_sent : list name;            (* names for which sent() holds (sorted, no duplicates) *)
  cl_old : option ctx             (* __old__ ; None = not exposed or nothing stored *)
}.
Arguments mkCall {ctx}.
Arguments cl_interp {ctx}. Arguments cl_kind {ctx}. Arguments cl_owner {ctx}. Arguments cl_idx {ctx}.
Arguments cl_code {ctx}. Arguments cl_event {ctx}. Arguments cl_time {ctx}. Arguments cl_config {ctx}.
Arguments cl_entry {ctx}. Arguments cl_idle {ctx}. Arguments cl_sent {ctx}. Arguments cl_old {ctx}.

(* observation trace *)
Inductive obs (ctx : Type) :=
| ObExec (c : call ctx) (sent : option (list event))   (* execute_on_entry/exit/action was called *)
| ObEval (c : call ctx) (r : option bool)              (* a guard / condition was evaluated *)
| ObMeta (m : meta)                                    (* a meta-event was handed to the listeners *)
| ObSelected (ts : list nat).                          (* model only: result of _select_transitions *)
Arguments ObExec {ctx}. Arguments ObEval {ctx}. Arguments ObMeta {ctx}. Arguments ObSelected {ctx}.

(* ------------------------------------------------------------------ interpreter state *)
Record istate (ctx : Type) := mkIState {
  i_id : nat;
  i_initialized : bool;
  i_time : Z;
  i_memory : list (name * list name);      (* _memory *)
  i_config : list name;                    (* _configuration (a set) *)
  i_entry : list (name * Z);               (* _entry_time *)
  i_idle : list (name * Z);                (* _idle_time *)
  i_sent : list event;                     (* _sent_events *)
  i_iq : list (Z * event);                 (* _internal_queue *)
  i_eq : list (Z * event);                 (* _external_queue *)
  i_ignore_contract : bool;
  i_ctx : ctx;                             (* evaluator._context *)
  i_old : list (owner * ctx)               (* evaluator._memory (frozen contexts for __old__) *)
}.
Arguments mkIState {ctx}.
Arguments i_id {ctx}. Arguments i_initialized {ctx}. Arguments i_time {ctx}. Arguments i_memory {ctx}.
Arguments i_config {ctx}. Arguments i_entry {ctx}. Arguments i_idle {ctx}. Arguments i_sent {ctx}.
Arguments i_iq {ctx}. Arguments i_eq {ctx}. Arguments i_ignore_contract {ctx}. Arguments i_ctx {ctx}.
Arguments i_old {ctx}.

Definition init_istate {ctx} (id : nat) (now : Z) (ignore : bool) (c0 : ctx) : istate ctx :=
  mkIState id false now [] [] [] [] [] [] [] ignore c0 [].

(* configuration property: sorted by (depth, name) *)
Definition configuration (c : chart) (cfg : list name) : list name :=
  map snd (sort zn_leb (map (fun n => (depth_for c n, n)) cfg)).

Definition is_final {ctx} (s : istate ctx) : bool :=
  i_initialized s && match i_config s with [] => true | _ => false end.

(* ---- queues ---- *)
(* key used by _queue_event: (time, not isinstance(event, InternalEvent)) *)
Definition qkey (te : Z * event) : Z * bool :=
  (fst te, negb (ekind_eqb (e_kind (snd te)) Internal)).
Definition qkey_leb (a b : Z * bool) : bool :=
  (fst a <? fst b)%Z || ((fst a =? fst b)%Z && bool_leb (snd a) (snd b)).

(* bisect.bisect_right on a list sorted by qkey: index after the last entry with key <= x *)
Definition bisect_right (q : list (Z * event)) (x : Z * bool) : nat :=
  length (takeWhile (fun te => qkey_leb (qkey te) x) q).

Definition queue_insert (q : list (Z * event)) (t : Z) (e : event) : list (Z * event) :=
  insert_at (bisect_right q (qkey (t, e))) (t, e) q.

(* _queue_event *)
Definition queue_event {ctx} (s : istate ctx) (e : event) : istate ctx :=
  let t := (i_time s + delay_of e)%Z in
  match e_kind e with
  | Internal =>
      mkIState (i_id s) (i_initialized s) (i_time s) (i_memory s) (i_config s) (i_entry s) (i_idle s)
               (i_sent s) (queue_insert (i_iq s) t e) (i_eq s) (i_ignore_contract s) (i_ctx s) (i_old s)
  | _ =>
      mkIState (i_id s) (i_initialized s) (i_time s) (i_memory s) (i_config s) (i_entry s) (i_idle s)
               (i_sent s) (i_iq s) (queue_insert (i_eq s) t e) (i_ignore_contract s) (i_ctx s) (i_old s)
  end.

(* _select_event(consume=False): head of the internal queue if due, else head of the external
   queue if due *)
Definition due_head (now : Z) (q : list (Z * event)) : option event :=
  match q with (t, e) :: _ => if (t <=? now)%Z then Some e else None | [] => None end.
Definition select_event {ctx} (s : istate ctx) : option event :=
  match due_head (i_time s) (i_iq s) with
  | Some e => Some e
  | None => due_head (i_time s) (i_eq s)
  end.

Section Interp.
  Variable ctx : Type.
  Variable X : Type.                                         (* state reachable by listeners *)
  Variable exec_code : call ctx -> ctx -> option (ctx * list event).  (* None = CodeEvaluationError *)
  Variable eval_code : call ctx -> ctx -> option bool.
  Variable emit : Z -> meta -> X -> X * option err.          (* for l in self._listeners: l(event) *)
  Variable sc : chart.

  Notation ist := (istate ctx).

  Record mstate := mkM { m_i : ist; m_x : X; m_tr : list (obs ctx) (* newest first *) }.
  Definition M (A : Type) := mstate -> mstate * (A + err).
  Definition ret {A} (a : A) : M A := fun s => (s, inl a).
  Definition fail {A} (e : err) : M A := fun s => (s, inr e).
  Definition bind {A B} (m : M A) (f : A -> M B) : M B :=
    fun s => match m s with
             | (s', inl a) => f a s'
             | (s', inr e) => (s', inr e)
             end.
  Notation "x <- m ;; f" := (bind m (fun x => f)) (at level 61, m at next level, right associativity).
  Notation "m ;;; f" := (bind m (fun _ => f)) (at level 61, right associativity).

  Definition get : M ist := fun s => (s, inl (m_i s)).
  Definition put (i : ist) : M unit := fun s => (mkM i (m_x s) (m_tr s), inl tt).
  Definition modify (f : ist -> ist) : M unit := fun s => (mkM (f (m_i s)) (m_x s) (m_tr s), inl tt).
  Definition observe (o : obs ctx) : M unit := fun s => (mkM (m_i s) (m_x s) (o :: m_tr s), inl tt).

  Fixpoint mapM {A B} (f : A -> M B) (l : list A) : M (list B) :=
    match l with
    | [] => ret []
    | x :: l' => y <- f x ;; ys <- mapM f l' ;; ret (y :: ys)
    end.
  Fixpoint iterM {A} (f : A -> M unit) (l : list A) : M unit :=
    match l with
    | [] => ret tt
    | x :: l' => f x ;;; iterM f l'
    end.

  (* field setters *)
  Definition set_time (t : Z) (s : ist) : ist :=
    mkIState (i_id s) (i_initialized s) t (i_memory s) (i_config s) (i_entry s) (i_idle s)
             (i_sent s) (i_iq s) (i_eq s) (i_ignore_contract s) (i_ctx s) (i_old s).
  Definition set_initialized (b : bool) (s : ist) : ist :=
    mkIState (i_id s) b (i_time s) (i_memory s) (i_config s) (i_entry s) (i_idle s)
             (i_sent s) (i_iq s) (i_eq s) (i_ignore_contract s) (i_ctx s) (i_old s).
  Definition set_memory (m : list (name * list name)) (s : ist) : ist :=
    mkIState (i_id s) (i_initialized s) (i_time s) m (i_config s) (i_entry s) (i_idle s)
             (i_sent s) (i_iq s) (i_eq s) (i_ignore_contract s) (i_ctx s) (i_old s).
  Definition set_config (c : list name) (s : ist) : ist :=
    mkIState (i_id s) (i_initialized s) (i_time s) (i_memory s) c (i_entry s) (i_idle s)
             (i_sent s) (i_iq s) (i_eq s) (i_ignore_contract s) (i_ctx s) (i_old s).
  Definition set_entry (e : list (name * Z)) (s : ist) : ist :=
    mkIState (i_id s) (i_initialized s) (i_time s) (i_memory s) (i_config s) e (i_idle s)
             (i_sent s) (i_iq s) (i_eq s) (i_ignore_contract s) (i_ctx s) (i_old s).
  Definition set_idle (e : list (name * Z)) (s : ist) : ist :=
    mkIState (i_id s) (i_initialized s) (i_time s) (i_memory s) (i_config s) (i_entry s) e
             (i_sent s) (i_iq s) (i_eq s) (i_ignore_contract s) (i_ctx s) (i_old s).
  Definition set_sent (e : list event) (s : ist) : ist :=
    mkIState (i_id s) (i_initialized s) (i_time s) (i_memory s) (i_config s) (i_entry s) (i_idle s)
             e (i_iq s) (i_eq s) (i_ignore_contract s) (i_ctx s) (i_old s).
  Definition set_iq (q : list (Z * event)) (s : ist) : ist :=
    mkIState (i_id s) (i_initialized s) (i_time s) (i_memory s) (i_config s) (i_entry s) (i_idle s)
             (i_sent s) q (i_eq s) (i_ignore_contract s) (i_ctx s) (i_old s).
  Definition set_eq (q : list (Z * event)) (s : ist) : ist :=
    mkIState (i_id s) (i_initialized s) (i_time s) (i_memory s) (i_config s) (i_entry s) (i_idle s)
             (i_sent s) (i_iq s) q (i_ignore_contract s) (i_ctx s) (i_old s).
  Definition set_ctx (c : ctx) (s : ist) : ist :=
    mkIState (i_id s) (i_initialized s) (i_time s) (i_memory s) (i_config s) (i_entry s) (i_idle s)
             (i_sent s) (i_iq s) (i_eq s) (i_ignore_contract s) c (i_old s).
  Definition set_old (o : list (owner * ctx)) (s : ist) : ist :=
    mkIState (i_id s) (i_initialized s) (i_time s) (i_memory s) (i_config s) (i_entry s) (i_idle s)
             (i_sent s) (i_iq s) (i_eq s) (i_ignore_contract s) (i_ctx s) o.

  (* ---------------------------------------------------------------- listeners *)
  (* _raise_event(MetaEvent): every listener is called *)
  Definition raise_meta (m : meta) : M unit :=
    fun s =>
      let '(x', r) := emit (i_time (m_i s)) m (m_x s) in
      let s' := mkM (m_i s) x' (ObMeta m :: m_tr s) in
      match r with None => (s', inl tt) | Some e => (s', inr e) end.

  (* _raise_event(event) for the events produced by code: InternalEvent (send) or MetaEvent (notify) *)
  Definition raise_event (e : event) : M unit :=
    match e_kind e with
    | Internal =>
        modify (fun s => queue_event s e) ;;;
        raise_meta (MSent e) ;;;
        (if has_delay e then raise_meta (MDelayedSent e) else ret tt)
    | Meta => raise_meta (MUser (e_name e) (e_data e))
    | External => ret tt      (* ValueError in Python; send/notify never build a plain Event *)
    end.

  (* ---------------------------------------------------------------- evaluator calls *)
  Definition owner_state (o : owner) : option name :=
    match o with
    | OState n => Some n
    | OTrans i => option_map t_source (nth_error (c_transitions sc) i)
    end.

  Fixpoint old_lookup (o : owner) (m : list (owner * ctx)) : option ctx :=
    match m with
    | [] => None
    | (o', c) :: m' => if owner_eqb o o' then Some c else old_lookup o m'
    end.
  Fixpoint old_set (o : owner) (c : ctx) (m : list (owner * ctx)) : list (owner * ctx) :=
    match m with
    | [] => [(o, c)]
    | (o', c') :: m' => if owner_eqb o o' then (o, c) :: m' else (o', c') :: old_set o c m'
    end.

  Definition mk_call (s : ist) (k : ckind) (o : owner) (idx : nat) (cd : option code)
             (ev : option event) : call ctx :=
    let st := owner_state o in
    let with_times := match k with CGuard | CInv | CPost => true | _ => false end in
    let with_sent := match k with CPre | CInv | CPost => true | _ => false end in
    let with_old := match k with CInv | CPost => true | _ => false end in
    mkCall (i_id s) k o idx cd ev (i_time s) (sort_names (i_config s))
           (if with_times then match st with Some n => lookup n (i_entry s) | None => None end else None)
           (if with_times then match st with Some n => lookup n (i_idle s) | None => None end else None)
           (if with_sent then sort_names (dedup (map e_name (i_sent s))) else [])
           (if with_old then old_lookup o (i_old s) else None).

  (* Evaluator.execute_on_entry / execute_on_exit / execute_action: called for every state and
     transition, the code runs only when there is some. *)
  Definition run_code (k : ckind) (o : owner) (cd : option code) (ev : option event) : M (list event) :=
    s <- get ;;
    let c := mk_call s k o 0 cd ev in
    match cd with
    | None => observe (ObExec c (Some [])) ;;; ret []
    | Some _ =>
        match exec_code c (i_ctx s) with
        | Some (ctx', sent) => observe (ObExec c (Some sent)) ;;; put (set_ctx ctx' s) ;;; ret sent
        | None => observe (ObExec c None) ;;; fail (ECode k o 0)
        end
    end.

  (* one condition or guard *)
  Definition eval_cond (k : ckind) (o : owner) (idx : nat) (cd : code) (ev : option event) : M bool :=
    s <- get ;;
    let c := mk_call s k o idx (Some cd) ev in
    match eval_code c (i_ctx s) with
    | Some b => observe (ObEval c (Some b)) ;;; ret b
    | None => observe (ObEval c None) ;;; fail (ECode k o idx)
    end.

  (* _evaluate_contract_conditions: conditions in order, stop at the first unsatisfied one *)
  Fixpoint eval_conds (k : ckind) (o : owner) (idx : nat) (cds : list code) (ev : option event) : M unit :=
    match cds with
    | [] => ret tt
    | cd :: rest =>
        b <- eval_cond k o idx cd ev ;;
        if b then eval_conds k o (S idx) rest ev else fail (EContract k o idx)
    end.

  Definition contract (k : ckind) (o : owner) (pre post inv : list code) (ev : option event) : M unit :=
    s <- get ;;
    if i_ignore_contract s then ret tt else
    match k with
    | CPre =>
        (* PythonEvaluator.evaluate_preconditions stores __old__ when there is an invariant or a
           postcondition *)
        (match inv, post with
         | [], [] => ret tt
         | _, _ => modify (fun s => set_old (old_set o (i_ctx s) (i_old s)) s)
         end) ;;;
        eval_conds CPre o 0 pre ev
    | CPost => eval_conds CPost o 0 post ev
    | CInv => eval_conds CInv o 0 inv ev
    | _ => ret tt
    end.

  Definition state_contract (k : ckind) (st : state) (ev : option event) : M unit :=
    contract k (OState (s_name st)) (s_pre st) (s_post st) (s_inv st) ev.
  Definition trans_contract (k : ckind) (it : itrans) (ev : option event) : M unit :=
    contract k (OTrans (fst it)) (t_pre (snd it)) (t_post (snd it)) (t_inv (snd it)) ev.

  (* ---------------------------------------------------------------- _select_transitions *)
  (* innermost loop: every transition of one priority class whose guard holds *)
  Fixpoint eval_guards (exposed : option event) (ts : list itrans) : M (list itrans) :=
    match ts with
    | [] => ret []
    | it :: rest =>
        ok <- match t_guard (snd it) with
              | None => ret true
              | Some g => eval_cond CGuard (OTrans (fst it)) 0 g exposed
              end ;;
        r <- eval_guards exposed rest ;;
        ret (if ok then it :: r else r)
    end.

  (* priority classes of one source, highest first; stop at the first class that yields something *)
  Fixpoint sel_priorities (exposed : option event) (groups : list (Z * list itrans)) : M (list itrans) :=
    match groups with
    | [] => ret []
    | (_, ts) :: rest =>
        r <- eval_guards exposed ts ;;
        match r with
        | [] => sel_priorities exposed rest
        | _ => ret r
        end
    end.

  (* sources of one depth, by name *)
  Fixpoint sel_sources (exposed : option event) (groups : list (name * list itrans))
           (selected : list itrans) (ignored : list name) : M (list itrans * list name) :=
    match groups with
    | [] => ret (selected, ignored)
    | (source, ts) :: rest =>
        if mem source ignored then sel_sources exposed rest selected ignored
        else
          r <- sel_priorities exposed
                 (sorted_groupby (fun it => t_priority (snd it)) Z.eqb Z.leb true ts) ;;
          match r with
          | [] => sel_sources exposed rest selected ignored
          | _ => sel_sources exposed rest (selected ++ r) (ignored ++ ancestors_for sc source ++ [source])
          end
    end.

  (* depths, deepest first *)
  Fixpoint sel_depths (exposed : option event) (groups : list (Z * list itrans))
           (selected : list itrans) (ignored : list name) : M (list itrans * list name) :=
    match groups with
    | [] => ret (selected, ignored)
    | (_, ts) :: rest =>
        r <- sel_sources exposed (sorted_groupby (fun it => t_source (snd it)) str_eqb str_leb false ts)
               selected ignored ;;
        sel_depths exposed rest (fst r) (snd r)
    end.

  (* eventless group first; a later group is skipped once something was selected *)
  Fixpoint sel_eventness (event : option event) (groups : list (bool * list itrans))
           (selected : list itrans) : M (list itrans) :=
    match groups with
    | [] => ret selected
    | (has_event, ts) :: rest =>
        match selected with
        | _ :: _ => ret selected
        | [] =>
            let exposed := if has_event then event else None in
            r <- sel_depths exposed
                   (sorted_groupby (fun it => depth_for sc (t_source (snd it))) Z.eqb Z.leb true ts)
                   selected [] ;;
            sel_eventness event rest (fst r)
        end
    end.

  Definition has_event_key (it : itrans) : bool :=
    match t_event (snd it) with Some _ => true | None => false end.

  Definition considered (event : option event) (states : list name) : list itrans :=
    filter (fun it => mem (t_source (snd it)) states
                      && match t_event (snd it) with
                         | None => true
                         | Some n => ostr_eqb (Some n) (option_map e_name event)
                         end)
           (itransitions sc).

  Definition select_transitions (event : option event) (states : list name) : M (list itrans) :=
    sel_eventness event
      (sorted_groupby has_event_key Bool.eqb bool_leb false (considered event states)) [].

  (* ---------------------------------------------------------------- _sort_transitions *)
  (* the child of the LCA (or the source itself) on the path from the source up to the LCA *)
  Fixpoint last_before (lca : option name) (anc : list name) (cur : name) : name :=
    match anc with
    | [] => cur
    | a :: rest => if ostr_eqb (Some a) lca then cur else last_before lca rest a
    end.

  Definition stays_below (lca : option name) (t : transition) : bool :=
    match t_target t with
    | None | Some "" => true
    | Some tgt =>
        let lbl := last_before lca (ancestors_for sc (t_source t)) (t_source t) in
        mem tgt (lbl :: descendants_for sc lbl)
    end.

  Definition check_pair (t1 t2 : transition) : option err :=
    let same := str_eqb (t_source t1) (t_source t2) in
    let lca := least_common_ancestor sc (t_source t1) (t_source t2) in
    if same then Some ENonDeterminism else
    match lca with
    | None => Some EStatechart                       (* state_for(None) *)
    | Some l =>
        match kind_of sc l with
        | None => Some EStatechart
        | Some KOrthogonal =>
            if stays_below lca t1 && stays_below lca t2 then None else Some EConflict
        | Some _ => Some ENonDeterminism
        end
    end.

  (* itertools.combinations(transitions, 2), in its order; the first offending pair decides *)
  Fixpoint check_against (t1 : transition) (rest : list itrans) : option err :=
    match rest with
    | [] => None
    | it :: rest' => match check_pair t1 (snd it) with Some e => Some e | None => check_against t1 rest' end
    end.
  Fixpoint check_pairs (ts : list itrans) : option err :=
    match ts with
    | [] => None
    | it :: rest => match check_against (snd it) rest with Some e => Some e | None => check_pairs rest end
    end.

  Definition trans_order_leb (a b : itrans) : bool :=
    zn_leb ((- depth_for sc (t_source (snd a)))%Z, t_source (snd a))
           ((- depth_for sc (t_source (snd b)))%Z, t_source (snd b)).

  Definition sort_transitions (ts : list itrans) : M (list itrans) :=
    match ts with
    | _ :: _ :: _ =>
        match check_pairs ts with
        | Some e => fail e
        | None => ret (sort trans_order_leb ts)
        end
    | _ => ret ts
    end.

  (* ---------------------------------------------------------------- _create_steps *)
  Definition exit_order_leb (a b : name) : bool :=
    zn_leb ((- depth_for sc a)%Z, a) ((- depth_for sc b)%Z, b).

  Fixpoint entered_path (lca : option name) (anc : list name) (acc : list name) : list name :=
    match anc with
    | [] => acc
    | a :: rest => if ostr_eqb (Some a) lca then acc else entered_path lca rest (a :: acc)
    end.

  Definition create_step (cfg : list name) (event : option event) (it : itrans) : microstep :=
    let t := snd it in
    match t_target t with
    | None => mkMicro event (Some (fst it)) [] [] []
    | Some tgt =>
        let lca := least_common_ancestor sc (t_source t) tgt in
        let lbl := last_before lca (ancestors_for sc (t_source t)) (t_source t) in
        let desc := sort exit_order_leb (descendants_for sc lbl) in
        let exited := filter (fun d => mem d cfg) desc ++ (if mem lbl cfg then [lbl] else []) in
        let entered := entered_path lca (ancestors_for sc tgt) [tgt] in
        mkMicro event (Some (fst it)) entered exited []
    end.

  Definition create_steps (cfg : list name) (event : option event) (ts : list itrans) : list microstep :=
    map (create_step cfg event) ts.

  (* ---------------------------------------------------------------- _compute_steps *)
  Definition compute_steps : M (list microstep) :=
    s <- get ;;
    if negb (i_initialized s) then
      put (set_initialized true s) ;;;
      match root sc with
      | Some r => ret [mkMicro None None [r] [] []]
      | None => fail EStatechart
      end
    else
      let event := select_event s in
      ts <- select_transitions event (i_config s) ;;
      observe (ObSelected (map fst ts)) ;;;
      match ts with
      | [] => match event with
              | None => ret []
              | Some e => ret [mkMicro (Some e) None [] [] []]
              end
      | _ =>
          ts' <- sort_transitions ts ;;
          let event' := match ts' with
                        | it :: _ => match t_event (snd it) with None => None | Some _ => event end
                        | [] => event
                        end in
          s' <- get ;;
          ret (create_steps (i_config s') event' ts')
      end.

  (* ---------------------------------------------------------------- _create_stabilization_step *)
  Definition leaf_order_leb (a b : name) : bool := exit_order_leb a b.
  Definition enter_order_leb (a b : name) : bool :=
    zn_leb (depth_for sc a, a) (depth_for sc b, b).

  Definition stab_for_leaf (mem_ : list (name * list name)) (leaf : name) : option (microstep + err) :=
    match state_for sc leaf with
    | None => Some (inr EStatechart)
    | Some st =>
        match s_kind st with
        | KFinal =>
            if ostr_eqb (parent_for sc leaf) (root sc)
            then match root sc with
                 | Some r => Some (inl (mkMicro None None [] [leaf; r] []))
                 | None => Some (inr EStatechart)
                 end
            else None
        | KShallow | KDeep =>
            match lookup leaf mem_ with
            | Some l => Some (inl (mkMicro None None (sort enter_order_leb l) [leaf] []))
            | None =>
                match s_memory st with
                | Some m => Some (inl (mkMicro None None [m] [leaf] []))
                | None => Some (inr EStatechart)     (* depth_for(None) inside the sort key *)
                end
            end
        | KOrthogonal =>
            match children_for sc leaf with
            | [] => None
            | ch => Some (inl (mkMicro None None (sort_names ch) [] []))
            end
        | KCompound =>
            match truthy (s_initial st) with
            | Some i => Some (inl (mkMicro None None [i] [] []))
            | None => None
            end
        | KBasic => None
        end
    end.

  Fixpoint first_some {A B} (f : A -> option B) (l : list A) : option B :=
    match l with
    | [] => None
    | x :: l' => match f x with Some y => Some y | None => first_some f l' end
    end.

  (* completion of active orthogonal states whose children are not all active *)
  Definition stab_for_orthogonal (cfg : list name) (n : name) : option (microstep + err) :=
    match state_for sc n with
    | None => Some (inr EStatechart)
    | Some st =>
        match s_kind st with
        | KOrthogonal =>
            match filter (fun ch => negb (mem ch cfg)) (children_for sc n) with
            | [] => None
            | missing => Some (inl (mkMicro None None (sort_names missing) [] []))
            end
        | _ => None
        end
    end.

  Definition create_stabilization_step (s : ist) : option (microstep + err) :=
    let cfg := i_config s in
    let leaves := sort leaf_order_leb (leaf_for sc cfg) in
    match first_some (stab_for_leaf (i_memory s)) leaves with
    | Some r => Some r
    | None => first_some (stab_for_orthogonal cfg) (sort enter_order_leb cfg)
    end.

  (* ---------------------------------------------------------------- _apply_step *)
  Fixpoint states_for (l : list name) : option (list state) :=
    match l with
    | [] => Some []
    | n :: l' =>
        match state_for sc n, states_for l' with
        | Some s, Some r => Some (s :: r)
        | _, _ => None
        end
    end.

  (* history recording when a compound state is exited; active = copy of the configuration
     taken at the beginning of the micro step *)
  Definition record_history (active : list name) (st : state) : M unit :=
    match s_kind st with
    | KCompound =>
        iterM (fun child =>
                 match state_for sc child with
                 | None => fail EStatechart
                 | Some cs =>
                     match s_kind cs with
                     | KDeep =>
                         let desc := descendants_for sc (s_name st) in
                         let act := filter (fun n => mem n desc) active in
                         match act with
                         | [] => fail EAssert
                         | _ => modify (fun s => set_memory (dset child (sort_names act) (i_memory s)) s)
                         end
                     | KShallow =>
                         let ch := children_for sc (s_name st) in
                         let act := filter (fun n => mem n ch) active in
                         match act with
                         | [_] => modify (fun s => set_memory (dset child act (i_memory s)) s)
                         | _ => fail EAssert
                         end
                     | _ => ret tt
                     end
                 end)
              (children_for sc (s_name st))
    | _ => ret tt
    end.

  Definition exit_state (active : list name) (ev : option event) (st : state) : M (list event) :=
    sent <- run_code CExit (OState (s_name st)) (s_on_exit st) None ;;
    record_history active st ;;;
    s <- get ;;
    (if mem (s_name st) (i_config s)
     then put (set_config (remove_first (s_name st) (i_config s)) s)
     else fail EKey) ;;;
    state_contract CPost st ev ;;;
    raise_meta (MExited (s_name st)) ;;;
    ret sent.

  Definition enter_state (ev : option event) (st : state) : M (list event) :=
    state_contract CPre st ev ;;;
    sent <- run_code CEntry (OState (s_name st)) (s_on_entry st) None ;;
    modify (fun s => set_idle (dset (s_name st) (i_time s) (i_idle s))
                       (set_entry (dset (s_name st) (i_time s) (i_entry s))
                          (set_config (set_add (s_name st) (i_config s)) s))) ;;;
    raise_meta (MEntered (s_name st)) ;;;
    ret sent.

  Definition process_transition (ev : option event) (i : nat) : M (list event) :=
    match nth_error (c_transitions sc) i with
    | None => fail EStatechart
    | Some t =>
        let it := (i, t) in
        trans_contract CPre it ev ;;;
        trans_contract CInv it ev ;;;
        sent <- run_code CAction (OTrans i) (t_action t) ev ;;
        trans_contract CPost it ev ;;;
        trans_contract CInv it ev ;;;
        modify (fun s => set_idle (dset (t_source t) (i_time s) (i_idle s)) s) ;;;
        raise_meta (MProcessed (t_source t) (t_target t) ev) ;;;
        ret sent
    end.

  Definition apply_step (step : microstep) : M microstep :=
    match states_for (ms_entered step), states_for (ms_exited step) with
    | Some entered, Some exited =>
        s0 <- get ;;
        let active := i_config s0 in
        sent1 <- mapM (exit_state active (ms_event step)) exited ;;
        sent2 <- match ms_trans step with
                 | Some i => process_transition (ms_event step) i
                 | None => ret []
                 end ;;
        sent3 <- mapM (enter_state (ms_event step)) entered ;;
        let sent := concat sent1 ++ sent2 ++ concat sent3 in
        iterM (fun e => raise_event e ;;; modify (fun s => set_sent (i_sent s ++ [e]) s)) sent ;;;
        ret (mkMicro (ms_event step) (ms_trans step) (ms_entered step) (ms_exited step) sent)
    | _, _ => fail EStatechart
    end.

  (* ---------------------------------------------------------------- _stabilize *)
  Fixpoint stabilize (fuel : nat) : M (list microstep) :=
    match fuel with
    | O => fail EFuel
    | S f =>
        s <- get ;;
        match create_stabilization_step s with
        | None => ret []
        | Some (inr e) => fail e
        | Some (inl step) =>
            a <- apply_step step ;;
            r <- stabilize f ;;
            ret (a :: r)
        end
    end.

  (* ---------------------------------------------------------------- execute_once *)
  Definition consume_event : M (option event) :=
    s <- get ;;
    match i_iq s with
    | (t, e) :: q' =>
        if (t <=? i_time s)%Z then put (set_iq q' s) ;;; ret (Some e)
        else match i_eq s with
             | (t2, e2) :: q2 => if (t2 <=? i_time s)%Z then put (set_eq q2 s) ;;; ret (Some e2) else ret None
             | [] => ret None
             end
    | [] =>
        match i_eq s with
        | (t2, e2) :: q2 => if (t2 <=? i_time s)%Z then put (set_eq q2 s) ;;; ret (Some e2) else ret None
        | [] => ret None
        end
    end.

  Fixpoint run_steps (fuel : nat) (steps : list microstep) : M (list microstep) :=
    match steps with
    | [] => ret []
    | st :: rest =>
        a <- apply_step st ;;
        ss <- stabilize fuel ;;
        r <- run_steps fuel rest ;;
        ret (a :: ss ++ r)
    end.

  Definition check_invariants (ev : option event) : M unit :=
    s <- get ;;
    iterM (fun n => match state_for sc n with
                    | Some st => state_contract CInv st ev
                    | None => fail EStatechart
                    end)
          (configuration sc (i_config s)).

  Definition execute_once (fuel : nat) (now : Z) : M (option macrostep) :=
    modify (fun s => set_sent [] (set_time now s)) ;;;
    raise_meta (MStepStarted now) ;;;
    steps <- compute_steps ;;
    macro <- match steps with
             | [] => ret None
             | first :: _ =>
                 (match ms_event first with
                  | Some _ =>
                      e <- consume_event ;;
                      match e with
                      | Some ev => raise_meta (MConsumed ev)
                      | None => fail EStatechart   (* MetaEvent(event=None): cannot happen *)
                      end
                  | None => ret tt
                  end) ;;;
                 executed <- run_steps fuel steps ;;
                 s <- get ;;
                 ret (Some (i_time s, executed))
             end ;;
    check_invariants (match macro with Some (_, ex) => macro_event ex | None => None end) ;;;
    raise_meta MStepEnded ;;;
    ret macro.

  (* execute(): repeat execute_once until it returns None (the clock is read at every call) *)
  Fixpoint execute (fuel : nat) (now : Z) : M (list macrostep) :=
    match fuel with
    | O => fail EFuel
    | S f =>
        m <- execute_once fuel now ;;
        match m with
        | None => ret []
        | Some ms => r <- execute f now ;; ret (ms :: r)
        end
    end.

  (* queue(): external events *)
  Definition queue (e : event) : M unit := modify (fun s => queue_event s e).

End Interp.

Arguments mkM {ctx X}. Arguments m_i {ctx X}. Arguments m_x {ctx X}. Arguments m_tr {ctx X}.
Arguments old_lookup {ctx}. Arguments old_set {ctx}.
