(* Base.v -- strings, Python-style dictionaries/sets as lists, stable sort, sorted_groupby.

   Python objects modelled here (behaviour assumed, see DESIGN.md section 7):
     str ordering (code points = UTF-8 byte order), dict (insertion ordered), set (a list in
     arbitrary order), sorted() (stable), sismic.utilities.sorted_groupby. *)
From Coq Require Export String Ascii List Bool ZArith NArith.
Export ListNotations.
Open Scope string_scope.
Open Scope list_scope.

(* strings given as a list of bytes (used by the harness for non-printable/unicode text) *)
Definition bs (l : list N) : string :=
  fold_right (fun n s => String (ascii_of_N n) s) EmptyString l.

Definition name := string.

Definition str_eqb := String.eqb.
Definition str_leb := String.leb.
Definition str_ltb := String.ltb.

Definition opt_eqb {A} (eqb : A -> A -> bool) (a b : option A) : bool :=
  match a, b with
  | None, None => true
  | Some x, Some y => eqb x y
  | _, _ => false
  end.

Fixpoint list_eqb {A} (eqb : A -> A -> bool) (a b : list A) : bool :=
  match a, b with
  | [], [] => true
  | x :: a', y :: b' => eqb x y && list_eqb eqb a' b'
  | _, _ => false
  end.

Definition pair_eqb {A B} (ea : A -> A -> bool) (eb : B -> B -> bool) (a b : A * B) : bool :=
  ea (fst a) (fst b) && eb (snd a) (snd b).

(* ---- membership / sets of names ---- *)
Fixpoint mem (x : name) (l : list name) : bool :=
  match l with [] => false | y :: l' => str_eqb x y || mem x l' end.

Fixpoint dedup (l : list name) : list name :=
  match l with [] => [] | x :: r => if mem x r then dedup r else x :: dedup r end.

Definition set_add (x : name) (l : list name) : list name := if mem x l then l else l ++ [x].

Fixpoint remove_first (x : name) (l : list name) : list name :=
  match l with [] => [] | y :: l' => if str_eqb x y then l' else y :: remove_first x l' end.

(* ---- dictionaries keyed by strings (insertion ordered, as Python dict) ---- *)
Fixpoint lookup {V} (k : name) (d : list (name * V)) : option V :=
  match d with
  | [] => None
  | (k', v) :: d' => if str_eqb k k' then Some v else lookup k d'
  end.

(* d[k] = v : keeps the position of an existing key, appends a new one *)
Fixpoint dset {V} (k : name) (v : V) (d : list (name * V)) : list (name * V) :=
  match d with
  | [] => [(k, v)]
  | (k', v') :: d' => if str_eqb k k' then (k, v) :: d' else (k', v') :: dset k v d'
  end.

Fixpoint dremove {V} (k : name) (d : list (name * V)) : list (name * V) :=
  match d with
  | [] => []
  | (k', v') :: d' => if str_eqb k k' then d' else (k', v') :: dremove k d'
  end.

(* ---- sorted(): stable insertion sort ---- *)
Section Sort.
  Context {A : Type} (leb : A -> A -> bool).
  Fixpoint insert (x : A) (l : list A) : list A :=
    match l with
    | [] => [x]
    | y :: l' => if leb x y then x :: l else y :: insert x l'
    end.
  Fixpoint sort (l : list A) : list A :=
    match l with [] => [] | x :: l' => insert x (sort l') end.
End Sort.

(* ---- sorted_groupby (sismic/utilities.py):
        groups = defaultdict(list); for v in iterable: groups[key(v)].append(v)
        return sorted(groups.items(), key=label, reverse=reverse) ---- *)
Section GroupBy.
  Context {A K : Type} (key : A -> K) (keqb : K -> K -> bool) (kleb : K -> K -> bool).
  Fixpoint group_add (k : K) (v : A) (g : list (K * list A)) : list (K * list A) :=
    match g with
    | [] => [(k, [v])]
    | (k', vs) :: g' => if keqb k k' then (k', vs ++ [v]) :: g' else (k', vs) :: group_add k v g'
    end.
  Definition groups_of (l : list A) : list (K * list A) :=
    fold_left (fun g v => group_add (key v) v g) l [].
  Definition sorted_groupby (reverse : bool) (l : list A) : list (K * list A) :=
    sort (fun a b => if reverse then kleb (fst b) (fst a) else kleb (fst a) (fst b)) (groups_of l).
End GroupBy.

Definition bool_leb (a b : bool) : bool := implb a b.   (* False < True *)

(* sort names lexicographically *)
Definition sort_names (l : list name) : list name := sort str_leb l.

(* lexicographic pairs (Z, name) as used for (depth, name) keys *)
Definition zn_leb (a b : Z * name) : bool :=
  (fst a <? fst b)%Z || ((fst a =? fst b)%Z && str_leb (snd a) (snd b)).

Fixpoint takeWhile {A} (p : A -> bool) (l : list A) : list A :=
  match l with [] => [] | x :: l' => if p x then x :: takeWhile p l' else [] end.

Fixpoint insert_at {A} (n : nat) (x : A) (l : list A) : list A :=
  match n, l with
  | O, _ => x :: l
  | S n', [] => [x]          (* list.insert beyond the end appends *)
  | S n', y :: l' => y :: insert_at n' x l'
  end.

Fixpoint index_of (x : name) (l : list name) : option nat :=
  match l with
  | [] => None
  | y :: l' => if str_eqb x y then Some O else option_map S (index_of x l')
  end.
