(* RunnerCorr.v -- evaluation of the C20 correspondence cases (run by the harness with vm_compute)
   and the decidable checker Pb_C20 evaluated on the IMPLEMENTATION's history.

   A case = chart kind, execute_all, client script, the complete schedule that was replayed on real
   threads, the trace (labels) and the final shared state observed on the real AsyncRunner/Interpreter.
   check_case returns a number:
       bit 0 (1)  : model trace (code as it is, cf_atomic=false) <> implementation trace
       bit 1 (2)  : model final state <> implementation final state
       bits 4..   : 16   * Pb mask of the implementation trace
                    4096 * Pb mask of the model trace with bisect+insert made atomic (same schedule)
                    2^20 * Pb mask of the model trace (code as it is)
   Pb mask bits: 1 report, 2 hooks, 4 pause, 8 stop, 16 final, 32 events, 64 liveness (complete runs).
   Only non-zero results are printed, as (index, mask) pairs. *)
From Coq Require Import List ZArith NArith Bool Arith.
From Sismic Require Import Runner.
Import ListNotations.

(* ------------------------------------------------------------------------------------------ *)
(* decidable equalities                                                                        *)
(* ------------------------------------------------------------------------------------------ *)
Definition oev_eqb (a b : option ev) : bool :=
  match a, b with Some x, Some y => ev_eqb x y | None, None => true | _, _ => false end.

Definition mstep_eqb (a b : mstep) : bool :=
  match a, b with
  | MInit, MInit => true
  | MEv e p, MEv e' p' => ev_eqb e e' && oev_eqb p p'
  | _, _ => false
  end.

Fixpoint list_eqb {A : Type} (f : A -> A -> bool) (xs ys : list A) : bool :=
  match xs, ys with
  | [], [] => true
  | x :: xs', y :: ys' => f x y && list_eqb f xs' ys'
  | _, _ => false
  end.

Definition call_eqb (a b : call) : bool :=
  match a, b with
  | CStart, CStart | CPause, CPause | CUnpause, CUnpause | CStop, CStop => true
  | CQueue e, CQueue e' => ev_eqb e e'
  | CClock t, CClock t' => Z.eqb t t'
  | _, _ => false
  end.

Definition outcome_eqb (a b : outcome) : bool :=
  match a, b with OK, OK | ErrRuntime, ErrRuntime | ErrValue, ErrValue => true | _, _ => false end.

Definition peekres_eqb (a b : peekres) : bool :=
  match a, b with
  | PkInit, PkInit | PkNone, PkNone => true
  | PkSome e, PkSome e' => ev_eqb e e'
  | _, _ => false
  end.

Definition ract_eqb (a b : ract) : bool :=
  match a, b with
  | ABeforeRun, ABeforeRun | ABeforeExec, ABeforeExec | AStopSet, AStopSet | AAfterRun, AAfterRun => true
  | AWait x, AWait y | ATestFinal x, ATestFinal y | ATestStop x, ATestStop y => Bool.eqb x y
  | AExTime x, AExTime y => Z.eqb x y
  | AExPeek x, AExPeek y => peekres_eqb x y
  | AExPop e p, AExPop e' p' => ev_eqb e e' && oev_eqb p p'
  | AAfterExec l, AAfterExec l' => list_eqb mstep_eqb l l'
  | _, _ => false
  end.

Definition cact_eqb (a b : cact) : bool :=
  match a, b with
  | AStartIsStop x, AStartIsStop y | AStartAlive x, AStartAlive y | AStartThread x, AStartThread y
  | AStopAlive x, AStopAlive y | AStopJoin x, AStopJoin y => Bool.eqb x y
  | AStartSet, AStartSet | APauseClear, APauseClear | AUnpauseSet, AUnpauseSet
  | AStopSetStop, AStopSetStop | AStopSetUnp, AStopSetUnp => true
  | AQIdx e k i, AQIdx e' k' i' | AQIns e k i, AQIns e' k' i' => ev_eqb e e' && Z.eqb k k' && Nat.eqb i i'
  | AClockSet t o, AClockSet t' o' => Z.eqb t t' && Bool.eqb o o'
  | _, _ => false
  end.

Definition tid_eqb (a b : tid) : bool :=
  match a, b with TRun, TRun => true | TCli x, TCli y => Nat.eqb x y | _, _ => false end.

Definition titem_eqb (a b : titem) : bool :=
  match a, b with
  | TSkip x, TSkip y => tid_eqb x y
  | TR x, TR y => ract_eqb x y
  | TC c x, TC c' y => Nat.eqb c c' && cact_eqb x y
  | TCall c x, TCall c' y => Nat.eqb c c' && call_eqb x y
  | TRet c x o, TRet c' y o' => Nat.eqb c c' && call_eqb x y && outcome_eqb o o'
  | _, _ => false
  end.

(* ------------------------------------------------------------------------------------------ *)
(* Pb_C20 : a single pass over a history                                                      *)
(* ------------------------------------------------------------------------------------------ *)
(* an event known to the checker: key (due time), call index, the event *)
Definition pent := (Z * nat * ev)%type.

Record pb := mk_pb {
  p_bad : N;                    (* accumulated clause mask *)
  p_itime : Z;                  (* last value written to interpreter._time *)
  p_ncall : nat;                (* number of queue calls seen *)
  p_called : list pent;         (* queue calls entered (TCall), not yet popped *)
  p_inq : list pent;            (* queue calls returned (TRet), not yet popped *)
  p_snap : list pent;           (* p_inq at the latest before_execute, minus what was popped since *)
  p_popped : list nat;          (* ids popped so far *)
  p_cur : option (list mstep);  (* Some l inside a cycle: steps executed since before_execute *)
  p_nbr : nat;                  (* before_run calls *)
  p_nar : nat;                  (* after_run calls *)
  p_nrun : nat;                 (* runner hook/step items seen *)
  p_paused : option nat;        (* Some n: pause() returned, n cycles begun since *)
  p_stopret : bool;             (* stop() returned *)
  p_stopcall : bool;            (* stop() entered *)
  p_final : bool                (* the statechart became final *)
}.

Definition pb0 : pb := mk_pb 0 0 0 [] [] [] [] None 0 0 0 None false false false.

Definition bad (m : N) (p : pb) : pb :=
  mk_pb (N.lor (p_bad p) m) (p_itime p) (p_ncall p) (p_called p) (p_inq p) (p_snap p) (p_popped p)
        (p_cur p) (p_nbr p) (p_nar p) (p_nrun p) (p_paused p) (p_stopret p) (p_stopcall p) (p_final p).
Definition badif (c : bool) (m : N) (p : pb) : pb := if c then bad m p else p.

Definition B_report : N := 1.  Definition B_hooks : N := 2.  Definition B_pause : N := 4.
Definition B_stop : N := 8.    Definition B_final : N := 16. Definition B_events : N := 32.
Definition B_live : N := 64.

Definition rm_id (i : nat) (l : list pent) : list pent :=
  filter (fun x => negb (Nat.eqb (ev_id (snd x)) i)) l.
Definition has_id (i : nat) (l : list pent) : bool :=
  existsb (fun x => Nat.eqb (ev_id (snd x)) i) l.
Definition find_id (i : nat) (l : list pent) : option pent :=
  find (fun x => Nat.eqb (ev_id (snd x)) i) l.

(* (k1, n1) strictly before (k2, n2) in (due time, call order) *)
Definition pent_lt (a b : pent) : bool :=
  let '(k1, n1, _) := a in let '(k2, n2, _) := b in
  Z.ltb k1 k2 || (Z.eqb k1 k2 && Nat.ltb n1 n2).

(* any runner item: hooks clause bookkeeping (nothing before before_run, nothing after after_run,
   nothing after stop() returned) *)
Definition runner_item (is_first_ok : bool) (p : pb) : pb :=
  let p1 := badif (negb is_first_ok && Nat.eqb (p_nbr p) 0) B_hooks p in
  let p2 := badif (negb (Nat.eqb (p_nar p) 0)) B_hooks p1 in
  let p3 := badif (p_stopret p) B_stop p2 in
  mk_pb (p_bad p3) (p_itime p3) (p_ncall p3) (p_called p3) (p_inq p3) (p_snap p3) (p_popped p3)
        (p_cur p3) (p_nbr p3) (p_nar p3) (S (p_nrun p3)) (p_paused p3) (p_stopret p3) (p_stopcall p3) (p_final p3).

(* execute_once returned the macro step m on the runner thread *)
Definition exec_step (ch : chart) (m : mstep) (p : pb) : pb :=
  let p1 := match p_cur p with
            | None => bad B_report p          (* a macro step outside before_execute/after_execute *)
            | Some _ => p
            end in
  let cur' := match p_cur p with Some l => Some (l ++ [m]) | None => None end in
  let fin' := p_final p || match m, ch with
                           | MInit, ChInitFinal => true
                           | MEv e _, ChFin => ev_fin e
                           | _, _ => false
                           end in
  mk_pb (p_bad p1) (p_itime p1) (p_ncall p1) (p_called p1) (p_inq p1) (p_snap p1) (p_popped p1)
        cur' (p_nbr p1) (p_nar p1) (p_nrun p1) (p_paused p1) (p_stopret p1) (p_stopcall p1) fin'.

(* the runner popped p_ev from the queue while processing a step computed for e *)
Definition pop_event (e : ev) (po : option ev) (p : pb) : pb :=
  match po with
  | None => bad B_events p                   (* a step for e consumed nothing *)
  | Some q =>
      let i := ev_id q in
      let p1 := badif (negb (ev_eqb e q)) B_events p in                 (* processed <> consumed *)
      let p2 := badif (existsb (Nat.eqb i) (p_popped p)) B_events p1 in (* consumed twice *)
      let p3 := match find_id i (p_called p) with
                | None => bad B_events p2                                (* never queued *)
                | Some me =>
                    (* an event that was completely queued before this cycle began and is strictly
                       earlier in (due time, call order) must not still be waiting *)
                    badif (existsb (fun x => pent_lt x me) (rm_id i (p_snap p))) B_events p2
                end in
      mk_pb (p_bad p3) (p_itime p3) (p_ncall p3) (rm_id i (p_called p3)) (rm_id i (p_inq p3))
            (rm_id i (p_snap p3)) (i :: p_popped p3) (p_cur p3) (p_nbr p3) (p_nar p3) (p_nrun p3)
            (p_paused p3) (p_stopret p3) (p_stopcall p3) (p_final p3)
  end.

Definition pb_item (ch : chart) (all : bool) (atomic : bool) (p : pb) (it : titem) : pb :=
  match it with
  | TSkip _ => p
  | TR a =>
      match a with
      | ABeforeRun =>
          let p1 := runner_item true p in
          let p2 := badif (negb (Nat.eqb (p_nrun p) 0)) B_hooks p1 in    (* not the first action *)
          mk_pb (p_bad p2) (p_itime p2) (p_ncall p2) (p_called p2) (p_inq p2) (p_snap p2) (p_popped p2)
                (p_cur p2) (S (p_nbr p2)) (p_nar p2) (p_nrun p2) (p_paused p2) (p_stopret p2) (p_stopcall p2) (p_final p2)
      | AAfterRun =>
          let p1 := runner_item false p in
          let p2 := badif (match p_cur p with Some _ => true | None => false end) B_hooks p1 in
          mk_pb (p_bad p2) (p_itime p2) (p_ncall p2) (p_called p2) (p_inq p2) (p_snap p2) (p_popped p2)
                (p_cur p2) (p_nbr p2) (S (p_nar p2)) (p_nrun p2) (p_paused p2) (p_stopret p2) (p_stopcall p2) (p_final p2)
      | ABeforeExec =>
          let p1 := runner_item false p in
          let p2 := badif (match p_cur p with Some _ => true | None => false end) B_report p1 in
          let p3 := badif (p_final p) B_final p2 in                      (* a cycle begins although final *)
          let '(p4, paused') := match p_paused p3 with
                                | Some n => (badif (Nat.leb 1 n) B_pause p3, Some (S n))
                                | None => (p3, None)
                                end in
          mk_pb (p_bad p4) (p_itime p4) (p_ncall p4) (p_called p4) (p_inq p4) (p_inq p4) (p_popped p4)
                (Some []) (p_nbr p4) (p_nar p4) (p_nrun p4) paused' (p_stopret p4) (p_stopcall p4) (p_final p4)
      | AAfterExec l =>
          let p1 := runner_item false p in
          let p2 := match p_cur p with
                    | None => bad B_report p1
                    | Some cur => badif (negb (list_eqb mstep_eqb l cur)) B_report p1
                    end in
          let p3 := badif (negb all && Nat.ltb 1 (length l)) B_report p2 in
          mk_pb (p_bad p3) (p_itime p3) (p_ncall p3) (p_called p3) (p_inq p3) (p_snap p3) (p_popped p3)
                None (p_nbr p3) (p_nar p3) (p_nrun p3) (p_paused p3) (p_stopret p3) (p_stopcall p3) (p_final p3)
      | AExTime t =>
          let p1 := runner_item false p in
          mk_pb (p_bad p1) t (p_ncall p1) (p_called p1) (p_inq p1) (p_snap p1) (p_popped p1)
                (p_cur p1) (p_nbr p1) (p_nar p1) (p_nrun p1) (p_paused p1) (p_stopret p1) (p_stopcall p1) (p_final p1)
      | AExPeek PkInit => exec_step ch MInit (runner_item false p)
      | AExPeek PkNone =>
          (* execute_once found nothing to do: no completely queued event may be due *)
          let p1 := runner_item false p in
          badif (existsb (fun x => Z.leb (fst (fst x)) (p_itime p1)) (p_snap p1)) B_events p1
      | AExPeek (PkSome _) => runner_item false p
      | AExPop e po => exec_step ch (MEv e po) (pop_event e po (runner_item false p))
      | AWait _ | ATestFinal _ | ATestStop _ | AStopSet => runner_item false p
      end
  | TC _ _ => p
  | TCall _ op =>
      let p1 := match op with
                | CQueue e =>
                    let ent := ((p_itime p + ev_delay e)%Z, p_ncall p, e) in
                    let p0 := badif (has_id (ev_id e) (p_called p) || existsb (Nat.eqb (ev_id e)) (p_popped p))
                                    B_events p in   (* ids must be distinct: harness error otherwise *)
                    mk_pb (p_bad p0) (p_itime p0) (S (p_ncall p0)) (p_called p0 ++ [ent])
                          (if atomic then p_inq p0 ++ [ent] else p_inq p0) (p_snap p0) (p_popped p0)
                          (p_cur p0) (p_nbr p0) (p_nar p0) (p_nrun p0) (p_paused p0) (p_stopret p0) (p_stopcall p0) (p_final p0)
                | CUnpause | CStart =>
                    mk_pb (p_bad p) (p_itime p) (p_ncall p) (p_called p) (p_inq p) (p_snap p) (p_popped p)
                          (p_cur p) (p_nbr p) (p_nar p) (p_nrun p) None (p_stopret p) (p_stopcall p) (p_final p)
                | CStop =>
                    mk_pb (p_bad p) (p_itime p) (p_ncall p) (p_called p) (p_inq p) (p_snap p) (p_popped p)
                          (p_cur p) (p_nbr p) (p_nar p) (p_nrun p) None (p_stopret p) true (p_final p)
                | _ => p
                end in p1
  | TRet _ op o =>
      match op, o with
      | CQueue e, OK =>
          match find_id (ev_id e) (p_called p) with
          | Some ent =>
              if atomic then p else
              mk_pb (p_bad p) (p_itime p) (p_ncall p) (p_called p) (p_inq p ++ [ent]) (p_snap p) (p_popped p)
                    (p_cur p) (p_nbr p) (p_nar p) (p_nrun p) (p_paused p) (p_stopret p) (p_stopcall p) (p_final p)
          | None => p    (* already consumed (atomic insertion) *)
          end
      | CPause, OK =>
          mk_pb (p_bad p) (p_itime p) (p_ncall p) (p_called p) (p_inq p) (p_snap p) (p_popped p)
                (p_cur p) (p_nbr p) (p_nar p) (p_nrun p) (Some 0%nat) (p_stopret p) (p_stopcall p) (p_final p)
      | CStop, _ =>
          mk_pb (p_bad p) (p_itime p) (p_ncall p) (p_called p) (p_inq p) (p_snap p) (p_popped p)
                (p_cur p) (p_nbr p) (p_nar p) (p_nrun p) (p_paused p) true (p_stopcall p) (p_final p)
      | _, _ => p
      end
  end.

(* end of a COMPLETE history (every thread has ended or is blocked for ever):
   the runner, if it ever ran, called before_run and after_run exactly once and left no cycle open;
   stop() returned if it was entered; everything executed was handed over.
   drained = the run waited until the queue was empty before stopping (stress runs): every queued
   event must then have been consumed. *)
Definition pb_end (complete drained : bool) (p : pb) : pb :=
  if complete then
    let ran := negb (Nat.eqb (p_nrun p) 0) in
    let p1 := badif (ran && negb (Nat.eqb (p_nbr p) 1 && Nat.eqb (p_nar p) 1)) B_hooks p in
    let p2 := badif (Nat.ltb 1 (p_nbr p) || Nat.ltb 1 (p_nar p)) B_hooks p1 in
    let p3 := badif (match p_cur p with Some _ => true | None => false end) B_report p2 in
    let p4 := badif (p_stopcall p && negb (p_stopret p)) B_live p3 in
    let p5 := badif (ran && p_final p && Nat.eqb (p_nar p) 0) B_live p4 in
    badif (drained && negb (match p_called p with [] => true | _ => false end)) B_events p5
  else badif (Nat.ltb 1 (p_nbr p) || Nat.ltb 1 (p_nar p)) B_hooks p.

Definition Pb_C20_mask (ch : chart) (all atomic complete drained : bool) (tr : list titem) : N :=
  p_bad (pb_end complete drained (fold_left (pb_item ch all atomic) tr pb0)).

Definition Pb_C20 (ch : chart) (all atomic complete drained : bool) (tr : list titem) : bool :=
  N.eqb (Pb_C20_mask ch all atomic complete drained tr) 0.

(* ------------------------------------------------------------------------------------------ *)
(* Cases                                                                                      *)
(* ------------------------------------------------------------------------------------------ *)
(* observable final state: flags, alive, clock, _time, queue, _initialized, final *)
Record fstate := mk_fstate {
  f_unp : bool; f_stop : bool; f_alive : bool; f_clock : Z; f_itime : Z;
  f_queue : list (Z * ev); f_init : bool; f_fin : bool
}.

Definition qent_eqb (a b : Z * ev) : bool := Z.eqb (fst a) (fst b) && ev_eqb (snd a) (snd b).

Definition fstate_of (s : state) : fstate :=
  mk_fstate (s_unp s) (s_stop s) (s_alive s) (s_clock s) (s_itime s) (s_queue s) (s_init s) (s_fin s).

Definition fstate_eqb (a b : fstate) : bool :=
  Bool.eqb (f_unp a) (f_unp b) && Bool.eqb (f_stop a) (f_stop b) && Bool.eqb (f_alive a) (f_alive b) &&
  Z.eqb (f_clock a) (f_clock b) && Z.eqb (f_itime a) (f_itime b) &&
  list_eqb qent_eqb (f_queue a) (f_queue b) && Bool.eqb (f_init a) (f_init b) && Bool.eqb (f_fin a) (f_fin b).

Record rcase := mk_rcase {
  rc_chart : chart;
  rc_all : bool;
  rc_script : list call;
  rc_sched : list tid;
  rc_complete : bool;            (* the replay ran until every thread ended *)
  rc_trace : list titem;         (* observed on the real threads *)
  rc_final : fstate              (* observed on the real objects *)
}.

Definition check_case (c : rcase) : N :=
  let cf := mk_config (rc_chart c) (rc_all c) false (rc_script c) in
  let cfa := mk_config (rc_chart c) (rc_all c) true (rc_script c) in
  let '(s, tr) := run_schedule cf (rc_sched c) in
  let '(_, tra) := run_schedule cfa (rc_sched c) in
  ((if list_eqb titem_eqb tr (rc_trace c) then 0 else 1) +
   (if fstate_eqb (fstate_of s) (rc_final c) then 0 else 2) +
   16 * Pb_C20_mask (rc_chart c) (rc_all c) false (rc_complete c) false (rc_trace c) +
   4096 * Pb_C20_mask (rc_chart c) (rc_all c) true false false tra +
   1048576 * Pb_C20_mask (rc_chart c) (rc_all c) false false false tr)%N.

Fixpoint check_from (i : N) (cs : list rcase) : list (N * N) :=
  match cs with
  | [] => []
  | c :: cs' =>
      let r := check_case c in
      if N.eqb r 0 then check_from (N.succ i) cs' else (i, r) :: check_from (N.succ i) cs'
  end.

Definition check_cases (cs : list rcase) : list (N * N) := check_from 0%N cs.

(* histories of ungated (stress) runs: only Pb is evaluated *)
Record hcase := mk_hcase {
  hc_chart : chart; hc_all : bool; hc_drained : bool; hc_trace : list titem
}.

Fixpoint hcheck_from (i : N) (cs : list hcase) : list (N * N) :=
  match cs with
  | [] => []
  | c :: cs' =>
      let r := Pb_C20_mask (hc_chart c) (hc_all c) false true (hc_drained c) (hc_trace c) in
      if N.eqb r 0 then hcheck_from (N.succ i) cs' else (i, r) :: hcheck_from (N.succ i) cs'
  end.

Definition hcheck_cases (cs : list hcase) : list (N * N) := hcheck_from 0%N cs.

(* print the model's trace of a schedule (used by the replay command) *)
Definition model_trace (ch : chart) (all atomic : bool) (script : list call) (sched : list tid) :=
  snd (run_schedule (mk_config ch all atomic script) sched).
