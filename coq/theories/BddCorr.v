(* BddCorr.v -- evaluation of BDD correspondence cases (run by harness/c19.py with vm_compute).

   A case is one scenario of a generated feature file, given as TEXT (the lines of the feature
   file, with their Gherkin tables).  The model turns the text into steps with its own pattern
   matcher over the pattern list extracted from sismic/bdd/steps.py (GeneratedSteps.patterns),
   runs environment.py + steps.py over a REPLAY interpreter -- the results of the successive
   interpreter.execute() calls and the interpreter state after each of them, as produced by a
   plain sismic Interpreter driven by the harness -- and compares
     bit 1    the per-step statuses of the model with those reported by behave (exact status)
     bit 2    the same, projected to passed / not passed / skipped
     bit 4    fact_b (declarative meaning, on the harness' block of macro steps) with behave's
              verdict for every then step behave executed (states known, no hook error)
     bit 8    fact_b with the truth value computed by the Python oracle
     bit 16   the interpreter operations the model performs (queue / clock / execute) with the
              operations recorded from the interpreter behave drove
     bit 32   the model executed a different number of times than the oracle run
     bit 64   a line of the feature could not be decoded by the model (dispatch / literal reader)
     bit 128  the monitored trace of the model at a then step differs from the oracle's block. *)
From Coq Require Import QArith NArith.
From Sismic Require Import Base Chart Interp Bdd.
Open Scope string_scope.
Open Scope list_scope.

Record snap := mkSnap {
  sn_config : list name;
  sn_final : bool;
  sn_ctx : list (name * value);
  sn_evals : list (string * option bool)     (* expression -> truth value, None = raised *)
}.
Definition snap0 : snap := mkSnap [] false [] [].

Inductive op := OQueue (e : event) | OAdvance (q : Q) | OExecute.
Definition op_eqb (a b : op) : bool :=
  match a, b with
  | OQueue x, OQueue y => event_eqb x y
  | OAdvance x, OAdvance y => Qeq_bool x y
  | OExecute, OExecute => true
  | _, _ => false
  end.

Record rinterp := mkR {
  r_script : list (option (list macrostep) * snap);   (* results of the execute() calls still to come *)
  r_cur : snap;                                       (* interpreter state now *)
  r_log : list op;                                    (* operations so far, most recent first *)
  r_under : bool                                      (* execute() called more often than scripted *)
}.

Definition r_queue (e : event) (r : rinterp) : rinterp :=
  mkR (r_script r) (r_cur r) (OQueue e :: r_log r) (r_under r).
Definition r_advance (q : Q) (r : rinterp) : rinterp :=
  mkR (r_script r) (r_cur r) (OAdvance q :: r_log r) (r_under r).
Definition r_execute (r : rinterp) : rinterp * option (list macrostep) :=
  match r_script r with
  | [] => (mkR [] (r_cur r) (OExecute :: r_log r) true, Some [])
  | (res, s) :: rest => (mkR rest s (OExecute :: r_log r) (r_under r), res)
  end.
Definition r_config (r : rinterp) := sn_config (r_cur r).
Definition r_final (r : rinterp) := sn_final (r_cur r).
Definition r_ctx (r : rinterp) := sn_ctx (r_cur r).
Definition r_eval (r : rinterp) (e : string) : option bool :=
  match lookup e (sn_evals (r_cur r)) with Some x => x | None => None end.

(* ---- feature files as text ---- *)
Definition line := (stype * string * ptable)%type.
Definition tscenario := (string * list line)%type.

Fixpoint decode_lines (ci : bool) (defs : list stepdef) (ls : list line) : option (list step) :=
  match ls with
  | [] => Some []
  | (ty, text, tbl) :: r =>
      match step_of_text ci defs ty text tbl, decode_lines ci defs r with
      | Some s, Some l => Some (s :: l)
      | _, _ => None
      end
  end.

Fixpoint decode_feature (ci : bool) (defs : list stepdef) (f : list tscenario) : option feature :=
  match f with
  | [] => Some []
  | (n, ls) :: r =>
      match decode_lines ci defs ls, decode_feature ci defs r with
      | Some s, Some l => Some ((n, s) :: l)
      | _, _ => None
      end
  end.

Record thendata := mkTD {
  td_block : list macrostep;      (* the oracle's block of macro steps at this then step *)
  td_fact : option bool           (* the oracle's truth value; None = no opinion *)
}.

Record bcase := mkCase {
  bc_states : list name;
  bc_feature : list tscenario;
  bc_name : string;                                    (* the scenario under test *)
  bc_script : list (option (list macrostep) * snap);
  bc_thens : list thendata;                            (* one per then step, in order *)
  bc_behave : list status;
  bc_ops : option (list op)                            (* chronological *)
}.

Definition macro_eqb (a b : macrostep) : bool :=
  Z.eqb (fst a) (fst b) && list_eqb micro_eqb (snd a) (snd b).

Definition coarse (s : status) : N :=
  match s with Passed => 0 | Skipped => 2 | _ => 1 end%N.

Section Run.
  Variable states : list name.
  Let FactB := fact_b rinterp r_config r_final r_ctx r_eval.

  (* run_steps of Bdd.v, additionally observing at every executed then step:
       (behave status of that step, fact_b agrees with it, fact_b agrees with the oracle,
        the model's monitored trace is the oracle's block) as mismatch bits *)
  Fixpoint run_obs (fuel : nat) (feat : feature) (steps : list step) (c : ctx rinterp) (ok : bool)
           (thens : list thendata) (behave : list status) : option (list status * N * ctx rinterp) :=
    match steps with
    | [] => Some ([], 0%N, c)
    | s :: r =>
        let bst := match behave with b :: _ => Some b | [] => None end in
        let behave' := match behave with _ :: b => b | [] => [] end in
        let thens' := match s, thens with SThen _, _ :: t => t | _, _ => thens end in
        let bits :=
          match s, thens with
          | SThen t, td :: _ =>
              let fb := FactB t (td_block td) (c_interp c) in
              let b4 := match bst with
                        | Some b =>
                            match b with
                            | Skipped | HookError => 0
                            | _ => if states_ok states t
                                   then (if Bool.eqb fb (is_passed b) then 0 else 4)
                                   else (if is_passed b then 4 else 0)
                            end
                        | None => 0
                        end%N in
              let b8 := match td_fact td with
                        | Some o => if states_ok states t then (if Bool.eqb fb o then 0 else 8) else 0
                        | None => 0
                        end%N in
              let b128 := match c_trace c with
                          | Some tr => if list_eqb macro_eqb tr (td_block td) then 0 else 128
                          | None => 0
                          end%N in
              (N.lor b4 (N.lor b8 b128))
          | _, _ => 0%N
          end in
        if ok then
          match run_step rinterp r_queue r_advance r_execute r_config r_final r_ctx r_eval states fuel feat s c with
          | None => None
          | Some (c', st) =>
              match run_obs fuel feat r c' (is_passed st) thens' behave' with
              | None => None
              | Some (l, n, cf) => Some (st :: l, N.lor bits n, cf)
              end
          end
        else
          match run_obs fuel feat r c false thens' behave' with
          | None => None
          | Some (l, n, cf) => Some (Skipped :: l, n, cf)
          end
    end.
End Run.

Definition check_case (ci : bool) (defs : list stepdef) (c : bcase) : N :=
  match decode_feature ci defs (bc_feature c) with
  | None => 64%N
  | Some feat =>
      match find_scenario (bc_name c) feat with
      | None => 64%N
      | Some steps =>
          let i0 := mkR (bc_script c) snap0 [] false in
          match run_obs (bc_states c) 40 feat steps (ctx_init rinterp i0) true (bc_thens c) (bc_behave c) with
          | None => 64%N
          | Some (sts, bits, cf) =>
              let b1 := (if list_eqb status_eqb sts (bc_behave c) then 0 else 1)%N in
              let b2 := (if list_eqb N.eqb (map coarse sts) (map coarse (bc_behave c)) then 0 else 2)%N in
              let rf := c_interp cf in
              let b16 := (match bc_ops c with
                         | Some ops => if list_eqb op_eqb (rev (r_log rf)) ops then 0 else 16
                         | None => 0
                         end)%N in
              let b32 := (if r_under rf then 32
                         else match r_script rf with [] => 0 | _ => 32 end)%N in
              (b1 + b2 + bits + b16 + b32)%N
          end
      end
  end.

Fixpoint check_from (ci : bool) (defs : list stepdef) (i : N) (cs : list bcase) : list (N * N) :=
  match cs with
  | [] => []
  | c :: cs' =>
      let r := check_case ci defs c in
      if N.eqb r 0 then check_from ci defs (N.succ i) cs' else (i, r) :: check_from ci defs (N.succ i) cs'
  end.

Definition check_cases (ci : bool) (defs : list stepdef) (cs : list bcase) : list (N * N) :=
  check_from ci defs 0%N cs.

(* ---- matcher correspondence: (step type, text) -> what behave's registry selected ---- *)
Record mcase := mkM {
  m_type : string;
  m_text : string;
  m_impl : option (string * list binding)      (* function name and matched arguments, None = undefined *)
}.

Definition bind_eqb (a b : binding) : bool := str_eqb (fst a) (fst b) && str_eqb (snd a) (snd b).
(* argument order is irrelevant (keyword arguments) *)
Definition binds_eqb (a b : list binding) : bool :=
  Nat.eqb (length a) (length b) &&
  forallb (fun x => match lookup (fst x) b with Some v => str_eqb v (snd x) | None => false end) a.

Definition check_m (ci : bool) (defs : list stepdef) (c : mcase) : N :=
  match dispatch ci defs (m_type c) (m_text c), m_impl c with
  | DMatch fn b, Some (fn', b') => if str_eqb fn fn' && binds_eqb b b' then 0 else 1
  | DUndefined, None => 0
  | DUnsupported _, _ => 2
  | _, _ => 1
  end%N.

Fixpoint check_m_from (ci : bool) (defs : list stepdef) (i : N) (cs : list mcase) : list (N * N) :=
  match cs with
  | [] => []
  | c :: cs' =>
      let r := check_m ci defs c in
      if N.eqb r 0 then check_m_from ci defs (N.succ i) cs' else (i, r) :: check_m_from ci defs (N.succ i) cs'
  end.
Definition check_mcases (ci : bool) (defs : list stepdef) (cs : list mcase) : list (N * N) :=
  check_m_from ci defs 0%N cs.

(* ---- sismic.testing predicates called directly on real macro steps ---- *)
Inductive tquery :=
| QEntered (n : name) | QExited (n : name)
| QFired (n : option name) (ps : list (name * value))
| QConsumed (n : option name) (ps : list (name * value))
| QProcessed (t : option nat).

Record tcase := mkT {
  t_classes : list nat;        (* index of a transition -> class of Transition.__eq__ *)
  t_block : list macrostep;
  t_query : tquery;
  t_impl : bool                (* what sismic.testing returned *)
}.

Definition class_of (cl : list nat) (i : nat) : nat := nth i cl i.

Definition check_t (c : tcase) : N :=
  let teq := fun a b => Nat.eqb (class_of (t_classes c) a) (class_of (t_classes c) b) in
  let m := match t_query c with
           | QEntered n => state_is_entered (t_block c) n
           | QExited n => state_is_exited (t_block c) n
           | QFired n ps => event_is_fired (t_block c) n ps
           | QConsumed n ps => event_is_consumed (t_block c) n ps
           | QProcessed t => transition_is_processed teq (t_block c) t
           end in
  if Bool.eqb m (t_impl c) then 0%N else 1%N.

Fixpoint check_t_from (i : N) (cs : list tcase) : list (N * N) :=
  match cs with
  | [] => []
  | c :: cs' =>
      let r := check_t c in
      if N.eqb r 0 then check_t_from (N.succ i) cs' else (i, r) :: check_t_from (N.succ i) cs'
  end.
Definition check_tcases (cs : list tcase) : list (N * N) := check_t_from 0%N cs.
