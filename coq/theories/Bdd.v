(* Bdd.v -- executable model of sismic/bdd/steps.py, sismic/bdd/environment.py and
   sismic/testing.py, together with the two behaviours of `behave` the property C19 depends on
   ("every step after the first failed one is skipped", "the first registered pattern that
   matches wins") and a matcher for `parse`-style step patterns.

   The interpreter is ABSTRACT: the model is a Section over an arbitrary state type I with
   queue / clock advance / execute (run to quiescence, returns the macro steps or raises) and
   the observers the predefined steps use (configuration, final, context, expression
   evaluation).  Every theorem of proofs/BddProofs.v quantifies over all of them.  The
   correspondence harness instantiates I with a replay of a real run (BddCorr.v).

   Sources transcribed (function by function, see the comment in front of each definition):
     sismic/testing.py              state_is_entered ... transition_is_processed
     sismic/model/steps.py          MacroStep.entered_states / exited_states / sent_events / event / transitions
     sismic/bdd/environment.py      before_scenario, before_step, after_step
     sismic/bdd/steps.py            all predefined steps
     behave/model.py  Step.run      hook order, status, keep_going   (third party: only what is used)
     behave/runner.py execute_steps nested steps run with their hooks; a failing sub-step fails the caller
     parse.Parser._generate_expression  {f} = (.+?)  {f:d}  {f:g}    (third party: only what is used)

   Not modelled: Gherkin parsing, formatters, Python's eval of literals (a small literal reader
   `py_literal` stands for it on plain literals), float rounding of `clock.time += seconds`
   (rationals here), Unicode case folding (ASCII only), attributes of Event other than
   name / data / the event parameters (dunder names are outside the domain). *)
From Coq Require Import QArith.
From Sismic Require Import Base Chart Interp.
Open Scope string_scope.
Open Scope list_scope.

(* ================================================================== Python values, == *)
(* bool is a subclass of int: True == 1, False == 0 *)
Definition py_norm (v : value) : value :=
  match v with VBool b => VInt (if b then 1 else 0)%Z | _ => v end.
Definition py_eqb (a b : value) : bool := value_eqb (py_norm a) (py_norm b).

(* ================================================================== MacroStep properties *)
(* MacroStep.entered_states: states = []; for step in self._steps: states += step.entered_states *)
Definition macro_entered (m : macrostep) : list name := flat_map ms_entered (snd m).
Definition macro_exited (m : macrostep) : list name := flat_map ms_exited (snd m).
Definition macro_sent (m : macrostep) : list event := flat_map ms_sent (snd m).
(* MacroStep.transitions: [step.transition for step in self._steps if step.transition] *)
Fixpoint macro_transitions (steps : list microstep) : list nat :=
  match steps with
  | [] => []
  | s :: r => match ms_trans s with Some t => t :: macro_transitions r | None => macro_transitions r end
  end.

(* ================================================================== sismic/testing.py *)
(* for step in steps: if name in step.entered_states: return True;  return False *)
Fixpoint state_is_entered (steps : list macrostep) (n : name) : bool :=
  match steps with
  | [] => false
  | s :: r => if mem n (macro_entered s) then true else state_is_entered r n
  end.

Fixpoint state_is_exited (steps : list macrostep) (n : name) : bool :=
  match steps with
  | [] => false
  | s :: r => if mem n (macro_exited s) then true else state_is_exited r n
  end.

(* getattr(event, key, None): `name` and `data` are real attributes, anything else goes through
   Event.__getattr__ (self.data[attr], AttributeError -> the default None) *)
Inductive attr := AVal (v : value) | ADict.
Definition event_attr (e : event) (k : name) : attr :=
  if str_eqb k "name" then AVal (VStr (e_name e))
  else if str_eqb k "data" then ADict
  else match lookup k (e_data e) with Some v => AVal v | None => AVal VNone end.
(* a dict is never equal to None / bool / int / str *)
Definition attr_eqb (a : attr) (v : value) : bool :=
  match a with AVal x => py_eqb x v | ADict => false end.

(* for key, value in parameters.items(): if getattr(event, key, None) != value: False, break *)
Fixpoint params_match (e : event) (ps : list (name * value)) : bool :=
  match ps with
  | [] => true
  | (k, v) :: r => if negb (attr_eqb (event_attr e k) v) then false else params_match e r
  end.

Definition name_matches (n : option name) (e : event) : bool :=
  match n with None => true | Some x => str_eqb (e_name e) x end.

(* inner loop of event_is_fired over step.sent_events *)
Fixpoint fired_among (evs : list event) (n : option name) (ps : list (name * value)) : bool :=
  match evs with
  | [] => false
  | e :: r => if name_matches n e then (if params_match e ps then true else fired_among r n ps)
              else fired_among r n ps
  end.

Fixpoint event_is_fired (steps : list macrostep) (n : option name) (ps : list (name * value)) : bool :=
  match steps with
  | [] => false
  | s :: r => if fired_among (macro_sent s) n ps then true else event_is_fired r n ps
  end.

(* event_is_consumed: if step.event is None: continue; ... (MacroStep.event = Interp.macro_event) *)
Fixpoint event_is_consumed (steps : list macrostep) (n : option name) (ps : list (name * value)) : bool :=
  match steps with
  | [] => false
  | s :: r =>
      match macro_event (snd s) with
      | None => event_is_consumed r n ps
      | Some e => if name_matches n e then (if params_match e ps then true else event_is_consumed r n ps)
                  else event_is_consumed r n ps
      end
  end.

(* transition_is_processed: transitions are indices into statechart.transitions;
   `transition in step.transitions` uses Transition.__eq__ (structural), given here as teq *)
Fixpoint transition_is_processed (teq : nat -> nat -> bool) (steps : list macrostep) (t : option nat) : bool :=
  match steps with
  | [] => false
  | s :: r =>
      match t with
      | None => if (0 <? length (macro_transitions (snd s)))%nat then true
                else transition_is_processed teq r t
      | Some x => if existsb (teq x) (macro_transitions (snd s)) then true
                  else transition_is_processed teq r t
      end
  end.

(* steps.py no_event_is_fired:  for macrostep in trace: if len(macrostep.sent_events) > 0: assert False *)
Fixpoint no_event_is_fired (steps : list macrostep) : bool :=
  match steps with
  | [] => true
  | s :: r => if (0 <? length (macro_sent s))%nat then false else no_event_is_fired r
  end.

(* ================================================================== the predefined steps *)
Inductive gw := Given | When.             (* step.step_type of an action step *)
Definition gw_eqb (a b : gw) : bool :=
  match a, b with Given, Given | When, When => true | _, _ => false end.

Definition ptable := list (name * value). (* rows of a | parameter | value | table, already eval'ed *)

Inductive action :=
| ANothing                                                   (* I do nothing *)
| AReproduce (scenario : string)                             (* I reproduce "{scenario}" *)
| ARepeat (a : action) (n : nat)                             (* I repeat "{step}" {repeat:d} times *)
| ASend (ev : name) (table : ptable) (inline : option (name * value))
                                                             (* I send event {name} [with {parameter}={value}] *)
| AWait (seconds : Q).                                       (* I wait {seconds:g} second[s] *)

Inductive assertion :=
| TEntered (n : name) | TNotEntered (n : name)
| TExited (n : name) | TNotExited (n : name)
| TActive (n : name) | TNotActive (n : name)
| TFired (ev : name) (table : ptable) (inline : option (name * value))
| TNotFired (ev : name)
| TNoEvent
| TVarEq (x : name) (v : value) | TVarNe (x : name) (v : value)
| TExprHolds (c : string) | TExprNotHolds (c : string)
| TFinal | TNotFinal.

Inductive step := SAct (k : gw) (a : action) | SThen (t : assertion).
Definition scenario := (string * list step)%type.      (* name, steps *)
Definition feature := list scenario.

(* behave step status (1.3.x): failed = AssertionError, error = any other exception raised by the
   step function, hook_error = before_step / after_step raised, skipped = not run *)
Inductive status := Passed | Failed | Error | HookError | Skipped.
Definition status_eqb (a b : status) : bool :=
  match a, b with
  | Passed, Passed | Failed, Failed | Error, Error | HookError, HookError | Skipped, Skipped => true
  | _, _ => false
  end.
Definition is_passed (s : status) : bool := match s with Passed => true | _ => false end.
Definition of_bool (b : bool) : status := if b then Passed else Failed.

(* parameters = {}; for row in table: parameters[row.parameter] = value;
   if parameter and value: parameters[parameter] = value          (dict assignment = Base.dset) *)
Definition build_params (table : ptable) (inline : option (name * value)) : list (name * value) :=
  let d := fold_left (fun d kv => dset (fst kv) (snd kv) d) table [] in
  match inline with Some (k, v) => dset k v d | None => d end.

(* for included_scenario in feature.scenarios: if included_scenario.name == scenario: ... return *)
Fixpoint find_scenario (nm : string) (f : feature) : option (list step) :=
  match f with
  | [] => None
  | (n, steps) :: r => if str_eqb n nm then Some steps else find_scenario nm r
  end.

(* for step in included_scenario.steps: if step.step_type in ['given', 'when']: ... *)
Fixpoint actions_of (steps : list step) : list action :=
  match steps with
  | [] => []
  | SAct _ a :: r => a :: actions_of r
  | SThen _ :: r => actions_of r
  end.

Section Model.
  Variable I : Type.                                  (* state of the interpreter *)
  Variable i_queue : event -> I -> I.                 (* interpreter.queue(name, **parameters) *)
  Variable i_advance : Q -> I -> I.                   (* interpreter.clock.time += seconds (seconds >= 0) *)
  Variable i_execute : I -> I * option (list macrostep).  (* interpreter.execute(); None = it raised *)
  Variable i_config : I -> list name.                 (* interpreter.configuration *)
  Variable i_final : I -> bool.                       (* interpreter.final *)
  Variable i_ctx : I -> list (name * value).          (* interpreter.context *)
  Variable i_eval : I -> string -> option bool.       (* evaluator._evaluate_code(expr); None = raised *)
  Variable states : list name.                        (* statechart.states *)

  (* the behave context attributes set by environment.py *)
  Record ctx := mkCtx {
    c_interp : I;                              (* context.interpreter *)
    c_monitoring : bool;                       (* context._monitoring *)
    c_trace : option (list macrostep)          (* context.monitored_trace (None | list) *)
  }.

  (* before_scenario *)
  Definition ctx_init (i0 : I) : ctx := mkCtx i0 false None.

  Definition set_interp (c : ctx) (i : I) : ctx := mkCtx i (c_monitoring c) (c_trace c).

  (* after_step for a given / when step.  Second component: the hook did not raise.
       given: context.interpreter.execute()
       when:  macrosteps = context.interpreter.execute()
              if not context._monitoring: context._monitoring = True; context.monitored_trace = []
              context.monitored_trace.extend(macrosteps)                                      *)
  Definition after_step (k : gw) (c : ctx) : ctx * bool :=
    let '(i', r) := i_execute (c_interp c) in
    match r with
    | None => (set_interp c i', false)
    | Some ms =>
        match k with
        | Given => (set_interp c i', true)
        | When =>
            let tr := if c_monitoring c then c_trace c else Some [] in
            match tr with
            | Some l => (mkCtx i' true (Some (l ++ ms)), true)
            | None => (mkCtx i' true None, false)      (* None.extend: AttributeError (unreachable) *)
            end
        end
    end.

  (* One given/when step INCLUDING its hooks, as behave's Step.run does it:
       before_step (nothing for given/when); the step function; after_step (always, even when the
       step function failed); hook failure => hook_error.
     Nested steps (context.execute_steps) run the same way, with the caller's keyword; the first
     sub-step that does not pass makes execute_steps raise AssertionError => caller failed.
     fuel bounds the nesting depth (reproduce may refer to a scenario that reproduces ...);
     None = out of fuel (Python: RecursionError), outside the domain of the theorems. *)
  Fixpoint run_act (fuel : nat) (feat : feature) (k : gw) (a : action) (c : ctx) : option (ctx * status) :=
    match fuel with
    | O => None
    | S f =>
        let nested :=
          fix go (l : list action) (c : ctx) : option (ctx * status) :=
            match l with
            | [] => Some (c, Passed)
            | a' :: r =>
                match run_act f feat k a' c with
                | None => None
                | Some (c', s) => if is_passed s then go r c' else Some (c', Failed)
                end
            end in
        let body :=
          match a with
          | ANothing => Some (c, Passed)
          | AReproduce nm =>
              match find_scenario nm feat with
              | None => Some (c, Failed)                         (* assert False, 'Unknown scenario' *)
              | Some steps => nested (actions_of steps) c     (* each step re-issued with its table (_step_as_text) *)
              end
          | ARepeat a' n => nested (repeat a' n) c               (* for _ in range(repeat) *)
          | ASend n tbl inl_ =>
              Some (set_interp c (i_queue (mkEvent External n (build_params tbl inl_)) (c_interp c)), Passed)
          | AWait q =>
              (* SimulatedClock.time setter: new_time < current_time => ValueError *)
              if Qle_bool 0 q then Some (set_interp c (i_advance q (c_interp c)), Passed)
              else Some (c, Error)
          end in
        match body with
        | None => None
        | Some (c1, st) =>
            let '(c2, ok) := after_step k c1 in
            Some (c2, if ok then st else HookError)
        end
    end.

  (* `state {name} is ...` steps start with statechart.state_for(name): StatechartError if unknown *)
  Definition eval_then (t : assertion) (tr : list macrostep) (i : I) : status :=
    match t with
    | TEntered n => if mem n states then of_bool (state_is_entered tr n) else Error
    | TNotEntered n => if mem n states then of_bool (negb (state_is_entered tr n)) else Error
    | TExited n => if mem n states then of_bool (state_is_exited tr n) else Error
    | TNotExited n => if mem n states then of_bool (negb (state_is_exited tr n)) else Error
    | TActive n => if mem n states then of_bool (mem n (i_config i)) else Error
    | TNotActive n => if mem n states then of_bool (negb (mem n (i_config i))) else Error
    | TFired n tbl inl_ => of_bool (event_is_fired tr (Some n) (build_params tbl inl_))
    | TNotFired n => of_bool (negb (event_is_fired tr (Some n) []))
    | TNoEvent => of_bool (no_event_is_fired tr)
    | TVarEq x v =>
        match lookup x (i_ctx i) with
        | None => Failed                                         (* assert variable in context *)
        | Some cur => of_bool (py_eqb cur v)
        end
    | TVarNe x v =>
        match lookup x (i_ctx i) with
        | None => Failed
        | Some cur => of_bool (negb (py_eqb cur v))
        end
    | TExprHolds e => match i_eval i e with None => Error | Some b => of_bool b end
    | TExprNotHolds e => match i_eval i e with None => Error | Some b => of_bool (negb b) end
    | TFinal => of_bool (i_final i)
    | TNotFinal => of_bool (negb (i_final i))
    end.

  (* A then step with its hooks.  before_step: context._monitoring = False; if monitored_trace is
     None: raise ValueError (=> hook_error, the step function is not run).  after_step: nothing. *)
  Definition run_then (t : assertion) (c : ctx) : ctx * status :=
    let c1 := mkCtx (c_interp c) false (c_trace c) in
    match c_trace c with
    | None => (c1, HookError)
    | Some tr => (c1, eval_then t tr (c_interp c))
    end.

  Definition run_step (fuel : nat) (feat : feature) (s : step) (c : ctx) : option (ctx * status) :=
    match s with
    | SAct k a => run_act fuel feat k a c
    | SThen t => Some (run_then t c)
    end.

  (* behave, Scenario.run: once a step has not passed, all remaining steps are skipped *)
  Fixpoint run_steps (fuel : nat) (feat : feature) (steps : list step) (c : ctx) (ok : bool)
    : option (list status) :=
    match steps with
    | [] => Some []
    | s :: r =>
        if ok then
          match run_step fuel feat s c with
          | None => None
          | Some (c', st) =>
              match run_steps fuel feat r c' (is_passed st) with
              | None => None
              | Some l => Some (st :: l)
              end
          end
        else
          match run_steps fuel feat r c false with
          | None => None
          | Some l => Some (Skipped :: l)
          end
    end.

  Definition run_scenario (fuel : nat) (feat : feature) (steps : list step) (i0 : I) : option (list status) :=
    run_steps fuel feat steps (ctx_init i0) true.

  (* ================================================================ declarative meaning *)
  (* the value a key is finally bound to when the dict is built from the table rows in order,
     then the inline pair: the LAST binding wins *)
  Definition bindings (tbl : ptable) (inl_ : option (name * value)) : list (name * value) :=
    tbl ++ match inl_ with Some kv => [kv] | None => [] end.
  Definition last_binding (k : name) (l : list (name * value)) : option value := lookup k (rev l).

  Definition sent_in (block : list macrostep) (e : event) : Prop :=
    exists m mi, In m block /\ In mi (snd m) /\ In e (ms_sent mi).

  Definition fact (t : assertion) (block : list macrostep) (i : I) : Prop :=
    match t with
    | TEntered n => exists m mi, In m block /\ In mi (snd m) /\ In n (ms_entered mi)
    | TNotEntered n => ~ exists m mi, In m block /\ In mi (snd m) /\ In n (ms_entered mi)
    | TExited n => exists m mi, In m block /\ In mi (snd m) /\ In n (ms_exited mi)
    | TNotExited n => ~ exists m mi, In m block /\ In mi (snd m) /\ In n (ms_exited mi)
    | TActive n => In n (i_config i)
    | TNotActive n => ~ In n (i_config i)
    | TFired n tbl inl_ =>
        exists e, sent_in block e /\ e_name e = n /\
                  forall k v, last_binding k (bindings tbl inl_) = Some v -> attr_eqb (event_attr e k) v = true
    | TNotFired n => ~ exists e, sent_in block e /\ e_name e = n
    | TNoEvent => ~ exists e, sent_in block e
    | TVarEq x v => exists cur, lookup x (i_ctx i) = Some cur /\ py_eqb cur v = true
    | TVarNe x v => exists cur, lookup x (i_ctx i) = Some cur /\ py_eqb cur v = false
    | TExprHolds e => i_eval i e = Some true
    | TExprNotHolds e => i_eval i e = Some false
    | TFinal => i_final i = true
    | TNotFinal => i_final i = false
    end.

  (* decidable version, written independently of testing.py (existsb over flattened lists) *)
  Definition all_micro (block : list macrostep) : list microstep := flat_map (fun m => snd m) block.
  Definition all_sent (block : list macrostep) : list event := flat_map ms_sent (all_micro block).
  Definition keys_of (l : list (name * value)) : list name := map fst l.

  Definition fact_b (t : assertion) (block : list macrostep) (i : I) : bool :=
    match t with
    | TEntered n => existsb (fun mi => existsb (str_eqb n) (ms_entered mi)) (all_micro block)
    | TNotEntered n => negb (existsb (fun mi => existsb (str_eqb n) (ms_entered mi)) (all_micro block))
    | TExited n => existsb (fun mi => existsb (str_eqb n) (ms_exited mi)) (all_micro block)
    | TNotExited n => negb (existsb (fun mi => existsb (str_eqb n) (ms_exited mi)) (all_micro block))
    | TActive n => existsb (str_eqb n) (i_config i)
    | TNotActive n => negb (existsb (str_eqb n) (i_config i))
    | TFired n tbl inl_ =>
        let b := bindings tbl inl_ in
        existsb (fun e => str_eqb (e_name e) n &&
                          forallb (fun k => match last_binding k b with
                                            | Some v => attr_eqb (event_attr e k) v
                                            | None => true
                                            end) (keys_of b))
                (all_sent block)
    | TNotFired n => negb (existsb (fun e => str_eqb (e_name e) n) (all_sent block))
    | TNoEvent => match all_sent block with [] => true | _ => false end
    | TVarEq x v => match lookup x (i_ctx i) with Some cur => py_eqb cur v | None => false end
    | TVarNe x v => match lookup x (i_ctx i) with Some cur => negb (py_eqb cur v) | None => false end
    | TExprHolds e => match i_eval i e with Some true => true | _ => false end
    | TExprNotHolds e => match i_eval i e with Some false => true | _ => false end
    | TFinal => i_final i
    | TNotFinal => negb (i_final i)
    end.

  (* the state names an assertion mentions (hypothesis "whose state names exist") *)
  Definition states_ok (t : assertion) : bool :=
    match t with
    | TEntered n | TNotEntered n | TExited n | TNotExited n | TActive n | TNotActive n => mem n states
    | _ => true
    end.
End Model.

Arguments mkCtx {I}.
Arguments c_interp {I}.
Arguments c_monitoring {I}.
Arguments c_trace {I}.

(* ================================================================== parse-style patterns *)
Definition sapp := String.append.
Definition s1 (c : ascii) : string := String c EmptyString.

Definition is_upper (c : ascii) : bool := let n := nat_of_ascii c in (65 <=? n)%nat && (n <=? 90)%nat.
Definition lower (c : ascii) : ascii := if is_upper c then ascii_of_nat (nat_of_ascii c + 32) else c.
(* character comparison: ci = re.IGNORECASE (parse's default; behave >= 1.2.7 compiles case sensitively) *)
Definition ceq (ci : bool) (a b : ascii) : bool :=
  if ci then Ascii.eqb (lower a) (lower b) else Ascii.eqb a b.

Inductive ftype := FAny | FInt | FNum.           (* {f}   {f:d}   {f:g} *)
Inductive pelem := PLit (s : string) | PField (n : string) (t : ftype).
Definition pattern := list pelem.

Definition is_digit (c : ascii) : bool := let n := nat_of_ascii c in (48 <=? n)%nat && (n <=? 57)%nat.
Definition is_alpha (c : ascii) : bool :=
  let n := nat_of_ascii c in ((65 <=? n)%nat && (n <=? 90)%nat) || ((97 <=? n)%nat && (n <=? 122)%nat).
Definition is_ident (c : ascii) : bool := is_digit c || is_alpha c || Ascii.eqb c "_"%char.

Fixpoint str_forall (p : ascii -> bool) (s : string) : bool :=
  match s with EmptyString => true | String c r => p c && str_forall p r end.

(* "{name}" / "{name:d}" / "{name:g}" -> field; anything else is not supported by this model *)
Fixpoint split_colon (s : string) (acc : string) : string * option string :=
  match s with
  | EmptyString => (acc, None)
  | String c r => if Ascii.eqb c ":"%char then (acc, Some r) else split_colon r (sapp acc (s1 c))
  end.

Definition mk_field (spec : string) : option pelem :=
  let '(n, t) := split_colon spec "" in
  match n with
  | EmptyString => None
  | String c _ =>
      if is_alpha c && str_forall is_ident n then
        match t with
        | None => Some (PField n FAny)
        | Some "d" => Some (PField n FInt)
        | Some "g" => Some (PField n FNum)
        | Some _ => None
        end
      else None
  end.

Definition flush (lit : string) (acc : list pelem) : list pelem :=
  match lit with EmptyString => acc | _ => PLit lit :: acc end.

(* scan the pattern text; fld = Some f while inside braces *)
Fixpoint parse_pat (s : string) (lit : string) (fld : option string) (acc : list pelem) : option pattern :=
  match s with
  | EmptyString => match fld with Some _ => None | None => Some (rev (flush lit acc)) end
  | String c r =>
      match fld with
      | None =>
          if Ascii.eqb c "{"%char then parse_pat r "" (Some "") (flush lit acc)
          else if Ascii.eqb c "}"%char then None
          else parse_pat r (sapp lit (s1 c)) None acc
      | Some f =>
          if Ascii.eqb c "}"%char then
            match mk_field f with
            | Some e => parse_pat r "" None (e :: acc)
            | None => None
            end
          else parse_pat r lit (Some (sapp f (s1 c))) acc
      end
  end.
Definition parse_pattern (s : string) : option pattern := parse_pat s "" None [].

(* literal text must be a prefix (character by character, case folded if ci) *)
Fixpoint strip_prefix (ci : bool) (l s : string) : option string :=
  match l, s with
  | EmptyString, _ => Some s
  | String a l', String b s' => if ceq ci a b then strip_prefix ci l' s' else None
  | String _ _, EmptyString => None
  end.

Fixpoint str_eq_ci (ci : bool) (a b : string) : bool :=
  match a, b with
  | EmptyString, EmptyString => true
  | String x a', String y b' => ceq ci x y && str_eq_ci ci a' b'
  | _, _ => false
  end.

(* ---- the numeric field regexes of parse 1.2x ----
   d:  [-+ ]?[-+ ]?[0-9]+ | [-+ ]?0[xX][0-9a-fA-F]+ | [-+ ]?0[bB][01]+ | [-+ ]?0[oO][0-7]+
   g:  [-+ ]?\d+(\.\d+)?([eE][-+]?\d+)? | nan | NAN | [-+]?inf | [-+]?INF                      *)
Definition is_sign3 (c : ascii) : bool :=
  Ascii.eqb c "-"%char || Ascii.eqb c "+"%char || Ascii.eqb c " "%char.
Definition is_sign2 (c : ascii) : bool := Ascii.eqb c "-"%char || Ascii.eqb c "+"%char.
Definition is_hex (c : ascii) : bool :=
  let n := nat_of_ascii c in is_digit c || ((65 <=? n)%nat && (n <=? 70)%nat) || ((97 <=? n)%nat && (n <=? 102)%nat).
Definition is_bin (c : ascii) : bool := Ascii.eqb c "0"%char || Ascii.eqb c "1"%char.
Definition is_oct (c : ascii) : bool := let n := nat_of_ascii c in (48 <=? n)%nat && (n <=? 55)%nat.

Definition opt_char (p : ascii -> bool) (s : string) : string :=
  match s with String c r => if p c then r else s | EmptyString => s end.
Definition nonempty_all (p : ascii -> bool) (s : string) : bool :=
  match s with EmptyString => false | _ => str_forall p s end.
(* drop the longest prefix of characters satisfying p; says whether it was non-empty *)
Fixpoint span1 (p : ascii -> bool) (s : string) (seen : bool) : bool * string :=
  match s with
  | String c r => if p c then span1 p r true else (seen, s)
  | EmptyString => (seen, s)
  end.

Definition based (ci : bool) (mark : ascii) (p : ascii -> bool) (s : string) : bool :=
  match opt_char is_sign3 s with
  | String z (String m r) => Ascii.eqb z "0"%char && ceq true m mark && nonempty_all p r
  | _ => false
  end.

Definition d_ok (ci : bool) (s : string) : bool :=
  nonempty_all is_digit (opt_char is_sign3 (opt_char is_sign3 s))
  || based ci "x"%char (fun c => is_hex c) s
  || based ci "b"%char is_bin s
  || based ci "o"%char is_oct s.

Definition g_ok (ci : bool) (s : string) : bool :=
  (let '(okd, r1) := span1 is_digit (opt_char is_sign3 s) false in
   okd &&
   (let r2 := match r1 with
              | String dot r => if Ascii.eqb dot "."%char then
                                  (let '(okf, r') := span1 is_digit r false in if okf then r' else r1)
                                else r1
              | EmptyString => r1
              end in
    let r3 := match r2 with
              | String e r => if ceq true e "e"%char then
                                (let '(oke, r') := span1 is_digit (opt_char is_sign2 r) false in
                                 if oke then r' else r2)
                              else r2
              | EmptyString => r2
              end in
    match r3 with EmptyString => true | _ => false end))
  || str_eq_ci ci s "nan" || str_eq_ci ci s "NAN"
  || str_eq_ci ci (opt_char is_sign2 s) "inf" || str_eq_ci ci (opt_char is_sign2 s) "INF".

Definition field_ok (ci : bool) (t : ftype) (s : string) : bool :=
  match t with FAny => true | FInt => d_ok ci s | FNum => g_ok ci s end.

Section Splits.
  Context {A : Type} (k : string -> string -> option A).
  (* lazy field (.+?): shortest non-empty prefix first *)
  Fixpoint splits_short (pre s : string) : option A :=
    match s with
    | EmptyString => None
    | String c r =>
        let pre' := sapp pre (s1 c) in
        match k pre' r with
        | Some x => Some x
        | None => splits_short pre' r
        end
    end.
  (* greedy numeric fields: longest prefix first *)
  Fixpoint splits_long (pre s : string) : option A :=
    match s with
    | EmptyString => None
    | String c r =>
        let pre' := sapp pre (s1 c) in
        match splits_long pre' r with
        | Some x => Some x
        | None => k pre' r
        end
    end.
End Splits.

Definition binding := (string * string)%type.          (* field name, matched text *)

(* \A ... \Z : the whole text must be consumed *)
Fixpoint match_elems (ci : bool) (p : pattern) (s : string) : option (list binding) :=
  match p with
  | [] => match s with EmptyString => Some [] | _ => None end
  | PLit l :: p' =>
      match strip_prefix ci l s with
      | Some r => match_elems ci p' r
      | None => None
      end
  | PField n t :: p' =>
      let k := fun pre rest =>
                 if field_ok ci t pre then
                   match match_elems ci p' rest with
                   | Some b => Some ((n, pre) :: b)
                   | None => None
                   end
                 else None in
      match t with
      | FAny => splits_short k "" s
      | _ => splits_long k "" s
      end
  end.

(* step registry: (step_type, pattern text, function name) in REGISTRATION order;
   behave's find_match returns the first definition of the step's type that matches *)
Definition stepdef := (string * string * string)%type.

Inductive dispatch_result :=
| DMatch (fn : string) (args : list binding)
| DUndefined                       (* no pattern matches: behave status `undefined` *)
| DUnsupported (pat : string).     (* a registered pattern uses syntax this model does not cover *)

Fixpoint dispatch (ci : bool) (defs : list stepdef) (stype : string) (text : string) : dispatch_result :=
  match defs with
  | [] => DUndefined
  | (ty, pat, fn) :: r =>
      if str_eqb ty stype then
        match parse_pattern pat with
        | None => DUnsupported pat
        | Some p =>
            match match_elems ci p text with
            | Some b => DMatch fn b
            | None => dispatch ci r stype text
            end
        end
      else dispatch ci r stype text
  end.

(* ================================================================== from matched text to steps *)
Definition is_space (c : ascii) : bool :=
  let n := nat_of_ascii c in (n =? 32)%nat || ((9 <=? n)%nat && (n <=? 13)%nat).
Fixpoint lstrip (s : string) : string :=
  match s with String c r => if is_space c then lstrip r else s | EmptyString => s end.
Fixpoint srev (s : string) (acc : string) : string :=
  match s with EmptyString => acc | String c r => srev r (String c acc) end.
Definition strip (s : string) : string := srev (lstrip (srev (lstrip s) "")) "".

Fixpoint digits_to_nat (s : string) (acc : nat) : nat :=
  match s with
  | EmptyString => acc
  | String c r => digits_to_nat r (acc * 10 + (nat_of_ascii c - 48))
  end.
Definition nat_literal (s : string) : option nat :=
  if nonempty_all is_digit s then Some (digits_to_nat s 0) else None.

(* digits[.digits] -> exact rational (what float() denotes, before rounding) *)
Fixpoint split_dot (s : string) (acc : string) : string * option string :=
  match s with
  | EmptyString => (acc, None)
  | String c r => if Ascii.eqb c "."%char then (acc, Some r) else split_dot r (sapp acc (s1 c))
  end.
Definition q_unsigned (s : string) : option Q :=
  let '(ip, fp) := split_dot s "" in
  if nonempty_all is_digit ip then
    match fp with
    | None => Some (Z.of_nat (digits_to_nat ip 0) # 1)
    | Some f =>
        if nonempty_all is_digit f then
          Some (Z.of_nat (digits_to_nat (sapp ip f) 0) # Pos.of_nat (Nat.pow 10 (String.length f)))
        else None
    end
  else None.

(* [-+ ]? in front (float() accepts the sign; a leading blank is stripped by float()) *)
Definition q_literal (s : string) : option Q :=
  match s with
  | String c r =>
      if Ascii.eqb c "-"%char then option_map Qopp (q_unsigned r)
      else if Ascii.eqb c "+"%char || Ascii.eqb c " "%char then q_unsigned r
      else q_unsigned s
  | EmptyString => None
  end.

(* ---- decidable equality of steps (used by the dispatch obligations) ---- *)
Definition oinline_eqb (a b : option (name * value)) : bool :=
  opt_eqb (pair_eqb str_eqb value_eqb) a b.
Fixpoint action_eqb (a b : action) : bool :=
  match a, b with
  | ANothing, ANothing => true
  | AReproduce x, AReproduce y => str_eqb x y
  | ARepeat x n, ARepeat y m => action_eqb x y && Nat.eqb n m
  | ASend n t i, ASend n' t' i' => str_eqb n n' && data_eqb t t' && oinline_eqb i i'
  | AWait p, AWait q => Qeq_bool p q
  | _, _ => false
  end.
Definition assertion_eqb (a b : assertion) : bool :=
  match a, b with
  | TEntered x, TEntered y | TNotEntered x, TNotEntered y | TExited x, TExited y
  | TNotExited x, TNotExited y | TActive x, TActive y | TNotActive x, TNotActive y
  | TNotFired x, TNotFired y | TExprHolds x, TExprHolds y | TExprNotHolds x, TExprNotHolds y => str_eqb x y
  | TFired n t i, TFired n' t' i' => str_eqb n n' && data_eqb t t' && oinline_eqb i i'
  | TNoEvent, TNoEvent | TFinal, TFinal | TNotFinal, TNotFinal => true
  | TVarEq x v, TVarEq y w | TVarNe x v, TVarNe y w => str_eqb x y && value_eqb v w
  | _, _ => false
  end.
Definition step_eqb (a b : step) : bool :=
  match a, b with
  | SAct k x, SAct k' y => gw_eqb k k' && action_eqb x y
  | SThen x, SThen y => assertion_eqb x y
  | _, _ => false
  end.

(* eval(text.strip(), {}, {}) on plain literals: None True False, decimal integers, and string
   literals in single or double quotes without backslash or embedded quote *)
Fixpoint no_char (q : ascii) (s : string) : bool :=
  match s with
  | EmptyString => true
  | String c r => negb (Ascii.eqb c q) && negb (Ascii.eqb c "\"%char) && no_char q r
  end.
Definition unquote (s : string) : option string :=
  match s with
  | String q r =>
      if Ascii.eqb q "'"%char || Ascii.eqb q """"%char then
        match srev r "" with
        | String q' body_rev =>
            if Ascii.eqb q q' && no_char q body_rev then Some (srev body_rev "") else None
        | EmptyString => None
        end
      else None
  | EmptyString => None
  end.
Definition py_literal (text : string) : option value :=
  let s := strip text in
  if str_eqb s "None" then Some VNone
  else if str_eqb s "True" then Some (VBool true)
  else if str_eqb s "False" then Some (VBool false)
  else match nat_literal s with
       | Some n => Some (VInt (Z.of_nat n))
       | None =>
           match s with
           | String c r =>
               if Ascii.eqb c "-"%char then
                 match nat_literal r with Some n => Some (VInt (- Z.of_nat n)) | None => None end
               else option_map VStr (unquote s)
           | EmptyString => None
           end
       end.

Definition arg (k : string) (b : list binding) : option string := lookup k b.

Definition inline_of (b : list binding) : option (option (name * value)) :=
  match arg "parameter" b, arg "value" b with
  | None, None => Some None
  | Some p, Some v => match py_literal v with Some x => Some (Some (strip p, x)) | None => None end
  | _, _ => None
  end.

(* the step function named fn of steps.py, applied to the matched arguments (strings), as a step
   of the model.  `ci`, `defs` are needed because `repeat` re-dispatches its argument text under
   the caller's keyword; fuel bounds that nesting. *)
Definition gw_type (k : gw) : string := match k with Given => "given" | When => "when" end.

Fixpoint decode_action (fuel : nat) (ci : bool) (defs : list stepdef) (k : gw) (tbl : ptable)
         (fn : string) (b : list binding) : option action :=
  match fuel with
  | O => None
  | S f =>
      if str_eqb fn "do_nothing" then Some ANothing
      else if str_eqb fn "reproduce_scenario" || str_eqb fn "_reproduce_scenario" then
        option_map AReproduce (arg "scenario" b)
      else if str_eqb fn "repeat_step" || str_eqb fn "_repeat_step" then
        match arg "step" b, arg "repeat" b with
        | Some st, Some n =>
            match nat_literal n, dispatch ci defs (gw_type k) st with
            | Some n', DMatch fn' b' =>
                match decode_action f ci defs k [] fn' b' with
                | Some a => Some (ARepeat a n')
                | None => None
                end
            | _, _ => None
            end
        | _, _ => None
        end
      else if str_eqb fn "send_event" then
        match arg "name" b, inline_of b with
        | Some n, Some inl_ => Some (ASend n tbl inl_)
        | _, _ => None
        end
      else if str_eqb fn "wait" then
        match arg "seconds" b with
        | Some s => option_map AWait (q_literal s)
        | None => None
        end
      else None
  end.

Definition decode_then (tbl : ptable) (fn : string) (b : list binding) : option assertion :=
  let st (mk : name -> assertion) := option_map mk (arg "name" b) in
  if str_eqb fn "state_is_entered" then st TEntered
  else if str_eqb fn "state_is_not_entered" then st TNotEntered
  else if str_eqb fn "state_is_exited" then st TExited
  else if str_eqb fn "state_is_not_exited" then st TNotExited
  else if str_eqb fn "state_is_active" then st TActive
  else if str_eqb fn "state_is_not_active" then st TNotActive
  else if str_eqb fn "event_is_fired" then
    match arg "name" b, inline_of b with
    | Some n, Some inl_ => Some (TFired n tbl inl_)
    | _, _ => None
    end
  else if str_eqb fn "event_is_not_fired" then st TNotFired
  else if str_eqb fn "no_event_is_fired" then Some TNoEvent
  else if str_eqb fn "variable_equals" then
    match arg "variable" b, arg "value" b with
    | Some x, Some v => option_map (TVarEq x) (py_literal v)
    | _, _ => None
    end
  else if str_eqb fn "variable_does_not_equal" then
    match arg "variable" b, arg "value" b with
    | Some x, Some v => option_map (TVarNe x) (py_literal v)
    | _, _ => None
    end
  else if str_eqb fn "expression_holds" then option_map TExprHolds (arg "expression" b)
  else if str_eqb fn "expression_does_not_hold" then option_map TExprNotHolds (arg "expression" b)
  else if str_eqb fn "final_configuration" then Some TFinal
  else if str_eqb fn "not_final_configuration" then Some TNotFinal
  else None.

(* a feature-file line (step type, text, table) to a step of the model *)
Inductive stype := TyGiven | TyWhen | TyThen.
Definition step_of_text (ci : bool) (defs : list stepdef) (ty : stype) (text : string) (tbl : ptable)
  : option step :=
  match ty with
  | TyGiven =>
      match dispatch ci defs "given" text with
      | DMatch fn b => option_map (SAct Given) (decode_action 8 ci defs Given tbl fn b)
      | _ => None
      end
  | TyWhen =>
      match dispatch ci defs "when" text with
      | DMatch fn b => option_map (SAct When) (decode_action 8 ci defs When tbl fn b)
      | _ => None
      end
  | TyThen =>
      match dispatch ci defs "then" text with
      | DMatch fn b => option_map SThen (decode_then tbl fn b)
      | _ => None
      end
  end.
