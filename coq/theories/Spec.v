(* Spec.v -- decidable checkers (Pb) of the declarative properties, evaluated by the
   correspondence run on what the IMPLEMENTATION produced (they do not run the model).
   Their soundness w.r.t. the Prop-level statements is proved in proofs/. *)
From Sismic Require Import Base Chart Interp World.
Open Scope list_scope.

(* ------------------------------------------------------------------ C02: legal configurations *)
Definition count_in (l cfg : list name) : nat := length (filter (fun n => mem n cfg) l).

Fixpoint nodup_b (l : list name) : bool :=
  match l with [] => true | x :: r => negb (mem x r) && nodup_b r end.

Definition state_legal_b (sc : chart) (cfg : list name) (n : name) : bool :=
  match state_for sc n with
  | None => false
  | Some st =>
      (* the parent of every active state is active; only the root has no parent *)
      (match parent_for sc n with
       | Some p => mem p cfg
       | None => ostr_eqb (root sc) (Some n)
       end)
      &&
      match s_kind st with
      | KCompound =>
          match count_in (children_for sc n) cfg with
          | 1 => true
          | 0 => match truthy (s_initial st) with None => true | Some _ => false end
          | _ => false
          end
      | KOrthogonal => forallb (fun ch => mem ch cfg) (children_for sc n)
      | KShallow | KDeep => false
      | KFinal => negb (ostr_eqb (parent_for sc n) (root sc))   (* a final child of the root ends the run *)
      | KBasic => true
      end
  end.

Definition legal_b (sc : chart) (cfg : list name) : bool :=
  nodup_b cfg
  && (match root sc with Some r => mem r cfg | None => false end)
  && forallb (state_legal_b sc cfg) cfg.

(* configuration after a normally returning execute_once: empty (final) or legal and stable *)
Definition Pb_C02 (sc : chart) (pre_final : bool) (cfg : list name) : bool :=
  match cfg with
  | [] => true
  | _ => negb pre_final && legal_b sc cfg
  end.

(* ------------------------------------------------------------------ C05: queue invariant *)
Fixpoint q_sorted_b (q : list (Z * event)) : bool :=
  match q with
  | [] => true
  | (t, _) :: r => match r with [] => true | (t', _) :: _ => (t <=? t')%Z && q_sorted_b r end
  end.

Definition Q_inv_b {ctx} (i : istate ctx) : bool :=
  q_sorted_b (i_iq i) && q_sorted_b (i_eq i)
  && forallb (fun te => ekind_eqb (e_kind (snd te)) Internal) (i_iq i)
  && forallb (fun te => negb (ekind_eqb (e_kind (snd te)) Internal)) (i_eq i).

(* ------------------------------------------------------------------ C10: documented meta-events *)
Definition sent_meta (e : event) : list meta :=
  match e_kind e with
  | Internal => MSent e :: (if has_delay e then [MDelayedSent e] else [])
  | Meta => [MUser (e_name e) (e_data e)]
  | External => []
  end.

Definition spec_meta_micro (sc : chart) (step : microstep) : list meta :=
  map MExited (ms_exited step)
  ++ (match ms_trans step with
      | Some i => match nth_error (c_transitions sc) i with
                  | Some t => [MProcessed (t_source t) (t_target t) (ms_event step)]
                  | None => []
                  end
      | None => []
      end)
  ++ map MEntered (ms_entered step)
  ++ flat_map sent_meta (ms_sent step).

Definition spec_meta (sc : chart) (now : Z) (macro : option macrostep) : list meta :=
  [MStepStarted now]
  ++ (match macro with
      | Some (_, steps) =>
          (match macro_event steps with Some e => [MConsumed e] | None => [] end)
          ++ flat_map (spec_meta_micro sc) steps
      | None => []
      end)
  ++ [MStepEnded].

(* ------------------------------------------------------------------ C15: deliveries *)
Definition spec_deliveries (steps : list microstep) : list event :=
  map (fun e => mkEvent External (e_name e) (e_data e))
      (filter (fun e => ekind_eqb (e_kind e) Internal) (flat_map ms_sent steps)).

(* ------------------------------------------------------------------ C03: the macro step is self-consistent *)
(* configuration obtained by replaying the exited/entered lists of the returned micro steps *)
Definition replay_config (cfg : list name) (steps : list microstep) : list name :=
  fold_left (fun c st => fold_left (fun c n => set_add n c) (ms_entered st)
                           (fold_left (fun c n => remove_first n c) (ms_exited st) c))
            steps cfg.

(* ------------------------------------------------------------------ C13: entry / idle times *)
Definition spec_entry (entry : list (name * Z)) (now : Z) (steps : list microstep) : list (name * Z) :=
  fold_left (fun d n => dset n now d) (flat_map ms_entered steps) entry.

Definition spec_idle (sc : chart) (idle : list (name * Z)) (now : Z) (steps : list microstep) : list (name * Z) :=
  fold_left (fun d n => dset n now d)
            (flat_map (fun st => (match ms_trans st with
                                  | Some i => match nth_error (c_transitions sc) i with
                                              | Some t => [t_source t] | None => [] end
                                  | None => []
                                  end) ++ ms_entered st) steps)
            idle.

(* ------------------------------------------------------------------ C06: history *)
(* Replay of a macro step at the level of the documentation: when a compound state is exited
   its shallow (deep) history children remember the children (descendants) that were active at
   the beginning of that micro step; a micro step that exits exactly one history state H must
   enter exactly the remembered states (or the default memory), parents before children. *)
Definition record_for (sc : chart) (active : list name) (mem_ : list (name * list name)) (n : name)
  : list (name * list name) :=
  match state_for sc n with
  | Some st =>
      match s_kind st with
      | KCompound =>
          fold_left (fun m child =>
                       match kind_of sc child with
                       | Some KDeep =>
                           let desc := descendants_for sc n in
                           dset child (sort_names (filter (fun x => mem x desc) active)) m
                       | Some KShallow =>
                           let ch := children_for sc n in
                           dset child (sort_names (filter (fun x => mem x ch) active)) m
                       | _ => m
                       end)
                    (children_for sc n) mem_
      | _ => mem_
      end
  | None => mem_
  end.

Definition depth_name_leb (sc : chart) (a b : name) : bool :=
  zn_leb (depth_for sc a, a) (depth_for sc b, b).

Definition restore_ok (sc : chart) (mem_ : list (name * list name)) (st : microstep) : bool :=
  match ms_exited st, ms_trans st with
  | [h], None =>
      match state_for sc h with
      | Some hs =>
          if is_history (s_kind hs) then
            match lookup h mem_ with
            | Some l => strs_eqb (ms_entered st) (sort (depth_name_leb sc) l)
            | None => match s_memory hs with
                      | Some d => strs_eqb (ms_entered st) [d]
                      | None => false
                      end
            end
          else true
      | None => true
      end
  | _, _ => true
  end.

Fixpoint hist_replay (sc : chart) (steps : list microstep) (cfg : list name) (mem_ : list (name * list name))
  : option (list name * list (name * list name)) :=
  match steps with
  | [] => Some (cfg, mem_)
  | st :: rest =>
      if restore_ok sc mem_ st then
        let mem' := fold_left (record_for sc cfg) (ms_exited st) mem_ in
        let cfg' := fold_left (fun c n => set_add n c) (ms_entered st)
                      (fold_left (fun c n => remove_first n c) (ms_exited st) cfg) in
        hist_replay sc rest cfg' mem'
      else None
  end.

(* ------------------------------------------------------------------ C08 / C03: evaluation points *)
(* What must be executed / evaluated, in order, for a list of executed micro steps followed by
   the invariants of the resulting configuration (all conditions holding): (kind, owner, index). *)
Definition slot := (ckind * owner * nat)%type.
Definition slot_eqb (a b : slot) : bool :=
  ckind_eqb (fst (fst a)) (fst (fst b)) && owner_eqb (snd (fst a)) (snd (fst b)) && Nat.eqb (snd a) (snd b).

Definition cond_slots (k : ckind) (o : owner) (conds : list code) : list slot :=
  map (fun i => (k, o, i)) (seq 0 (length conds)).

Definition micro_slots (sc : chart) (contracts : bool) (st : microstep) : list slot :=
  let cs := fun k o l => if contracts then cond_slots k o l else [] in
  flat_map (fun n => match state_for sc n with
                     | Some s => (CExit, OState n, 0) :: cs CPost (OState n) (s_post s)
                     | None => []
                     end) (ms_exited st)
  ++ (match ms_trans st with
      | Some i =>
          match nth_error (c_transitions sc) i with
          | Some t => cs CPre (OTrans i) (t_pre t) ++ cs CInv (OTrans i) (t_inv t)
                      ++ [(CAction, OTrans i, 0)]
                      ++ cs CPost (OTrans i) (t_post t) ++ cs CInv (OTrans i) (t_inv t)
          | None => []
          end
      | None => []
      end)
  ++ flat_map (fun n => match state_for sc n with
                        | Some s => cs CPre (OState n) (s_pre s) ++ [(CEntry, OState n, 0)]
                        | None => []
                        end) (ms_entered st).

Definition expected_slots (sc : chart) (contracts : bool) (steps : list microstep) (post_cfg : list name)
  : list slot :=
  flat_map (micro_slots sc contracts) steps
  ++ (if contracts then
        flat_map (fun n => match state_for sc n with
                           | Some s => cond_slots CInv (OState n) (s_inv s)
                           | None => []
                           end) (configuration sc post_cfg)
      else []).
