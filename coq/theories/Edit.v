(* Edit.v -- model of the structural editing operations and validate() of
   sismic/model/statechart.py (add_state, remove_state, rename_state, move_state, add_transition,
   remove_transition, rotate_transition, validate).

   Every operation returns the chart as Python leaves it together with the outcome; Python
   mutates in place, so an operation that raises late returns a partially edited chart -- the
   atomicity clause of C16 is exactly that this never happens for StatechartError/ValueError.
   Transitions are referred to by their index in statechart.transitions (object identity). *)
From Sismic Require Import Base Chart.
Open Scope string_scope.
Open Scope list_scope.

Inductive eres :=
| EOk
| EStatechartError
| EValueError
| EKeyError.        (* a KeyError escaping (not a documented failure) *)

Definition eres_eqb (a b : eres) : bool :=
  match a, b with
  | EOk, EOk | EStatechartError, EStatechartError | EValueError, EValueError | EKeyError, EKeyError => true
  | _, _ => false
  end.

(* ---- record updates ---- *)
Definition with_states (c : chart) (x : list (name * state)) : chart :=
  mkChart (c_name c) (c_description c) (c_preamble c) x (c_parent c) (c_children c) (c_transitions c).
Definition with_parent (c : chart) (x : list (name * option name)) : chart :=
  mkChart (c_name c) (c_description c) (c_preamble c) (c_states c) x (c_children c) (c_transitions c).
Definition with_children (c : chart) (x : list (option name * list name)) : chart :=
  mkChart (c_name c) (c_description c) (c_preamble c) (c_states c) (c_parent c) x (c_transitions c).
Definition with_transitions (c : chart) (x : list transition) : chart :=
  mkChart (c_name c) (c_description c) (c_preamble c) (c_states c) (c_parent c) (c_children c) x.

Definition set_initial (s : state) (v : option name) : state :=
  mkState (s_name s) (s_kind s) v (s_memory s) (s_on_entry s) (s_on_exit s) (s_pre s) (s_post s) (s_inv s).
Definition set_memory_ (s : state) (v : option name) : state :=
  mkState (s_name s) (s_kind s) (s_initial s) v (s_on_entry s) (s_on_exit s) (s_pre s) (s_post s) (s_inv s).
Definition set_name (s : state) (v : name) : state :=
  mkState v (s_kind s) (s_initial s) (s_memory s) (s_on_entry s) (s_on_exit s) (s_pre s) (s_post s) (s_inv s).
Definition set_source (t : transition) (v : name) : transition :=
  mkTrans v (t_target t) (t_event t) (t_guard t) (t_action t) (t_priority t) (t_pre t) (t_post t) (t_inv t).
Definition set_target (t : transition) (v : option name) : transition :=
  mkTrans (t_source t) v (t_event t) (t_guard t) (t_action t) (t_priority t) (t_pre t) (t_post t) (t_inv t).

(* dictionaries keyed by name-or-None (_children) *)
Fixpoint oset {V} (k : option name) (v : V) (d : list (option name * V)) : list (option name * V) :=
  match d with
  | [] => [(k, v)]
  | (k', v') :: d' => if opt_eqb str_eqb k k' then (k, v) :: d' else (k', v') :: oset k v d'
  end.
Fixpoint oremove {V} (k : option name) (d : list (option name * V)) : list (option name * V) :=
  match d with
  | [] => []
  | (k', v') :: d' => if opt_eqb str_eqb k k' then d' else (k', v') :: oremove k d'
  end.

Definition has_state (c : chart) (n : name) : bool :=
  match lookup n (c_states c) with Some _ => true | None => false end.

(* `if not parent` : None and '' are both "no parent" *)
Definition no_parent (p : option name) : bool :=
  match truthy p with None => true | Some _ => false end.

(* ---------------------------------------------------------------- add_state *)
Definition add_state (c : chart) (st : state) (parent : option name) : chart * eres :=
  if has_state c (s_name st) then (c, EStatechartError) else
  let register (c : chart) : chart * eres :=
    let c1 := with_states c (dset (s_name st) st (c_states c)) in
    let c2 := with_parent c1 (dset (s_name st) parent (c_parent c1)) in
    let c3 := with_children c2 (oset (Some (s_name st)) [] (c_children c2)) in
    match olookup parent (c_children c3) with
    | Some l => (with_children c3 (oset parent (l ++ [s_name st]) (c_children c3)), EOk)
    | None => (c3, EKeyError)           (* self._children[parent].append: parent = '' *)
    end in
  if no_parent parent then
    match truthy (root c) with
    | Some _ => (c, EStatechartError)
    | None => if is_history (s_kind st) then (c, EStatechartError) else register c
    end
  else
    match parent with
    | None => (c, EStatechartError)
    | Some p =>
        match state_for c p with
        | None => (c, EStatechartError)
        | Some ps =>
            if negb (is_composite (s_kind ps)) then (c, EStatechartError)
            else if is_history (s_kind st) && negb (kind_eqb (s_kind ps) KCompound) then (c, EStatechartError)
            else register c
        end
    end.

(* ---------------------------------------------------------------- transitions *)
Definition add_transition (c : chart) (t : transition) : chart * eres :=
  match state_for c (t_source t) with
  | None => (c, EStatechartError)
  | Some s =>
      if negb (owns_transitions (s_kind s)) then (c, EStatechartError)
      else match t_target t with
           | Some tgt => if has_state c tgt then (with_transitions c (c_transitions c ++ [t]), EOk)
                         else (c, EStatechartError)
           | None => (with_transitions c (c_transitions c ++ [t]), EOk)
           end
  end.

(* list.remove(x): first element equal (==) to x *)
Fixpoint remove_first_trans (t : transition) (l : list transition) : option (list transition) :=
  match l with
  | [] => None
  | x :: r => if trans_eqb x t then Some r
              else match remove_first_trans t r with Some r' => Some (x :: r') | None => None end
  end.

Definition remove_transition (c : chart) (t : transition) : chart * eres :=
  match remove_first_trans t (c_transitions c) with
  | Some l => (with_transitions c l, EOk)
  | None => (c, EStatechartError)
  end.

Fixpoint set_nth {A} (n : nat) (x : A) (l : list A) : list A :=
  match n, l with
  | O, _ :: r => x :: r
  | S n', y :: r => y :: set_nth n' x r
  | _, [] => []
  end.

(* rotate_transition(transition, new_source, new_target); '' = "not given" is modelled by None
   at the outer level: new_source : option name, new_target : option (option name).
   idx = None models a transition object that is not registered. *)
Definition rotate_transition (c : chart) (idx : option nat) (new_source : option name)
           (new_target : option (option name)) : chart * eres :=
  match new_source, new_target with
  | None, None => (c, EValueError)
  | _, _ =>
      match idx with
      | None => (c, EStatechartError)
      | Some i =>
          match nth_error (c_transitions c) i with
          | None => (c, EStatechartError)
          | Some t =>
              let src_ok := match new_source with
                            | None => true
                            | Some s => match state_for c s with
                                        | Some st => owns_transitions (s_kind st)
                                        | None => false
                                        end
                            end in
              let tgt_ok := match new_target with
                            | Some (Some tg) => has_state c tg
                            | _ => true
                            end in
              if src_ok && tgt_ok then
                let t1 := match new_source with Some s => set_source t s | None => t end in
                let t2 := match new_target with Some tg => set_target t1 tg | None => t1 end in
                (with_transitions c (set_nth i t2 (c_transitions c)), EOk)
              else (c, EStatechartError)
          end
      end
  end.

(* ---------------------------------------------------------------- remove_state *)
Definition clear_refs (n : name) (s : state) : state :=
  if kind_eqb (s_kind s) KCompound && ostr_eqb (s_initial s) (Some n) then set_initial s None
  else if is_history (s_kind s) && ostr_eqb (s_memory s) (Some n) then set_memory_ s None
  else s.

Definition remove_one (c : chart) (n : name) : chart * eres :=
  (* transitions touching n, references to n, the dictionaries *)
  let ts := filter (fun t => negb (str_eqb (t_source t) n || ostr_eqb (t_target t) (Some n))) (c_transitions c) in
  let sts := map (fun kv => (fst kv, clear_refs n (snd kv))) (c_states c) in
  let sts' := dremove n sts in
  let parent := match lookup n (c_parent c) with Some p => p | None => None end in
  let par' := dremove n (c_parent c) in
  let ch' := oremove (Some n) (c_children c) in
  match olookup parent ch' with
  | Some l =>
      (mkChart (c_name c) (c_description c) (c_preamble c) sts' par'
               (oset parent (remove_first n l) ch') ts, EOk)
  | None => (mkChart (c_name c) (c_description c) (c_preamble c) sts' par' ch' ts, EKeyError)
  end.

Fixpoint remove_state_fuel (fuel : nat) (c : chart) (n : name) : chart * eres :=
  match fuel with
  | O => (c, EKeyError)
  | S f =>
      if negb (has_state c n) then (c, EStatechartError) else
      let fix go (c : chart) (chs : list name) : chart * eres :=
          match chs with
          | [] => (c, EOk)
          | ch :: rest =>
              match remove_state_fuel f c ch with
              | (c', EOk) => go c' rest
              | (c', e) => (c', e)
              end
          end in
      match go c (children_for c n) with
      | (c', EOk) => remove_one c' n
      | (c', e) => (c', e)
      end
  end.
Definition remove_state (c : chart) (n : name) : chart * eres :=
  remove_state_fuel (S (length (c_states c))) c n.

(* ---------------------------------------------------------------- rename_state *)
Definition rename_refs (old new : name) (s : state) : state :=
  let s1 := if kind_eqb (s_kind s) KCompound && ostr_eqb (s_initial s) (Some old)
            then set_initial s (Some new) else s in
  if is_history (s_kind s1) && ostr_eqb (s_memory s1) (Some old) then set_memory_ s1 (Some new) else s1.

Definition rename_state (c : chart) (old new : name) : chart * eres :=
  if str_eqb old new then (c, EOk) else
  if has_state c new then (c, EStatechartError) else
  match state_for c old with
  | None => (c, EStatechartError)
  | Some st =>
      let ts := map (fun t =>
                       let t1 := if str_eqb (t_source t) old then set_source t new else t in
                       if ostr_eqb (t_target t1) (Some old) then set_target t1 (Some new) else t1)
                    (c_transitions c) in
      let sts := map (fun kv => (fst kv, rename_refs old new (snd kv))) (c_states c) in
      let par := map (fun kv => (fst kv, if ostr_eqb (snd kv) (Some old) then Some new else snd kv)) (c_parent c) in
      let parent_name := match lookup old par with Some p => p | None => None end in
      let ch := c_children c in
      let ch1 := match olookup parent_name ch with
                 | Some l => oset parent_name (remove_first old l ++ [new]) ch
                 | None => ch
                 end in
      (* d[new] = d.pop(old): the entry moves to the end *)
      let st' := match lookup old sts with Some s => s | None => st end in
      let sts' := dset new (set_name st' new) (dremove old sts) in
      let par' := dset new parent_name (dremove old par) in
      let chl := match olookup (Some old) ch1 with Some l => l | None => [] end in
      let ch2 := oset (Some new) chl (oremove (Some old) ch1) in
      (mkChart (c_name c) (c_description c) (c_preamble c) sts' par' ch2 ts, EOk)
  end.

(* ---------------------------------------------------------------- move_state *)
Definition clear_refs_move (n : name) (s : state) : state :=
  let s1 := if kind_eqb (s_kind s) KCompound && ostr_eqb (s_initial s) (Some n) then set_initial s None else s in
  if is_history (s_kind s1) && ostr_eqb (s_memory s1) (Some n) then set_memory_ s1 None else s1.

Definition move_state (c : chart) (n new_parent : name) : chart * eres :=
  match state_for c n with
  | None => (c, EStatechartError)
  | Some st =>
      if negb (has_state c new_parent) then (c, EStatechartError) else
      if mem new_parent (n :: descendants_for c n) then (c, EStatechartError) else
      let old_parent := parent_for c n in
      let par := dset n (Some new_parent) (c_parent c) in
      match olookup old_parent (c_children c) with
      | None => (with_parent c par, EKeyError)
      | Some l =>
          let ch1 := oset old_parent (remove_first n l) (c_children c) in
          let l2 := match olookup (Some new_parent) ch1 with Some x => x | None => [] end in
          let ch2 := oset (Some new_parent) (l2 ++ [n]) ch1 in
          let sts0 := if is_history (s_kind st) then dset n (set_memory_ st None) (c_states c) else c_states c in
          let sts := map (fun kv => (fst kv, clear_refs_move n (snd kv))) sts0 in
          (mkChart (c_name c) (c_description c) (c_preamble c) sts par ch2 (c_transitions c), EOk)
      end
  end.

(* ---------------------------------------------------------------- validate *)
Definition validate_initial (c : chart) : bool :=
  forallb (fun kv =>
             let s := snd kv in
             if kind_eqb (s_kind s) KCompound then
               match truthy (s_initial s) with
               | None => true
               | Some i => has_state c i && mem i (children_for c (fst kv))
               end
             else true) (c_states c).

Definition validate_memory (c : chart) : bool :=
  forallb (fun kv =>
             let s := snd kv in
             if is_history (s_kind s) then
               match s_memory s with
               | None => true
               | Some m =>
                   negb (str_eqb m (fst kv)) && has_state c m
                   && match parent_for c (fst kv) with
                      | Some p => mem m (children_for c p)
                      | None => false           (* children_for(None) raises StatechartError *)
                      end
               end
             else true) (c_states c).

Definition validate (c : chart) : bool := validate_initial c && validate_memory c.

(* ---------------------------------------------------------------- operations as data *)
Inductive eop :=
| EAddState (st : state) (parent : option name)
| ERemoveState (n : name)
| ERenameState (old new : name)
| EMoveState (n new_parent : name)
| EAddTransition (t : transition)
| ERemoveTransition (t : transition)
| ERotate (idx : option nat) (new_source : option name) (new_target : option (option name)).

Definition apply_eop (c : chart) (op : eop) : chart * eres :=
  match op with
  | EAddState st p => add_state c st p
  | ERemoveState n => remove_state c n
  | ERenameState o n => rename_state c o n
  | EMoveState n p => move_state c n p
  | EAddTransition t => add_transition c t
  | ERemoveTransition t => remove_transition c t
  | ERotate i s t => rotate_transition c i s t
  end.

(* ---------------------------------------------------------------- soundness (C16) as a checker *)
Fixpoint nodup_names (l : list name) : bool :=
  match l with [] => true | x :: r => negb (mem x r) && nodup_names r end.

Definition sound_b (c : chart) : bool :=
  let names := map fst (c_states c) in
  nodup_names names
  (* same key sets; keys of _states carry their own name *)
  && forallb (fun kv => str_eqb (fst kv) (s_name (snd kv))) (c_states c)
  && strs_eqb (sort_names names) (sort_names (map fst (c_parent c)))
  && nodup_names (map fst (c_parent c))
  && list_eqb ostr_eqb (None :: map Some (sort_names names))
                       (match sort (fun a b => match a, b with
                                               | None, _ => true
                                               | Some _, None => false
                                               | Some x, Some y => str_leb x y end)
                                   (map fst (c_children c)) with l => l end)
  (* p = parent(n)  <->  n in children(p), no duplicates among children *)
  && forallb (fun kv => match snd kv with
                        | Some p => has_state c p && (count_occ string_dec (children_for c p) (fst kv) =? 1)%nat
                        | None => match olookup None (c_children c) with
                                  | Some l => (count_occ string_dec l (fst kv) =? 1)%nat
                                  | None => false
                                  end
                        end) (c_parent c)
  && forallb (fun kv => forallb (fun ch => opt_eqb ostr_eqb (lookup ch (c_parent c)) (Some (fst kv))) (snd kv))
             (c_children c)
  (* at most one root and every state reaches it: depth computation does not run out of fuel *)
  && (length (match olookup None (c_children c) with Some l => l | None => [] end) <=? 1)%nat
  && forallb (fun n => (length (ancestors_for c n) <? length (c_parent c))%nat) names
  (* transitions *)
  && forallb (fun t => match state_for c (t_source t) with
                       | Some s => owns_transitions (s_kind s)
                       | None => false
                       end
                       && match t_target t with Some tg => has_state c tg | None => true end)
             (c_transitions c)
  (* no dangling initial / memory; validate() passes *)
  && forallb (fun kv => match s_initial (snd kv) with Some i => has_state c i | None => true end
                        && match s_memory (snd kv) with Some m => has_state c m | None => true end)
             (c_states c)
  && validate c.
