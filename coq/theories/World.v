(* World.v -- listeners (sismic/interpreter/listener.py, Interpreter.attach/bind/
   bind_property_statechart) and the instantiation of the interpreter model with them.

   Level 0: an interpreter without listeners (this is what a property statechart's interpreter is).
   Level 1: the monitored interpreter; its listeners are recorders (plain callables attached with
   attach), bound callables and bound interpreters (InternalEventListener) and property
   statecharts (PropertyStatechartListener), which run a level-0 interpreter inside emit. *)
From Sismic Require Import Base Chart Interp.
Open Scope list_scope.

Inductive listener :=
| LRec (id : nat)         (* attach(callable): records every meta-event *)
| LCallable (id : nat)    (* bind(callable) *)
| LInterp (id : nat)      (* bind(interpreter) *)
| LProp (id : nat).       (* bind_property_statechart(chart) *)

Fixpoint nlookup {V} (k : nat) (d : list (nat * V)) : option V :=
  match d with [] => None | (k', v) :: d' => if Nat.eqb k k' then Some v else nlookup k d' end.
Fixpoint nset {V} (k : nat) (v : V) (d : list (nat * V)) : list (nat * V) :=
  match d with
  | [] => [(k, v)]
  | (k', v') :: d' => if Nat.eqb k k' then (k, v) :: d' else (k', v') :: nset k v d'
  end.

Section World.
  Variable ctx : Type.
  Variable exec_code : call ctx -> ctx -> option (ctx * list event).
  Variable eval_code : call ctx -> ctx -> option bool.

  Record world := mkWorld {
    w_listeners : list listener;                     (* in attach order *)
    w_logs : list (nat * list meta);                 (* what each recorder received *)
    w_calls : list (nat * list event);               (* what each bound callable received *)
    w_bound : list (nat * istate ctx);               (* bound interpreters *)
    w_props : list (nat * (chart * istate ctx));     (* property statechart interpreters *)
    w_tr : list (obs ctx);                           (* evaluator calls of property interpreters, newest first *)
    w_fuel : nat
  }.


  (* level 0: no listeners *)
  Definition emit0 (_ : Z) (_ : meta) (x : unit) : unit * option err := (x, None).

  Definition execute0 (sc : chart) (fuel : nat) (now : Z) (s : istate ctx)
    : mstate ctx unit * (list macrostep + err) :=
    execute ctx unit exec_code eval_code emit0 sc fuel now (mkM s tt []).

  (* InternalEventListener.__call__: only 'event sent' is forwarded, as a plain Event *)
  Definition as_external (e : event) : event := mkEvent External (e_name e) (e_data e).

  Definition deliver_one (now : Z) (m : meta) (l : listener) (w : world) : world * option err :=
    match l with
    | LRec id =>
        let old := match nlookup id (w_logs w) with Some x => x | None => [] end in
        (mkWorld (w_listeners w) (nset id (old ++ [m]) (w_logs w)) (w_calls w) (w_bound w)
                 (w_props w) (w_tr w) (w_fuel w), None)
    | LCallable id =>
        match m with
        | MSent e =>
            let old := match nlookup id (w_calls w) with Some x => x | None => [] end in
            (mkWorld (w_listeners w) (w_logs w) (nset id (old ++ [as_external e]) (w_calls w))
                     (w_bound w) (w_props w) (w_tr w) (w_fuel w), None)
        | _ => (w, None)
        end
    | LInterp id =>
        match m with
        | MSent e =>
            match nlookup id (w_bound w) with
            | Some bi =>
                (mkWorld (w_listeners w) (w_logs w) (w_calls w)
                         (nset id (queue_event bi (as_external e)) (w_bound w))
                         (w_props w) (w_tr w) (w_fuel w), None)
            | None => (w, None)
            end
        | _ => (w, None)
        end
    | LProp id =>
        (* self._interpreter.queue(event); self._interpreter.execute();
           if self._interpreter.final: raise PropertyStatechartError *)
        match nlookup id (w_props w) with
        | None => (w, None)
        | Some (psc, ps) =>
            let ps1 := queue_event ps (meta_to_event m) in
            let '(ms, res) := execute0 psc (w_fuel w) now ps1 in
            let w' := mkWorld (w_listeners w) (w_logs w) (w_calls w) (w_bound w)
                              (nset id (psc, m_i ms) (w_props w))
                              (m_tr ms ++ w_tr w) (w_fuel w) in
            match res with
            | inr e => (w', Some e)
            | inl _ => if is_final (m_i ms) then (w', Some (EProperty id)) else (w', None)
            end
        end
    end.

  Fixpoint deliver (now : Z) (m : meta) (ls : list listener) (w : world) : world * option err :=
    match ls with
    | [] => (w, None)
    | l :: rest =>
        match deliver_one now m l w with
        | (w', Some e) => (w', Some e)
        | (w', None) => deliver now m rest w'
        end
    end.

  Definition emit1 (now : Z) (m : meta) (w : world) : world * option err :=
    deliver now m (w_listeners w) w.

  (* level 1 *)
  Definition execute_once1 (sc : chart) (fuel : nat) (now : Z) (s : istate ctx) (w : world)
    : mstate ctx world * (option macrostep + err) :=
    execute_once ctx world exec_code eval_code emit1 sc fuel now (mkM s w []).

End World.

Arguments mkWorld {ctx}. Arguments w_listeners {ctx}. Arguments w_logs {ctx}. Arguments w_calls {ctx}.
Arguments w_bound {ctx}. Arguments w_props {ctx}. Arguments w_tr {ctx}. Arguments w_fuel {ctx}.

