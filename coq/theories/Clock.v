(* Clock.v -- executable model of sismic/clock/clock.py (SimulatedClock).

   Exact rational arithmetic (Q); every method takes the stream of values that the
   successive calls to time.time() return and gives back the unread rest, so the number
   of wall-clock reads is part of the model (the speed setter and the time setter read the
   wall clock twice, and only read it for _elapsed when the clock is started).

   Source transcribed: sismic/clock/clock.py, class SimulatedClock. *)
From Coq Require Import QArith List Bool.
Import ListNotations.
Open Scope Q_scope.

Record clock := mkClock {
  c_base  : Q;      (* self._base  *)
  c_time  : Q;      (* self._time  *)
  c_play  : bool;   (* self._play  *)
  c_speed : Q       (* self._speed *)
}.

(* __init__: self._base = time(); _time = 0; _play = False; _speed = 1 *)
Definition clock_init (w : Q) : clock := mkClock w 0 false 1.

(* _elapsed: (time() - self._base) * self._speed if self._play else 0
   The wall clock is read only when the clock is started. *)
Definition elapsed (c : clock) (ws : list Q) : option (Q * list Q) :=
  if c_play c then
    match ws with
    | w :: ws' => Some ((w - c_base c) * c_speed c, ws')
    | [] => None
    end
  else Some (0, ws).

Inductive cop :=
| OpStart
| OpStop
| OpSetSpeed (v : Q)
| OpTime
| OpSetTime (v : Q).

Inductive cres :=
| RUnit                 (* method returned None *)
| RVal (v : Q)          (* time getter returned v *)
| RValueError           (* time setter raised ValueError *)
| RStarved.             (* the model ran out of scripted wall-clock values (harness error) *)

(* One method call.  Returns new state, result, unread wall values. *)
Definition clock_step (c : clock) (op : cop) (ws : list Q) : clock * cres * list Q :=
  match op with
  | OpStart =>
      (* if not self._play: self._base = time(); self._play = True *)
      if c_play c then (c, RUnit, ws)
      else match ws with
           | w :: ws' => (mkClock w (c_time c) true (c_speed c), RUnit, ws')
           | [] => (c, RStarved, ws)
           end
  | OpStop =>
      (* if self._play: self._time += self._elapsed; self._play = False *)
      if c_play c then
        match elapsed c ws with
        | Some (e, ws') => (mkClock (c_base c) (c_time c + e) false (c_speed c), RUnit, ws')
        | None => (c, RStarved, ws)
        end
      else (c, RUnit, ws)
  | OpSetSpeed v =>
      (* self._time += self._elapsed; self._base = time(); self._speed = speed *)
      match elapsed c ws with
      | Some (e, ws') =>
          match ws' with
          | w2 :: ws'' => (mkClock w2 (c_time c + e) (c_play c) v, RUnit, ws'')
          | [] => (c, RStarved, ws)
          end
      | None => (c, RStarved, ws)
      end
  | OpTime =>
      (* return self._time + self._elapsed *)
      match elapsed c ws with
      | Some (e, ws') => (c, RVal (c_time c + e), ws')
      | None => (c, RStarved, ws)
      end
  | OpSetTime v =>
      (* current_time = self.time
         if new_time < current_time: raise ValueError
         self._time = new_time; self._base = time() *)
      match elapsed c ws with
      | Some (e, ws') =>
          let cur := c_time c + e in
          if Qlt_le_dec v cur then (c, RValueError, ws')
          else match ws' with
               | w2 :: ws'' => (mkClock w2 v (c_play c) (c_speed c), RUnit, ws'')
               | [] => (c, RStarved, ws)
               end
      | None => (c, RStarved, ws)
      end
  end.

(* A run: fold over operations, collecting results. *)
Fixpoint clock_run (c : clock) (ops : list cop) (ws : list Q) : clock * list cres * list Q :=
  match ops with
  | [] => (c, [], ws)
  | op :: ops' =>
      let '(c1, r, ws1) := clock_step c op ws in
      let '(c2, rs, ws2) := clock_run c1 ops' ws1 in
      (c2, r :: rs, ws2)
  end.

(* ---- comparison helpers used by the correspondence check ---- *)
Definition clock_eqb (a b : clock) : bool :=
  Qeq_bool (c_base a) (c_base b) && Qeq_bool (c_time a) (c_time b)
  && Bool.eqb (c_play a) (c_play b) && Qeq_bool (c_speed a) (c_speed b).

Definition cres_eqb (a b : cres) : bool :=
  match a, b with
  | RUnit, RUnit => true
  | RVal x, RVal y => Qeq_bool x y
  | RValueError, RValueError => true
  | _, _ => false
  end.
