(* IO.v -- model of sismic/io/datadict.py (export_to_dict, import_from_dict and helpers), of the
   schema validation performed by sismic/io/yaml.py (SCHEMA.statechart checked with the `schema`
   library, including the Use(str)/Use(int) coercions) and of the == methods of
   sismic/model/elements.py.

   YAML data trees are the values ruamel's safe loader produces; mapping keys are strings.  The
   text layer itself (ruamel dump/load) is third-party code and is not modelled: the harness
   checks load(dump(d)) = d on every exported dictionary. *)
From Sismic Require Import Base Chart Edit.
Open Scope string_scope.
Open Scope list_scope.

Inductive ydata :=
| YNull
| YBool (b : bool)
| YInt (z : Z)
| YFloat (repr : string) (trunc : Z)      (* a float: its str() and its int() *)
| YStr (s : string)
| YList (l : list ydata)
| YMap (m : list (string * ydata)).

(* ---------------------------------------------------------------- strings *)
(* str.strip(): ASCII whitespace (space, \t \n \v \f \r and \x1c-\x1f) *)
Definition is_space (a : ascii) : bool :=
  let n := N_of_ascii a in
  (N.eqb n 32 || (N.leb 9 n && N.leb n 13) || (N.leb 28 n && N.leb n 31))%N.

Fixpoint lstrip (s : string) : string :=
  match s with
  | EmptyString => EmptyString
  | String a r => if is_space a then lstrip r else s
  end.
Fixpoint rev_string (s acc : string) : string :=
  match s with EmptyString => acc | String a r => rev_string r (String a acc) end.
Definition strip (s : string) : string :=
  rev_string (lstrip (rev_string (lstrip s) EmptyString)) EmptyString.

Definition nonempty (s : string) : bool := match s with EmptyString => false | _ => true end.

(* str(int) *)
Fixpoint digits_of_pos (fuel : nat) (n : N) (acc : string) : string :=
  match fuel with
  | O => acc
  | S f =>
      let d := ascii_of_N (48 + N.modulo n 10) in
      let q := N.div n 10 in
      if N.eqb q 0 then String d acc else digits_of_pos f q (String d acc)
  end.
Definition string_of_Z (z : Z) : string :=
  match z with
  | Z0 => "0"
  | Zpos p => digits_of_pos (S (N.to_nat (N.log2 (Npos p)))) (Npos p) EmptyString
  | Zneg p => String "-"%char (digits_of_pos (S (N.to_nat (N.log2 (Npos p)))) (Npos p) EmptyString)
  end.

(* int(str): optional surrounding whitespace, optional sign, decimal digits *)
Fixpoint parse_digits (s : string) (acc : N) (seen : bool) : option N :=
  match s with
  | EmptyString => if seen then Some acc else None
  | String a r =>
      let n := N_of_ascii a in
      if (N.leb 48 n && N.leb n 57)%N then parse_digits r (acc * 10 + (n - 48))%N true else None
  end.
Definition int_of_string (s : string) : option Z :=
  match strip s with
  | String "-"%char r => option_map (fun n => Z.opp (Z.of_N n)) (parse_digits r 0%N false)
  | String "+"%char r => option_map Z.of_N (parse_digits r 0%N false)
  | r => option_map Z.of_N (parse_digits r 0%N false)
  end.

(* ---------------------------------------------------------------- schema coercions *)
(* Use(str): str(value).  Lists and mappings would give Python's repr, which is not modelled. *)
Definition use_str (d : ydata) : option string :=
  match d with
  | YNull => Some "None"
  | YBool true => Some "True"
  | YBool false => Some "False"
  | YInt z => Some (string_of_Z z)
  | YFloat r _ => Some r
  | YStr s => Some s
  | YList _ | YMap _ => Some "<repr not modelled>"
  end.

(* Or(Use(int), 'high', 'low') *)
Definition use_priority (d : ydata) : option ydata :=
  match d with
  | YInt z => Some (YInt z)
  | YBool b => Some (YInt (if b then 1 else 0))
  | YFloat _ t => Some (YInt t)
  | YStr s => match int_of_string s with
              | Some z => Some (YInt z)
              | None => if str_eqb s "high" || str_eqb s "low" then Some (YStr s) else None
              end
  | _ => None
  end.

Fixpoint ylookup (k : string) (m : list (string * ydata)) : option ydata :=
  match m with
  | [] => None
  | (k', v) :: r => if str_eqb k k' then Some v else ylookup k r
  end.

Definition keys_within (m : list (string * ydata)) (allowed : list string) : bool :=
  forallb (fun kv => mem (fst kv) allowed) m.

(* the key sets of SCHEMA (regenerated from yaml.py by the harness and compared, see Generated.v) *)
Definition contract_keys := ["before"; "after"; "always"].
Definition transition_keys := ["target"; "event"; "guard"; "action"; "contract"; "priority"].
Definition state_keys := ["name"; "type"; "on entry"; "on exit"; "transitions"; "contract"; "initial";
                          "parallel states"; "states"; "memory"].
Definition statechart_keys := ["name"; "description"; "preamble"; "root state"].
Definition type_values := ["final"; "shallow history"; "deep history"].

(* mapping a field through a validator; None = SchemaError *)
Fixpoint map_opt {A B} (f : A -> option B) (l : list A) : option (list B) :=
  match l with
  | [] => Some []
  | x :: r => match f x, map_opt f r with Some y, Some ys => Some (y :: ys) | _, _ => None end
  end.

Definition v_str (kv : string * ydata) : option (string * ydata) :=
  option_map (fun s => (fst kv, YStr s)) (use_str (snd kv)).

Definition schema_contract (d : ydata) : option ydata :=
  match d with
  | YMap m =>
      (* the Or(...) key is not Optional: at least one of the three keys must be present *)
      match m with
      | [] => None
      | _ => if keys_within m contract_keys then option_map YMap (map_opt v_str m) else None
      end
  | _ => None
  end.

Definition schema_contracts (d : ydata) : option ydata :=
  match d with
  | YList l => option_map YList (map_opt schema_contract l)
  | _ => None
  end.

Definition schema_transition (d : ydata) : option ydata :=
  match d with
  | YMap m =>
      if keys_within m transition_keys then
        option_map YMap
          (map_opt (fun kv =>
                      if str_eqb (fst kv) "contract" then option_map (fun x => (fst kv, x)) (schema_contracts (snd kv))
                      else if str_eqb (fst kv) "priority" then option_map (fun x => (fst kv, x)) (use_priority (snd kv))
                      else v_str kv) m)
      else None
  | _ => None
  end.

Fixpoint schema_state (fuel : nat) (d : ydata) : option ydata :=
  match fuel with
  | O => None
  | S f =>
      match d with
      | YMap m =>
          if keys_within m state_keys && (match ylookup "name" m with Some _ => true | None => false end) then
            option_map YMap
              (map_opt (fun kv =>
                          let k := fst kv in
                          let wrap := option_map (fun x => (k, x)) in
                          if str_eqb k "contract" then wrap (schema_contracts (snd kv))
                          else if str_eqb k "transitions" then
                                 match snd kv with
                                 | YList l => wrap (option_map YList (map_opt schema_transition l))
                                 | _ => None
                                 end
                          else if str_eqb k "states" || str_eqb k "parallel states" then
                                 match snd kv with
                                 | YList l => wrap (option_map YList (map_opt (schema_state f) l))
                                 | _ => None
                                 end
                          else if str_eqb k "type" then
                                 match snd kv with
                                 | YStr s => if mem s type_values then Some kv else None
                                 | _ => None
                                 end
                          else v_str kv) m)
          else None
      | _ => None
      end
  end.

Fixpoint ydepth (d : ydata) : nat :=
  match d with
  | YList l => S (fold_right (fun x acc => Nat.max (ydepth x) acc) 0 l)
  | YMap m => S (fold_right (fun kv acc => Nat.max (ydepth (snd kv)) acc) 0 m)
  | _ => 1
  end.

Definition schema_statechart (d : ydata) : option ydata :=
  match d with
  | YMap [("statechart", YMap m)] =>
      if keys_within m statechart_keys
         && (match ylookup "name" m with Some _ => true | None => false end)
         && (match ylookup "root state" m with Some _ => true | None => false end)
      then
        option_map (fun m' => YMap [("statechart", YMap m')])
          (map_opt (fun kv =>
                      if str_eqb (fst kv) "root state"
                      then option_map (fun x => (fst kv, x)) (schema_state (S (ydepth (snd kv))) (snd kv))
                      else v_str kv) m)
      else None
  | _ => None
  end.

(* ---------------------------------------------------------------- import_from_dict *)
Definition get_str (k : string) (m : list (string * ydata)) : option string :=
  match ylookup k m with Some (YStr s) => Some s | _ => None end.

(* x.strip() if x else None *)
Definition strip_opt (o : option string) : option string :=
  match o with
  | Some s => if nonempty s then Some (strip s) else None
  | None => None
  end.

(* for condition in d.get('contract', []): before / after / always (first truthy key wins) *)
Fixpoint import_contract (l : list ydata) (pre post inv : list code) : list code * list code * list code :=
  match l with
  | [] => (pre, post, inv)
  | YMap m :: r =>
      match get_str "before" m with
      | Some s => if nonempty s then import_contract r (pre ++ [strip s]) post inv else
                    match get_str "after" m with
                    | Some s2 => if nonempty s2 then import_contract r pre (post ++ [strip s2]) inv else
                                   match get_str "always" m with
                                   | Some s3 => if nonempty s3 then import_contract r pre post (inv ++ [strip s3])
                                                else import_contract r pre post inv
                                   | None => import_contract r pre post inv
                                   end
                    | None => match get_str "always" m with
                              | Some s3 => if nonempty s3 then import_contract r pre post (inv ++ [strip s3])
                                           else import_contract r pre post inv
                              | None => import_contract r pre post inv
                              end
                    end
      | None =>
          match get_str "after" m with
          | Some s2 => if nonempty s2 then import_contract r pre (post ++ [strip s2]) inv else
                         match get_str "always" m with
                         | Some s3 => if nonempty s3 then import_contract r pre post (inv ++ [strip s3])
                                      else import_contract r pre post inv
                         | None => import_contract r pre post inv
                         end
          | None => match get_str "always" m with
                    | Some s3 => if nonempty s3 then import_contract r pre post (inv ++ [strip s3])
                                 else import_contract r pre post inv
                    | None => import_contract r pre post inv
                    end
          end
      end
  | _ :: r => import_contract r pre post inv
  end.

Definition contract_list (m : list (string * ydata)) : list ydata :=
  match ylookup "contract" m with Some (YList l) => l | _ => [] end.

Definition ylist_of (k : string) (m : list (string * ydata)) : list ydata :=
  match ylookup k m with Some (YList l) => l | _ => [] end.

(* _import_state_from_dict; None = StatechartError *)
Definition import_state (m : list (string * ydata)) : option state :=
  match get_str "name" m with
  | None => None
  | Some nm =>
      let on_entry := strip_opt (get_str "on entry" m) in
      let on_exit := strip_opt (get_str "on exit" m) in
      let '(pre, post, inv) := import_contract (contract_list m) [] [] [] in
      let mk := fun k ini mem_ => Some (mkState nm k ini mem_ on_entry on_exit pre post inv) in
      match ylookup "type" m with
      | Some (YStr "final") => mk KFinal None None
      | Some (YStr "shallow history") => mk KShallow None (get_str "memory" m)
      | Some (YStr "deep history") => mk KDeep None (get_str "memory" m)
      | Some _ => None
      | None =>
          match ylist_of "states" m, ylist_of "parallel states" m with
          | _ :: _, _ :: _ => None       (* both 'states' and 'parallel states' *)
          | _ :: _, [] => mk KCompound (get_str "initial" m) None
          | [], _ :: _ => mk KOrthogonal None None
          | [], [] => mk KBasic None None
          end
      end
  end.

(* _import_transition_from_dict *)
Definition import_transition (source : name) (m : list (string * ydata)) : transition :=
  let prio := match ylookup "priority" m with
              | Some (YStr "low") => (-1)%Z
              | Some (YStr "high") => 1%Z
              | Some (YInt z) => z
              | _ => 0%Z
              end in
  let '(pre, post, inv) := import_contract (contract_list m) [] [] [] in
  mkTrans source (get_str "target" m) (strip_opt (get_str "event" m)) (strip_opt (get_str "guard" m))
          (strip_opt (get_str "action" m)) prio pre post inv.

(* the explicit stack of import_from_dict: pop from the END, push children in order *)
Fixpoint import_walk (fuel : nat) (stack : list (list (string * ydata) * option name))
         (states : list (state * option name)) (trans : list transition)
  : option (list (state * option name) * list transition) :=
  match fuel with
  | O => None
  | S f =>
      match rev stack with
      | [] => Some (states, trans)
      | (m, parent) :: rest_rev =>
          let stack' := rev rest_rev in
          match import_state m with
          | None => None
          | Some st =>
              let subs := match s_kind st with
                          | KCompound => ylist_of "states" m
                          | KOrthogonal => ylist_of "parallel states" m
                          | _ => []
                          end in
              let pushed := fold_left (fun acc d => match d with
                                                    | YMap sm => acc ++ [(sm, Some (s_name st))]
                                                    | _ => acc
                                                    end) subs stack' in
              let ts := fold_left (fun acc d => match d with
                                                | YMap tm => acc ++ [import_transition (s_name st) tm]
                                                | _ => acc
                                                end) (ylist_of "transitions" m) trans in
              import_walk f pushed (states ++ [(st, parent)]) ts
          end
      end
  end.

Fixpoint count_nodes (d : ydata) : nat :=
  match d with
  | YList l => S (fold_right (fun x acc => count_nodes x + acc) 0 l)
  | YMap m => S (fold_right (fun kv acc => count_nodes (snd kv) + acc) 0 m)
  | _ => 1
  end.

Definition empty_chart (nm : string) (descr pre : option string) : chart :=
  mkChart nm descr pre [] [] [(None, [])] [].

Fixpoint add_states (c : chart) (l : list (state * option name)) : option chart :=
  match l with
  | [] => Some c
  | (st, p) :: r => match add_state c st p with (c', EOk) => add_states c' r | _ => None end
  end.
Fixpoint add_transitions (c : chart) (l : list transition) : option chart :=
  match l with
  | [] => Some c
  | t :: r => match add_transition c t with (c', EOk) => add_transitions c' r | _ => None end
  end.

(* import_from_dict on schema-validated data; None = StatechartError *)
Definition import_from_dict (d : ydata) : option chart :=
  match d with
  | YMap [("statechart", YMap m)] =>
      match get_str "name" m, ylookup "root state" m with
      | Some nm, Some (YMap root) =>
          match import_walk (S (count_nodes (YMap root))) [(root, None)] [] [] with
          | None => None
          | Some (states, trans) =>
              match add_states (empty_chart nm (get_str "description" m) (get_str "preamble" m)) states with
              | None => None
              | Some c => add_transitions c trans
              end
          end
      | _, _ => None
      end
  | _ => None
  end.

(* import_from_yaml after yaml loading: schema, import, validate.  None = StatechartError *)
Definition import_pipeline (d : ydata) : option chart :=
  match schema_statechart d with
  | None => None
  | Some d' =>
      match import_from_dict d' with
      | None => None
      | Some c => if validate c then Some c else None
      end
  end.

(* ---------------------------------------------------------------- export_to_dict *)
Definition opt_field (k : string) (o : option string) : list (string * ydata) :=
  match o with
  | Some s => if nonempty s then [(k, YStr s)] else []
  | None => []
  end.

Definition export_contract (pre post inv : list code) : list (string * ydata) :=
  match pre, post, inv with
  | [], [], [] => []
  | _, _, _ => [("contract", YList (map (fun c => YMap [("before", YStr c)]) pre
                                   ++ map (fun c => YMap [("after", YStr c)]) post
                                   ++ map (fun c => YMap [("always", YStr c)]) inv))]
  end.

Definition export_transition (t : transition) : ydata :=
  YMap (opt_field "event" (t_event t) ++ opt_field "guard" (t_guard t) ++ opt_field "target" (t_target t)
        ++ opt_field "action" (t_action t)
        ++ (if Z.eqb (t_priority t) 0 then []
            else [("priority", if Z.eqb (t_priority t) (-1) then YStr "low"
                               else if Z.eqb (t_priority t) 1 then YStr "high" else YInt (t_priority t))])
        ++ export_contract (t_pre t) (t_post t) (t_inv t)).

Fixpoint export_state (fuel : nat) (c : chart) (n : name) : ydata :=
  match fuel with
  | O => YNull
  | S f =>
      match state_for c n with
      | None => YNull
      | Some s =>
          YMap ([("name", YStr (s_name s))]
                ++ (match s_kind s with
                    | KShallow => ("type", YStr "shallow history") :: opt_field "memory" (s_memory s)
                    | KDeep => ("type", YStr "deep history") :: opt_field "memory" (s_memory s)
                    | KFinal => [("type", YStr "final")]
                    | _ => []
                    end)
                ++ opt_field "on entry" (s_on_entry s) ++ opt_field "on exit" (s_on_exit s)
                ++ (match s_kind s with KCompound => opt_field "initial" (s_initial s) | _ => [] end)
                ++ export_contract (s_pre s) (s_post s) (s_inv s)
                ++ (if owns_transitions (s_kind s) then
                      match transitions_from c (s_name s) with
                      | [] => []
                      | ts => [("transitions", YList (map export_transition ts))]
                      end
                    else [])
                ++ (match s_kind s with
                    | KCompound => [("states", YList (map (export_state f c) (children_for c (s_name s))))]
                    | KOrthogonal => [("parallel states", YList (map (export_state f c) (children_for c (s_name s))))]
                    | _ => []
                    end))
      end
  end.

Definition export_to_dict (c : chart) : ydata :=
  YMap [("statechart",
         YMap ([("name", YStr (c_name c))]
               ++ opt_field "description" (c_description c) ++ opt_field "preamble" (c_preamble c)
               ++ [("root state", match root c with
                                  | Some r => export_state (S (length (c_states c))) c r
                                  | None => YNull
                                  end)]))].

(* ---------------------------------------------------------------- canonical form and equality of data trees *)
Fixpoint ydata_eqb (fuel : nat) (a b : ydata) : bool :=
  match fuel with
  | O => false
  | S f =>
      match a, b with
      | YNull, YNull => true
      | YBool x, YBool y => Bool.eqb x y
      | YInt x, YInt y => Z.eqb x y
      | YFloat r t, YFloat r' t' => str_eqb r r' && Z.eqb t t'
      | YStr x, YStr y => str_eqb x y
      | YList l, YList l' => list_eqb (ydata_eqb f) l l'
      | YMap m, YMap m' =>
          (* dict equality does not depend on the order of keys *)
          Nat.eqb (length m) (length m')
          && forallb (fun kv => match ylookup (fst kv) m' with
                                | Some v => ydata_eqb f (snd kv) v
                                | None => false
                                end) m
      | _, _ => false
      end
  end.
Definition ydata_eq (a b : ydata) : bool := ydata_eqb (S (Nat.max (ydepth a) (ydepth b))) a b.

(* ---------------------------------------------------------------- == of elements.py (after the fix) *)
(* BasicState.__eq__ etc.: same class, same contract lists, same name, same on_entry/on_exit;
   history states also the same memory.  (CompoundState.__eq__ does not compare `initial`.) *)
Definition py_state_eq (a b : state) : bool :=
  kind_eqb (s_kind a) (s_kind b)
  && strs_eqb (s_pre a) (s_pre b) && strs_eqb (s_post a) (s_post b) && strs_eqb (s_inv a) (s_inv b)
  && str_eqb (s_name a) (s_name b)
  && ostr_eqb (s_on_entry a) (s_on_entry b) && ostr_eqb (s_on_exit a) (s_on_exit b)
  && (if is_history (s_kind a) then ostr_eqb (s_memory a) (s_memory b) else true).
Definition py_trans_eq (a b : transition) : bool := trans_eqb a b.
