(* Runner.v -- two-thread labelled transition system for sismic/runner/runner.py (AsyncRunner)
   and the queue functions of sismic/interpreter/default.py (queue, _queue_event, _select_event,
   execute_once).  Stdlib only, executable (evaluated by vm_compute in the C20 correspondence run).

   Grain: ONE atomic action per Python-level access to state shared between the runner thread and the
   client thread (threading.Event flags, Thread.is_alive/start/join, the external queue list,
   Interpreter._time, clock.time) and per hook call.  This grain is an ASSUMPTION about CPython (GIL:
   list.insert, list.pop, Event.set/clear/is_set are not interleaved internally); real preemption,
   time.sleep, time.time and __del__ are not modelled.

   threading.Event.wait is modelled with its Condition semantics: a thread that found the flag clear is
   registered as a waiter (program counter PWaiting, no enabled action) and is woken by the next set(),
   after which it proceeds even if the flag has been cleared again in the meantime.

   Source lines transcribed (runner.py as of commit "fix: AsyncRunner.execute ran a second macro step
   and dropped it"):
     _run      : before_run; _unpaused.wait; while not interpreter.final and not _stop.is_set:
                 before_execute; r = execute(); after_execute(r); sleep; _unpaused.wait
                 -- then _stop.set; after_run
     execute   : steps=[]; step=execute_once(); while step: append; if not execute_all: break;
                 step=execute_once(); return steps
     start/stop/pause/unpause/wait as written.
     Interpreter.execute_once : _time = clock.time ; _compute_steps (initialisation step, or
                 _select_event() peek) ; _select_event(consume=True) (re-select + queue.pop(0)).
     Interpreter._queue_event : time = self.time + delay ; position = bisect_right(keys, time) ;
                 queue.insert(position, (time, event))      -- two atomic actions A1, A2. *)
From Coq Require Import List ZArith Bool Arith Lia.
Import ListNotations.
Local Open Scope Z_scope.

(* ------------------------------------------------------------------------------------------ *)
(* Data                                                                                       *)
(* ------------------------------------------------------------------------------------------ *)

(* An external event: identity (distinct per queue call in a script), whether its name is 'fin',
   and its delay. *)
Record ev := mk_ev { ev_id : nat; ev_fin : bool; ev_delay : Z }.

Definition ev_eqb (a b : ev) : bool :=
  Nat.eqb (ev_id a) (ev_id b) && Bool.eqb (ev_fin a) (ev_fin b) && Z.eqb (ev_delay a) (ev_delay b).

(* The statechart family: no reaction to 'fin'; 'fin' leads to a top-level final state; the initial
   state is a top-level final state (the interpreter is final right after its initialisation step). *)
Inductive chart := ChPlain | ChFin | ChInitFinal.

(* A macro step as far as C20 is concerned: the initialisation step, or a step computed for the peeked
   event e, together with what _select_event(consume=True) popped afterwards. *)
Inductive mstep := MInit | MEv (e : ev) (popped : option ev).

Inductive call := CStart | CQueue (e : ev) | CPause | CUnpause | CStop | CClock (t : Z).
Inductive outcome := OK | ErrRuntime | ErrValue.

Record config := mk_config {
  cf_chart : chart;
  cf_all : bool;        (* AsyncRunner(execute_all=...) *)
  cf_atomic : bool;     (* defect switch: true = bisect+insert made one atomic action (intended);
                           false = the code as it is *)
  cf_script : list call
}.

(* runner thread program counter *)
Inductive rpc :=
| PNotStarted | PBeforeRun | PWait | PWaiting | PTestFinal | PTestStop | PBeforeExec
| PExTime | PExPeek | PExPop | PAfterExec | PStopSet | PAfterRun | PDone.

(* client thread position inside the current call *)
Inductive cpc :=
| C0
| CStart1 | CStart2 | CStart3
| CQ1 (idx : nat) (key : Z)
| CStop1 | CStop2 | CStop3 | CJoining.

Record state := mk_state {
  s_unp : bool;                 (* _unpaused flag *)
  s_stop : bool;                (* _stop flag *)
  s_started : bool;             (* Thread.start() has been called *)
  s_alive : bool;               (* Thread.is_alive() *)
  s_clock : Z;                  (* interpreter.clock.time (SimulatedClock, not playing) *)
  s_itime : Z;                  (* interpreter._time *)
  s_queue : list (Z * ev);      (* interpreter._external_queue *)
  s_init : bool;                (* interpreter._initialized *)
  s_fin : bool;                 (* interpreter.final *)
  s_rpc : rpc;
  s_steps : list mstep;         (* local `steps` of AsyncRunner.execute *)
  s_pend : option ev;           (* event peeked by _compute_steps *)
  s_script : list call;         (* remaining client script, head = current call *)
  s_cpc : cpc
}.

Definition init_state (cf : config) : state :=
  mk_state false false false false 0 0 [] false false PNotStarted [] None (cf_script cf) C0.

(* field updates *)
Definition set_unp v s := mk_state v (s_stop s) (s_started s) (s_alive s) (s_clock s) (s_itime s) (s_queue s) (s_init s) (s_fin s) (s_rpc s) (s_steps s) (s_pend s) (s_script s) (s_cpc s).
Definition set_stop v s := mk_state (s_unp s) v (s_started s) (s_alive s) (s_clock s) (s_itime s) (s_queue s) (s_init s) (s_fin s) (s_rpc s) (s_steps s) (s_pend s) (s_script s) (s_cpc s).
Definition set_started v s := mk_state (s_unp s) (s_stop s) v (s_alive s) (s_clock s) (s_itime s) (s_queue s) (s_init s) (s_fin s) (s_rpc s) (s_steps s) (s_pend s) (s_script s) (s_cpc s).
Definition set_alive v s := mk_state (s_unp s) (s_stop s) (s_started s) v (s_clock s) (s_itime s) (s_queue s) (s_init s) (s_fin s) (s_rpc s) (s_steps s) (s_pend s) (s_script s) (s_cpc s).
Definition set_clock v s := mk_state (s_unp s) (s_stop s) (s_started s) (s_alive s) v (s_itime s) (s_queue s) (s_init s) (s_fin s) (s_rpc s) (s_steps s) (s_pend s) (s_script s) (s_cpc s).
Definition set_itime v s := mk_state (s_unp s) (s_stop s) (s_started s) (s_alive s) (s_clock s) v (s_queue s) (s_init s) (s_fin s) (s_rpc s) (s_steps s) (s_pend s) (s_script s) (s_cpc s).
Definition set_queue v s := mk_state (s_unp s) (s_stop s) (s_started s) (s_alive s) (s_clock s) (s_itime s) v (s_init s) (s_fin s) (s_rpc s) (s_steps s) (s_pend s) (s_script s) (s_cpc s).
Definition set_init v s := mk_state (s_unp s) (s_stop s) (s_started s) (s_alive s) (s_clock s) (s_itime s) (s_queue s) v (s_fin s) (s_rpc s) (s_steps s) (s_pend s) (s_script s) (s_cpc s).
Definition set_fin v s := mk_state (s_unp s) (s_stop s) (s_started s) (s_alive s) (s_clock s) (s_itime s) (s_queue s) (s_init s) v (s_rpc s) (s_steps s) (s_pend s) (s_script s) (s_cpc s).
Definition set_rpc v s := mk_state (s_unp s) (s_stop s) (s_started s) (s_alive s) (s_clock s) (s_itime s) (s_queue s) (s_init s) (s_fin s) v (s_steps s) (s_pend s) (s_script s) (s_cpc s).
Definition set_steps v s := mk_state (s_unp s) (s_stop s) (s_started s) (s_alive s) (s_clock s) (s_itime s) (s_queue s) (s_init s) (s_fin s) (s_rpc s) v (s_pend s) (s_script s) (s_cpc s).
Definition set_pend v s := mk_state (s_unp s) (s_stop s) (s_started s) (s_alive s) (s_clock s) (s_itime s) (s_queue s) (s_init s) (s_fin s) (s_rpc s) (s_steps s) v (s_script s) (s_cpc s).
Definition set_script v s := mk_state (s_unp s) (s_stop s) (s_started s) (s_alive s) (s_clock s) (s_itime s) (s_queue s) (s_init s) (s_fin s) (s_rpc s) (s_steps s) (s_pend s) v (s_cpc s).
Definition set_cpc v s := mk_state (s_unp s) (s_stop s) (s_started s) (s_alive s) (s_clock s) (s_itime s) (s_queue s) (s_init s) (s_fin s) (s_rpc s) (s_steps s) (s_pend s) (s_script s) v.

(* ------------------------------------------------------------------------------------------ *)
(* Labels                                                                                     *)
(* ------------------------------------------------------------------------------------------ *)
Inductive peekres := PkInit | PkNone | PkSome (e : ev).

Inductive ract :=
| ABeforeRun                         (* hook before_run *)
| AWait (passed : bool)              (* _unpaused.wait(): passed at once / registered as waiter *)
| ATestFinal (b : bool)              (* interpreter.final *)
| ATestStop (b : bool)               (* _stop.is_set() *)
| ABeforeExec                        (* hook before_execute *)
| AExTime (t : Z)                    (* execute_once: self._time = self.clock.time *)
| AExPeek (r : peekres)              (* _compute_steps: initialisation step / _select_event() *)
| AExPop (e : ev) (popped : option ev) (* _select_event(consume=True); the macro step is applied *)
| AAfterExec (l : list mstep)        (* hook after_execute(steps) *)
| AStopSet                           (* _stop.set() after the loop *)
| AAfterRun.                         (* hook after_run; the thread ends *)

Inductive cact :=
| AStartIsStop (b : bool) | AStartAlive (b : bool) | AStartSet | AStartThread (ok : bool)
| AQIdx (e : ev) (key : Z) (idx : nat)       (* A1: time = self.time + delay; bisect_right *)
| AQIns (e : ev) (key : Z) (idx : nat)       (* A2: queue.insert(position, (time, event)) *)
| APauseClear | AUnpauseSet
| AStopSetStop | AStopSetUnp | AStopAlive (b : bool)
| AStopJoin (passed : bool)                  (* _thread.join(): returns at once / blocks *)
| AClockSet (t : Z) (ok : bool).

Inductive tid := TRun | TCli (c : nat).

Inductive titem :=
| TSkip (t : tid)                            (* the scheduled thread has no enabled action *)
| TR (a : ract)
| TC (c : nat) (a : cact)
| TCall (c : nat) (op : call)                (* the client enters a call (with its first action) *)
| TRet (c : nat) (op : call) (o : outcome).  (* the call returns / raises (with its last action) *)

(* ------------------------------------------------------------------------------------------ *)
(* Python primitives                                                                          *)
(* ------------------------------------------------------------------------------------------ *)

(* bisect.bisect_right(a, x): lo=0; hi=len(a); while lo<hi: mid=(lo+hi)//2;
   if x < a[mid]: hi=mid else: lo=mid+1; return lo.   Keys are (time, True) for every external
   event, so the comparison is on the time alone. *)
Fixpoint bisect_loop (fuel : nat) (keys : list Z) (x : Z) (lo hi : nat) : nat :=
  match fuel with
  | O => lo
  | S f =>
      if Nat.ltb lo hi then
        let mid := Nat.div2 (lo + hi) in
        if Z.ltb x (nth mid keys 0) then bisect_loop f keys x lo mid
        else bisect_loop f keys x (S mid) hi
      else lo
  end.

Definition bisect_right (keys : list Z) (x : Z) : nat :=
  bisect_loop (S (length keys)) keys x 0%nat (length keys).

(* list.insert(i, x): beyond the end appends *)
Definition insert_at {A : Type} (i : nat) (x : A) (l : list A) : list A :=
  firstn i l ++ x :: skipn i l.

(* _select_event on the external queue (the internal queue is empty in the chart family: no
   action sends an event): head if due *)
Definition due_head (s : state) : option ev :=
  match s_queue s with
  | (k, e) :: _ => if Z.leb k (s_itime s) then Some e else None
  | [] => None
  end.

(* Event.set() on _unpaused: sets the flag and wakes a registered waiter *)
Definition do_unp_set (s : state) : state :=
  let s1 := set_unp true s in
  match s_rpc s with
  | PWaiting => set_rpc PTestFinal s1
  | _ => s1
  end.

(* ------------------------------------------------------------------------------------------ *)
(* Runner thread                                                                              *)
(* ------------------------------------------------------------------------------------------ *)

(* execute(): after execute_once returned the macro step m *)
Definition after_step (cf : config) (m : mstep) (s : state) : state :=
  let s1 := set_steps (s_steps s ++ [m]) s in
  set_rpc (if cf_all cf then PExTime else PAfterExec) s1.

Definition becomes_final (cf : config) (e : ev) : bool :=
  match cf_chart cf with ChFin => ev_fin e | _ => false end.

Definition step_runner (cf : config) (s : state) : option (state * ract) :=
  match s_rpc s with
  | PNotStarted | PWaiting | PDone => None
  | PBeforeRun => Some (set_rpc PWait s, ABeforeRun)
  | PWait =>
      if s_unp s then Some (set_rpc PTestFinal s, AWait true)
      else Some (set_rpc PWaiting s, AWait false)
  | PTestFinal =>
      if s_fin s then Some (set_rpc PStopSet s, ATestFinal true)
      else Some (set_rpc PTestStop s, ATestFinal false)
  | PTestStop =>
      if s_stop s then Some (set_rpc PStopSet s, ATestStop true)
      else Some (set_rpc PBeforeExec s, ATestStop false)
  | PBeforeExec => Some (set_rpc PExTime (set_steps [] s), ABeforeExec)
  | PExTime => Some (set_rpc PExPeek (set_itime (s_clock s) s), AExTime (s_clock s))
  | PExPeek =>
      if negb (s_init s) then
        let s1 := set_init true s in
        let s2 := set_fin (match cf_chart cf with ChInitFinal => true | _ => false end) s1 in
        Some (after_step cf MInit s2, AExPeek PkInit)
      else
        match due_head s with
        | None => Some (set_rpc PAfterExec s, AExPeek PkNone)
        | Some e => Some (set_rpc PExPop (set_pend (Some e) s), AExPeek (PkSome e))
        end
  | PExPop =>
      match s_pend s with
      | None => None   (* unreachable: PExPop is entered with a peeked event *)
      | Some e =>
          let popped := due_head s in
          let s1 := match popped with Some _ => set_queue (tl (s_queue s)) s | None => s end in
          let s2 := set_fin (s_fin s || becomes_final cf e) (set_pend None s1) in
          Some (after_step cf (MEv e popped) s2, AExPop e popped)
      end
  | PAfterExec => Some (set_rpc PWait s, AAfterExec (s_steps s))
  | PStopSet => Some (set_rpc PAfterRun (set_stop true s), AStopSet)
  | PAfterRun => Some (set_rpc PDone (set_alive false s), AAfterRun)
  end.

(* ------------------------------------------------------------------------------------------ *)
(* Client thread                                                                              *)
(* ------------------------------------------------------------------------------------------ *)

(* the current call returns with outcome o *)
Definition ret (c : nat) (op : call) (o : outcome) (s : state) : state :=
  set_cpc C0 (set_script (tl (s_script s)) s).

Definition queue_keys (s : state) : list Z := map fst (s_queue s).

Definition step_client (cf : config) (c : nat) (s : state) : option (state * list titem) :=
  match s_script s with
  | [] => None
  | op :: _ =>
      match op, s_cpc s with
      (* start(): if _stop.is_set(): raise; elif _thread.is_alive(): raise;
                  else: _unpaused.set(); _thread.start() *)
      | CStart, C0 =>
          if s_stop s then Some (ret c op ErrRuntime s, [TCall c op; TC c (AStartIsStop true); TRet c op ErrRuntime])
          else Some (set_cpc CStart1 s, [TCall c op; TC c (AStartIsStop false)])
      | CStart, CStart1 =>
          if s_alive s then Some (ret c op ErrRuntime s, [TC c (AStartAlive true); TRet c op ErrRuntime])
          else Some (set_cpc CStart2 s, [TC c (AStartAlive false)])
      | CStart, CStart2 => Some (set_cpc CStart3 (do_unp_set s), [TC c AStartSet])
      | CStart, CStart3 =>
          if s_started s then   (* Thread.start(): "threads can only be started once" *)
            Some (ret c op ErrRuntime s, [TC c (AStartThread false); TRet c op ErrRuntime])
          else
            Some (ret c op OK (set_rpc PBeforeRun (set_alive true (set_started true s))),
                  [TC c (AStartThread true); TRet c op OK])
      (* queue(e) -> _queue_event(e) *)
      | CQueue e, C0 =>
          let key := s_itime s + ev_delay e in
          let idx := bisect_right (queue_keys s) key in
          let s1 := if cf_atomic cf then set_queue (insert_at idx (key, e) (s_queue s)) s else s in
          Some (set_cpc (CQ1 idx key) s1, [TCall c op; TC c (AQIdx e key idx)])
      | CQueue e, CQ1 idx key =>
          let s1 := if cf_atomic cf then s else set_queue (insert_at idx (key, e) (s_queue s)) s in
          Some (ret c op OK s1, [TC c (AQIns e key idx); TRet c op OK])
      | CPause, C0 => Some (ret c op OK (set_unp false s), [TCall c op; TC c APauseClear; TRet c op OK])
      | CUnpause, C0 => Some (ret c op OK (do_unp_set s), [TCall c op; TC c AUnpauseSet; TRet c op OK])
      (* stop(): _stop.set(); _unpaused.set(); wait(): if _thread.is_alive(): _thread.join() *)
      | CStop, C0 => Some (set_cpc CStop1 (set_stop true s), [TCall c op; TC c AStopSetStop])
      | CStop, CStop1 => Some (set_cpc CStop2 (do_unp_set s), [TC c AStopSetUnp])
      | CStop, CStop2 =>
          if s_alive s then Some (set_cpc CStop3 s, [TC c (AStopAlive true)])
          else Some (ret c op OK s, [TC c (AStopAlive false); TRet c op OK])
      | CStop, CStop3 =>
          if s_alive s then Some (set_cpc CJoining s, [TC c (AStopJoin false)])   (* blocks in join *)
          else Some (ret c op OK s, [TC c (AStopJoin true); TRet c op OK])
      (* interpreter.clock.time = t  (SimulatedClock setter: ValueError if t < current) *)
      | CClock t, C0 =>
          if Z.leb (s_clock s) t then
            Some (ret c op OK (set_clock t s), [TCall c op; TC c (AClockSet t true); TRet c op OK])
          else Some (ret c op ErrValue s, [TCall c op; TC c (AClockSet t false); TRet c op ErrValue])
      | _, _ => None    (* unreachable combinations of call and position *)
      end
  end.

(* ------------------------------------------------------------------------------------------ *)
(* Schedules                                                                                  *)
(* ------------------------------------------------------------------------------------------ *)
(* Thread.join(): a client blocked in join (CJoining) is released when the runner thread ends:
   stop() returns without a further action of the client. *)
Definition wake_join (s : state) : state * list titem :=
  match s_cpc s with
  | CJoining => if s_alive s then (s, []) else (ret O CStop OK s, [TRet O CStop OK])
  | _ => (s, [])
  end.

Definition step (cf : config) (s : state) (t : tid) : state * list titem :=
  match t with
  | TRun =>
      match step_runner cf s with
      | Some (s', a) => let '(s'', w) := wake_join s' in (s'', TR a :: w)
      | None => (s, [TSkip t])
      end
  | TCli O =>
      match step_client cf O s with
      | Some (s', l) => (s', l)
      | None => (s, [TSkip t])
      end
  | TCli (S _) => (s, [TSkip t])     (* one client thread for now *)
  end.

Fixpoint run_from (cf : config) (s : state) (sched : list tid) : state * list titem :=
  match sched with
  | [] => (s, [])
  | t :: rest =>
      let '(s1, l1) := step cf s t in
      let '(s2, l2) := run_from cf s1 rest in
      (s2, l1 ++ l2)
  end.

Definition run_schedule (cf : config) (sched : list tid) : state * list titem :=
  run_from cf (init_state cf) sched.

(* ------------------------------------------------------------------------------------------ *)
(* Projections of a trace used by the C20 statements                                          *)
(* ------------------------------------------------------------------------------------------ *)

(* macro steps execute_once returned on the runner thread, in order *)
Fixpoint executed (tr : list titem) : list mstep :=
  match tr with
  | [] => []
  | TR (AExPeek PkInit) :: r => MInit :: executed r
  | TR (AExPop e p) :: r => MEv e p :: executed r
  | _ :: r => executed r
  end.

(* concatenation of the lists handed to after_execute *)
Fixpoint handed (tr : list titem) : list mstep :=
  match tr with
  | [] => []
  | TR (AAfterExec l) :: r => l ++ handed r
  | _ :: r => handed r
  end.

(* the lists handed to after_execute *)
Fixpoint reports (tr : list titem) : list (list mstep) :=
  match tr with
  | [] => []
  | TR (AAfterExec l) :: r => l :: reports r
  | _ :: r => reports r
  end.

(* actions of the runner thread *)
Fixpoint ractions (tr : list titem) : list ract :=
  match tr with
  | [] => []
  | TR a :: r => a :: ractions r
  | _ :: r => ractions r
  end.

Definition count_ract (p : ract -> bool) (tr : list titem) : nat :=
  length (filter p (ractions tr)).

Definition is_before_run a := match a with ABeforeRun => true | _ => false end.
Definition is_after_run a := match a with AAfterRun => true | _ => false end.
Definition is_before_exec a := match a with ABeforeExec => true | _ => false end.

(* events popped from the queue by the runner, in order *)
Fixpoint popped_events (tr : list titem) : list ev :=
  match tr with
  | [] => []
  | TR (AExPop _ (Some p)) :: r => p :: popped_events r
  | _ :: r => popped_events r
  end.

(* events whose insertion (A2) has completed, in order *)
Fixpoint inserted_events (tr : list titem) : list ev :=
  match tr with
  | [] => []
  | TC _ (AQIns e _ _) :: r => e :: inserted_events r
  | _ :: r => inserted_events r
  end.
