(* EditCorr.v -- evaluation of editing correspondence cases (C16, C17). *)
From Sismic Require Import Base Chart Edit.
Open Scope list_scope.

(* remove_state once more, also returning the state OBJECTS it removes, in the order in which they are popped, with the values
   they have at that moment (a client may keep a reference to a removed state and add it again): the children are removed
   first, and each removal resets the initial / memory fields -- of every state still registered, hence also of states that
   are removed later in the same call -- that name the removed state. *)
Fixpoint remove_state_trace (fuel : nat) (c : chart) (n : name) : chart * list state * eres :=
  match fuel with
  | O => (c, [], EKeyError)
  | S f =>
      if negb (has_state c n) then (c, [], EStatechartError) else
      let fix go (c : chart) (acc : list state) (chs : list name) : chart * list state * eres :=
          match chs with
          | [] => (c, acc, EOk)
          | ch :: rest =>
              match remove_state_trace f c ch with
              | (c', l, EOk) => go c' (acc ++ l) rest
              | (c', l, e) => (c', acc ++ l, e)
              end
          end in
      match go c [] (children_for c n) with
      | (c', l, EOk) =>
          let popped := match lookup n (c_states c') with Some st => [clear_refs n st] | None => [] end in
          (fst (remove_one c' n), l ++ popped, snd (remove_one c' n))
      | (c', l, e) => (c', l, e)
      end
  end.
Definition removed_objects (c : chart) (n : name) : list state :=
  snd (fst (remove_state_trace (S (length (c_states c))) c n)).

Record ecase := mkECase {
  ec_pre : chart;
  ec_op : eop;
  ec_res : eres;        (* implementation *)
  ec_post : chart;      (* implementation *)
  ec_removed : list state;
                        (* implementation, remove_state only: the removed state objects as they are after the call *)
  ec_queries : list (name * (Z * (list name * list name)))
                        (* implementation, after the call: depth_for, ancestors_for, descendants_for of every state
                           (the same queries were also made BEFORE the call, so that anything the implementation
                           remembers from earlier queries is in play) *)
}.

Definition bitN (b : bool) (v : N) : N := if b then 0%N else v.

(* 1: outcome differs; 2: resulting chart differs (dictionary orders included);
   4: Pb -- a successful edit (arguments satisfying the side condition of C16_preserve) of a sound chart gives an unsound
      chart (implementation output);
   8: Pb -- the edit raised StatechartError/ValueError but changed the chart (implementation output);
   16: the traversal queries answered by the implementation after the call are not those of the resulting chart;
   32: remove_state: the removed state objects are not left as the documented recursion leaves them *)
(* the side condition of C16_preserve (EditProofs.op_ok): a state is added without initial and with a memory that is unset
   or already valid (a history state whose memory names an existing child of the parent, other than itself) *)
Definition op_ok_b (c : chart) (op : eop) : bool :=
  match op with
  | EAddState st p =>
      negb (str_eqb (s_name st) "") &&
      (match p with Some "" => false | _ => true end) &&
      (match s_initial st with None => true | Some _ => false end) &&
      (match s_memory st with
       | None => true
       | Some m => is_history (s_kind st) && negb (str_eqb m (s_name st)) &&
                   match p with Some q => mem m (children_for c q) | None => false end
       end)
  | ERenameState _ new => negb (str_eqb new "")
  | _ => true
  end.

Definition check_ecase (c : ecase) : N :=
  let '(m, r) := apply_eop (ec_pre c) (ec_op c) in
  (bitN (eres_eqb r (ec_res c)) 1
   + bitN (chart_eqb m (ec_post c)) 2
   + bitN (negb (sound_b (ec_pre c)) || negb (eres_eqb (ec_res c) EOk) || negb (op_ok_b (ec_pre c) (ec_op c))
           || sound_b (ec_post c)) 4
   + bitN (match ec_res c with
           | EStatechartError | EValueError => chart_eqb (ec_pre c) (ec_post c)
           | _ => true
           end) 8
   + bitN (forallb (fun q => let n := fst q in
                             Z.eqb (depth_for (ec_post c) n) (fst (snd q))
                             && strs_eqb (ancestors_for (ec_post c) n) (fst (snd (snd q)))
                             && strs_eqb (descendants_for (ec_post c) n) (snd (snd (snd q))))
                   (ec_queries c)) 16
   + bitN (match ec_op c, ec_res c with
           | ERemoveState n, EOk =>
               let m := removed_objects (ec_pre c) n in
               Nat.eqb (length m) (length (ec_removed c))
               && forallb (fun st => existsb (state_eqb st) m) (ec_removed c)
           | _, _ => true
           end) 32)%N.

Fixpoint check_efrom (i : N) (cs : list ecase) : list (N * N) :=
  match cs with
  | [] => []
  | c :: cs' =>
      let r := check_ecase c in
      if N.eqb r 0 then check_efrom (N.succ i) cs' else (i, r) :: check_efrom (N.succ i) cs'
  end.
Definition check_ecases (cs : list ecase) : list (N * N) := check_efrom 0%N cs.
