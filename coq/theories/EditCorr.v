(* EditCorr.v -- evaluation of editing correspondence cases (C16, C17). *)
From Sismic Require Import Base Chart Edit.
Open Scope list_scope.

Record ecase := mkECase {
  ec_pre : chart;
  ec_op : eop;
  ec_res : eres;        (* implementation *)
  ec_post : chart;      (* implementation *)
  ec_queries : list (name * (Z * (list name * list name)))
                        (* implementation, after the call: depth_for, ancestors_for, descendants_for of every state
                           (the same queries were also made BEFORE the call, so that anything the implementation
                           remembers from earlier queries is in play) *)
}.

Definition bitN (b : bool) (v : N) : N := if b then 0%N else v.

(* 1: outcome differs; 2: resulting chart differs (dictionary orders included);
   4: Pb -- a successful edit of a sound chart gives an unsound chart (implementation output);
   8: Pb -- the edit raised StatechartError/ValueError but changed the chart (implementation output);
   16: the traversal queries answered by the implementation after the call are not those of the resulting chart *)
Definition check_ecase (c : ecase) : N :=
  let '(m, r) := apply_eop (ec_pre c) (ec_op c) in
  (bitN (eres_eqb r (ec_res c)) 1
   + bitN (chart_eqb m (ec_post c)) 2
   + bitN (negb (sound_b (ec_pre c)) || negb (eres_eqb (ec_res c) EOk) || sound_b (ec_post c)) 4
   + bitN (match ec_res c with
           | EStatechartError | EValueError => chart_eqb (ec_pre c) (ec_post c)
           | _ => true
           end) 8
   + bitN (forallb (fun q => let n := fst q in
                             Z.eqb (depth_for (ec_post c) n) (fst (snd q))
                             && strs_eqb (ancestors_for (ec_post c) n) (fst (snd (snd q)))
                             && strs_eqb (descendants_for (ec_post c) n) (snd (snd (snd q))))
                   (ec_queries c)) 16)%N.

Fixpoint check_efrom (i : N) (cs : list ecase) : list (N * N) :=
  match cs with
  | [] => []
  | c :: cs' =>
      let r := check_ecase c in
      if N.eqb r 0 then check_efrom (N.succ i) cs' else (i, r) :: check_efrom (N.succ i) cs'
  end.
Definition check_ecases (cs : list ecase) : list (N * N) := check_efrom 0%N cs.
