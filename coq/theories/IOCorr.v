(* IOCorr.v -- evaluation of import/export correspondence cases (C11, C12). *)
From Sismic Require Import Base Chart Edit IO.
Open Scope string_scope.
Open Scope list_scope.

Definition bitN (b : bool) (v : N) : N := if b then 0%N else v.

(* ---- what the importer does to the text fields: code/event stripped, '' becomes None ---- *)
Definition norm_opt (o : option string) : option string :=
  match o with Some s => if nonempty s then Some (strip s) else None | None => None end.
Definition keep_opt (o : option string) : option string :=
  match o with Some s => if nonempty s then Some s else None | None => None end.

Definition strip_state (s : state) : state :=
  mkState (s_name s) (s_kind s)
          (match s_kind s with KCompound => keep_opt (s_initial s) | _ => None end)
          (if is_history (s_kind s) then keep_opt (s_memory s) else None)
          (norm_opt (s_on_entry s)) (norm_opt (s_on_exit s))
          (map strip (s_pre s)) (map strip (s_post s)) (map strip (s_inv s)).
Definition strip_trans (t : transition) : transition :=
  mkTrans (t_source t) (keep_opt (t_target t)) (norm_opt (t_event t)) (norm_opt (t_guard t))
          (norm_opt (t_action t)) (t_priority t) (map strip (t_pre t)) (map strip (t_post t)) (map strip (t_inv t)).

Definition by_key {V} (l : list (name * V)) : list (name * V) :=
  sort (fun a b => str_leb (fst a) (fst b)) l.

(* C11: b is a lossless re-import of a (declaration order of siblings may differ; the relative
   order of the transitions of one source is kept) *)
Definition roundtrip_ok (a b : chart) : bool :=
  str_eqb (c_name a) (c_name b)
  && ostr_eqb (keep_opt (c_description a)) (c_description b)
  && ostr_eqb (keep_opt (c_preamble a)) (c_preamble b)
  && list_eqb (pair_eqb str_eqb state_eqb)
              (by_key (map (fun kv => (fst kv, strip_state (snd kv))) (c_states a))) (by_key (c_states b))
  && list_eqb (pair_eqb str_eqb ostr_eqb) (by_key (c_parent a)) (by_key (c_parent b))
  && forallb (fun kv => strs_eqb (sort_names (children_for a (fst kv))) (sort_names (children_for b (fst kv))))
             (c_states a)
  && Nat.eqb (length (c_transitions a)) (length (c_transitions b))
  && forallb (fun kv => list_eqb trans_eqb (map strip_trans (transitions_from a (fst kv)))
                                           (transitions_from b (fst kv))) (c_states a).

(* the == clause: every state of a compares equal (Python ==) to its image, every transition too *)
Definition eq_clause_ok (a b : chart) : bool :=
  forallb (fun kv => match state_for b (fst kv) with
                     | Some s' => py_state_eq (snd kv) s'
                     | None => false
                     end) (c_states a)
  && forallb (fun kv => list_eqb py_trans_eq (transitions_from a (fst kv)) (transitions_from b (fst kv)))
             (c_states a).

(* C12: what a statechart returned by the importer must satisfy *)
Definition import_sound_b (c : chart) : bool :=
  sound_b c
  && forallb (fun kv => if is_history (s_kind (snd kv)) then
                          match parent_for c (fst kv) with
                          | Some p => match kind_of c p with Some KCompound => true | _ => false end
                          | None => false
                          end
                        else true) (c_states c)
  && forallb (fun kv => match s_kind (snd kv), s_initial (snd kv) with
                        | KCompound, Some i => mem i (children_for c (fst kv))
                        | _, _ => true
                        end) (c_states c)
  && forallb (fun kv => if is_history (s_kind (snd kv)) then
                          match s_memory (snd kv), parent_for c (fst kv) with
                          | Some m, Some p => negb (str_eqb m (fst kv)) && mem m (children_for c p)
                          | Some _, None => false
                          | None, _ => true
                          end
                        else true) (c_states c).

Inductive iores := IOk (c : chart) | IStatechartError | IOther.

Inductive iocase :=
| XCase (c : chart) (impl : ydata)                       (* export_to_dict *)
| PCase (d : ydata) (faulty : bool) (impl : iores)       (* schema + import_from_dict + validate *)
| RCase (c : chart) (eqclause : bool) (impl : iores).    (* import_from_yaml (export_to_yaml c) *)

(* 1: model and implementation differ (export tree / outcome / imported chart)
   2: Pb C12: an accepted document gives an unsound statechart
   4: Pb C12: a faulty document was not rejected with StatechartError
   8: Pb C11: the round trip is not lossless
   16: Pb C11: the == clause fails *)
Definition check_iocase (c : iocase) : N :=
  match c with
  | XCase ch impl => bitN (ydata_eq (export_to_dict ch) impl) 1
  | PCase d faulty impl =>
      (match import_pipeline d, impl with
       | Some m, IOk i => bitN (chart_eqb m i) 1
       | None, IStatechartError => 0
       | _, _ => 1
       end
       + match impl with
         | IOk i => (bitN (import_sound_b i) 2 + bitN (negb faulty) 4)
         | IStatechartError => 0
         | IOther => 4
         end)%N
  | RCase ch eqc impl =>
      match impl with
      | IOk i =>
          (match import_pipeline (export_to_dict ch) with
           | Some m => bitN (chart_eqb m i) 1
           | None => 1
           end
           + bitN (roundtrip_ok ch i) 8
           + bitN (negb eqc || eq_clause_ok ch i) 16)%N
      | _ => 8%N
      end
  end.

Fixpoint check_iofrom (i : N) (cs : list iocase) : list (N * N) :=
  match cs with
  | [] => []
  | c :: cs' =>
      let r := check_iocase c in
      if N.eqb r 0 then check_iofrom (N.succ i) cs' else (i, r) :: check_iofrom (N.succ i) cs'
  end.
Definition check_iocases (cs : list iocase) : list (N * N) := check_iofrom 0%N cs.
