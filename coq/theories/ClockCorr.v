(* ClockCorr.v -- evaluation of clock correspondence cases (run by the harness with vm_compute). *)
From Coq Require Import QArith List Bool NArith.
From Sismic Require Import Clock.
Import ListNotations.
Open Scope Q_scope.

Record ccase := mk_ccase {
  cc_atomic : bool;
  cc_w0 : Q;
  cc_script : list (cop * Q * Q);   (* op, first wall read, later wall reads *)
  cc_impl : list cres               (* what the implementation returned *)
}.

Fixpoint model_results (c : clock) (script : list (cop * Q * Q)) : list cres :=
  match script with
  | [] => []
  | (op, a, b) :: rest =>
      let '(c', r, _) := clock_step c op [a; b] in
      r :: model_results c' rest
  end.

Fixpoint cres_list_eqb (xs ys : list cres) : bool :=
  match xs, ys with
  | [], [] => true
  | x :: xs', y :: ys' => cres_eqb x y && cres_list_eqb xs' ys'
  | _, _ => false
  end.

(* Pb on the implementation's output: readings never decrease. *)
Fixpoint nondecr_b (lo : Q) (rs : list cres) : bool :=
  match rs with
  | [] => true
  | RVal v :: rs' => Qle_bool lo v && nondecr_b v rs'
  | _ :: rs' => nondecr_b lo rs'
  end.

Definition check_case (c : ccase) : N :=
  let m := model_results (clock_init (cc_w0 c)) (cc_script c) in
  ((if cres_list_eqb m (cc_impl c) then 0 else 1) +
   (if nondecr_b 0 (cc_impl c) then 0 else 2))%N.

Fixpoint check_from (i : N) (cs : list ccase) : list (N * N) :=
  match cs with
  | [] => []
  | c :: cs' =>
      let r := check_case c in
      if N.eqb r 0 then check_from (N.succ i) cs' else (i, r) :: check_from (N.succ i) cs'
  end.

Definition check_cases (cs : list ccase) : list (N * N) := check_from 0%N cs.
