(* Snapshot.v -- model of what pickle / copy.deepcopy keep of an Interpreter (C18).

   In the interpreter model (Interp.v) the store behind __old__ is keyed by the OWNER of the contract
   (i_old : list (owner * ctx)).  The Python evaluator keys it by OBJECT IDENTITY:
       self._memory[id(obj)] = (obj, FrozenContext(context))        (evaluate_preconditions)
       self._memory.get(id(obj), (None, None))[1]                   (invariants / postconditions)
   and a pickled or deep-copied interpreter consists of NEW objects.  This file makes identities explicit:

     ident              an object identity (id(obj)); `ids : owner -> ident` is the identity of the state /
                        transition object that plays the role `owner` in one object graph (one interpreter)
     idstore            evaluator._memory : list (ident * (owner * ctx))   (key, (obj, frozen context))
     abs_store ids st   what Interp.v calls i_old: the entries found under the CURRENT identity of their owner
     snapshot_store     what pickling / deep-copying does to the store.  __setstate__ re-keys every entry by the
                        identity of the copied object (rekey = true, the code as it is since the fix
                        "__old__ was lost when an interpreter is pickled or deep-copied"); rekey = false is the
                        former behaviour (keys stay those of the ORIGINAL objects), kept as a defect switch.

   Everything else of an interpreter (configuration, memory, queues, times, context, flags) is plain data and is
   copied field by field: `snapshot` keeps the istate and replaces the identity assignment by a fresh one. *)
From Sismic Require Import Base Chart Interp.
Open Scope list_scope.

Definition ident := nat.

Section Snapshot.
  Variable ctx : Type.

  Definition idstore := list (ident * (owner * ctx)).

  (* lookup as python does: by the identity of the object at hand *)
  Fixpoint id_lookup (k : ident) (st : idstore) : option (owner * ctx) :=
    match st with
    | [] => None
    | (k', v) :: st' => if Nat.eqb k k' then Some v else id_lookup k st'
    end.

  (* self._memory[id(obj)] = (obj, frozen) *)
  Fixpoint id_set (k : ident) (v : owner * ctx) (st : idstore) : idstore :=
    match st with
    | [] => [(k, v)]
    | (k', v') :: st' => if Nat.eqb k k' then (k, v) :: st' else (k', v') :: id_set k v st'
    end.

  (* the owner-keyed view used by Interp.v: entries that are found under the current identity of their owner *)
  Definition abs_store (ids : owner -> ident) (st : idstore) : list (owner * ctx) :=
    flat_map (fun e => let '(k, (o, c)) := e in if Nat.eqb k (ids o) then [(o, c)] else []) st.

  (* what __old__ is for `o` in an object graph with identities `ids` *)
  Definition old_for (ids : owner -> ident) (st : idstore) (o : owner) : option ctx :=
    option_map snd (id_lookup (ids o) st).

  (* a store all of whose entries sit under the identity of their owner (invariant of one interpreter) *)
  Definition well_keyed (ids : owner -> ident) (st : idstore) : Prop :=
    forall k o c, In (k, (o, c)) st -> k = ids o.

  Fixpoint well_keyed_b (ids : owner -> ident) (st : idstore) : bool :=
    match st with
    | [] => true
    | (k, (o, _)) :: st' => Nat.eqb k (ids o) && well_keyed_b ids st'
    end.

  (* pickle.loads(pickle.dumps(i)) / copy.deepcopy(i): the entries are copied; with rekey the keys become the
     identities of the COPIED objects (PythonEvaluator.__setstate__), without it they stay as they were *)
  Definition snapshot_store (rekey : bool) (ids' : owner -> ident) (st : idstore) : idstore :=
    if rekey then map (fun e => let '(_, (o, c)) := e in (ids' o, (o, c))) st else st.

  (* an interpreter as an object graph: identities + the evaluator's store + the plain data *)
  Record pyinterp := mkPy {
    py_ids : owner -> ident;
    py_store : idstore;
    py_data : istate ctx            (* i_old of this record is ignored: see to_model *)
  }.

  (* the interpreter of Interp.v that this object graph denotes *)
  Definition with_old (i : istate ctx) (o : list (owner * ctx)) : istate ctx :=
    mkIState (i_id i) (i_initialized i) (i_time i) (i_memory i) (i_config i) (i_entry i) (i_idle i)
             (i_sent i) (i_iq i) (i_eq i) (i_ignore_contract i) (i_ctx i) o.

  Definition to_model (p : pyinterp) : istate ctx :=
    with_old (py_data p) (abs_store (py_ids p) (py_store p)).

  Definition snapshot (rekey : bool) (ids' : owner -> ident) (p : pyinterp) : pyinterp :=
    mkPy ids' (snapshot_store rekey ids' (py_store p)) (py_data p).

End Snapshot.

Arguments mkPy {ctx}. Arguments py_ids {ctx}. Arguments py_store {ctx}. Arguments py_data {ctx}.
Arguments id_lookup {ctx}. Arguments id_set {ctx}. Arguments abs_store {ctx}. Arguments old_for {ctx}.
Arguments well_keyed {ctx}. Arguments well_keyed_b {ctx}. Arguments snapshot_store {ctx}.
Arguments with_old {ctx}. Arguments to_model {ctx}. Arguments snapshot {ctx}.
