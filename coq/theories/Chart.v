(* Chart.v -- model of sismic/model/elements.py and the query part of sismic/model/statechart.py.

   A chart is the record of the private fields of Statechart:
     _states (dict name -> state object), _parent (dict name -> parent or None),
     _children (dict name-or-None -> list of names), _transitions (list).
   Dictionaries keep Python's insertion order because root/validate/remove_state/rename_state
   iterate over them. *)
From Sismic Require Import Base.
Open Scope string_scope.
Open Scope list_scope.

Definition code := string.

Inductive kind := KBasic | KCompound | KOrthogonal | KFinal | KShallow | KDeep.

Definition kind_eqb (a b : kind) : bool :=
  match a, b with
  | KBasic, KBasic | KCompound, KCompound | KOrthogonal, KOrthogonal
  | KFinal, KFinal | KShallow, KShallow | KDeep, KDeep => true
  | _, _ => false
  end.

Record state := mkState {
  s_name : name;
  s_kind : kind;
  s_initial : option name;     (* CompoundState.initial *)
  s_memory : option name;      (* HistoryStateMixin.memory *)
  s_on_entry : option code;
  s_on_exit : option code;
  s_pre : list code;
  s_post : list code;
  s_inv : list code
}.

Record transition := mkTrans {
  t_source : name;
  t_target : option name;
  t_event : option name;
  t_guard : option code;
  t_action : option code;
  t_priority : Z;
  t_pre : list code;
  t_post : list code;
  t_inv : list code
}.

Record chart := mkChart {
  c_name : string;
  c_description : option string;
  c_preamble : option code;
  c_states : list (name * state);              (* _states *)
  c_parent : list (name * option name);        (* _parent *)
  c_children : list (option name * list name); (* _children, key None = top level *)
  c_transitions : list transition              (* _transitions *)
}.

(* isinstance tests *)
Definition is_history (k : kind) := match k with KShallow | KDeep => true | _ => false end.
Definition is_composite (k : kind) := match k with KCompound | KOrthogonal => true | _ => false end.
Definition owns_transitions (k : kind) :=   (* TransitionStateMixin *)
  match k with KBasic | KCompound | KOrthogonal => true | _ => false end.

(* ---- queries ---- *)
Definition state_for (c : chart) (n : name) : option state := lookup n (c_states c).

Definition kind_of (c : chart) (n : name) : option kind := option_map s_kind (state_for c n).

Definition parent_for (c : chart) (n : name) : option name :=
  match lookup n (c_parent c) with Some p => p | None => None end.

Fixpoint olookup {V} (k : option name) (d : list (option name * V)) : option V :=
  match d with
  | [] => None
  | (k', v) :: d' => if opt_eqb str_eqb k k' then Some v else olookup k d'
  end.

Definition children_for (c : chart) (n : name) : list name :=
  match olookup (Some n) (c_children c) with Some l => l | None => [] end.

(* root: first key of _parent whose value is None *)
Fixpoint root_of (d : list (name * option name)) : option name :=
  match d with
  | [] => None
  | (n, None) :: _ => Some n
  | _ :: d' => root_of d'
  end.
Definition root (c : chart) : option name := root_of (c_parent c).

(* ancestors_for: parent = _parent[name]; while parent: append; parent = _parent[parent].
   `while parent` stops on None and on the empty string.  Fuel = number of states (enough in
   any acyclic chart). *)
Definition truthy (o : option name) : option name :=
  match o with Some "" => None | _ => o end.

Fixpoint ancestors_fuel (c : chart) (fuel : nat) (p : option name) : list name :=
  match fuel, truthy p with
  | S f, Some q => q :: ancestors_fuel c f (parent_for c q)
  | _, _ => []
  end.
Definition ancestors_for (c : chart) (n : name) : list name :=
  ancestors_fuel c (length (c_parent c)) (parent_for c n).

Definition depth_for (c : chart) (n : name) : Z := Z.of_nat (length (ancestors_for c n)) + 1.

(* descendants_for: breadth-first with an explicit queue *)
Fixpoint bfs (c : chart) (fuel : nat) (queue : list name) : list name :=
  match fuel, queue with
  | S f, n :: q => let ch := children_for c n in ch ++ bfs c f (q ++ ch)
  | _, _ => []
  end.
Definition descendants_for (c : chart) (n : name) : list name :=
  bfs c (S (length (c_states c))) [n].

(* least_common_ancestor: first strict ancestor of the first that is a strict ancestor of the second *)
Definition least_common_ancestor (c : chart) (a b : name) : option name :=
  let bn := ancestors_for c b in
  find (fun s => mem s bn) (ancestors_for c a).

(* leaf_for: names without a descendant in names *)
Definition leaf_for (c : chart) (names : list name) : list name :=
  filter (fun n => negb (existsb (fun d => mem d names) (descendants_for c n))) names.

Definition transitions_from (c : chart) (n : name) : list transition :=
  filter (fun t => str_eqb (t_source t) n) (c_transitions c).

(* transitions with their index in statechart.transitions (object identity in the model) *)
Definition itrans := (nat * transition)%type.
Fixpoint index_from {A} (i : nat) (l : list A) : list (nat * A) :=
  match l with [] => [] | x :: l' => (i, x) :: index_from (S i) l' end.
Definition itransitions (c : chart) : list itrans := index_from 0 (c_transitions c).

(* ---- equality helpers (used by the correspondence checks) ---- *)
Definition ostr_eqb := opt_eqb str_eqb.
Definition strs_eqb := list_eqb str_eqb.

Definition state_eqb (a b : state) : bool :=
  str_eqb (s_name a) (s_name b) && kind_eqb (s_kind a) (s_kind b)
  && ostr_eqb (s_initial a) (s_initial b) && ostr_eqb (s_memory a) (s_memory b)
  && ostr_eqb (s_on_entry a) (s_on_entry b) && ostr_eqb (s_on_exit a) (s_on_exit b)
  && strs_eqb (s_pre a) (s_pre b) && strs_eqb (s_post a) (s_post b) && strs_eqb (s_inv a) (s_inv b).

Definition trans_eqb (a b : transition) : bool :=
  str_eqb (t_source a) (t_source b) && ostr_eqb (t_target a) (t_target b)
  && ostr_eqb (t_event a) (t_event b) && ostr_eqb (t_guard a) (t_guard b)
  && ostr_eqb (t_action a) (t_action b) && Z.eqb (t_priority a) (t_priority b)
  && strs_eqb (t_pre a) (t_pre b) && strs_eqb (t_post a) (t_post b) && strs_eqb (t_inv a) (t_inv b).

Definition chart_eqb (a b : chart) : bool :=
  str_eqb (c_name a) (c_name b) && ostr_eqb (c_description a) (c_description b)
  && ostr_eqb (c_preamble a) (c_preamble b)
  && list_eqb (pair_eqb str_eqb state_eqb) (c_states a) (c_states b)
  && list_eqb (pair_eqb str_eqb ostr_eqb) (c_parent a) (c_parent b)
  && list_eqb (pair_eqb ostr_eqb strs_eqb) (c_children a) (c_children b)
  && list_eqb trans_eqb (c_transitions a) (c_transitions b).
