(* Copy.v -- model of Statechart.copy_from_statechart (sismic/model/statechart.py), loop by loop.

   host.copy_from_statechart(guest, source=, replace=, renaming_func=):
     if host.children_for(replace): raise StatechartError            (children_for raises too when replace does not exist)
     g = deepcopy(guest)
     g.rename_state(source, replace)
     host._states[replace] = g.state_for(replace)
     for name in g.descendants_for(replace):          (the list is computed once, before the loop)
         new = renaming_func(name); g.rename_state(name, new); host.add_state(g.state_for(new), g.parent_for(new))
     transitions = []                                   (each transition object once: identity, i.e. its index in g)
     for name in [replace] + g.descendants_for(replace):
         for t in g.transitions_from(name) + g.transitions_to(name): if t not yet taken: take it
     for t in transitions: host.add_transition(t)     (a StatechartError is re-raised as StatechartError)

   Python mutates the host in place: a call that raises in the middle leaves a partially extended host; the model
   returns that host (no atomicity is claimed for this operation).  The renaming function is a finite table (names not
   in the table are left as they are). *)
From Sismic Require Import Base Chart Edit.
Open Scope string_scope.
Open Scope list_scope.

Definition rho_apply (rho : list (name * name)) (n : name) : name :=
  match lookup n rho with Some m => m | None => n end.

(* indices (object identities) of the transitions from / to a state, in list order *)
Fixpoint idx_filter (f : transition -> bool) (i : nat) (l : list transition) : list nat :=
  match l with
  | [] => []
  | t :: l' => if f t then i :: idx_filter f (S i) l' else idx_filter f (S i) l'
  end.
Definition from_idx (c : chart) (n : name) : list nat :=
  idx_filter (fun t => str_eqb (t_source t) n) 0 (c_transitions c).
(* transitions_to: target == name, or internal (target None) with source == name *)
Definition to_idx (c : chart) (n : name) : list nat :=
  idx_filter (fun t => match t_target t with
                       | Some x => str_eqb x n
                       | None => str_eqb (t_source t) n
                       end) 0 (c_transitions c).

Fixpoint nat_mem (x : nat) (l : list nat) : bool :=
  match l with [] => false | y :: l' => Nat.eqb x y || nat_mem x l' end.
(* `if not any(t is o for o in transitions): transitions.append(t)` *)
Fixpoint take_new (seen xs : list nat) : list nat :=
  match xs with
  | [] => seen
  | x :: xs' => if nat_mem x seen then take_new seen xs' else take_new (seen ++ [x]) xs'
  end.
Fixpoint collect_transitions (g : chart) (names : list name) (seen : list nat) : list nat :=
  match names with
  | [] => seen
  | n :: rest => collect_transitions g rest (take_new seen (from_idx g n ++ to_idx g n))
  end.

(* the loop over the descendants: (guest copy, host, names added to the host, outcome) *)
Fixpoint copy_states (names : list name) (rho : list (name * name)) (g h : chart) (added : list name)
  : chart * chart * list name * eres :=
  match names with
  | [] => (g, h, added, EOk)
  | n :: rest =>
      let new := rho_apply rho n in
      let '(g1, r1) := rename_state g n new in
      if negb (eres_eqb r1 EOk) then (g1, h, added, r1) else
      match state_for g1 new with
      | None => (g1, h, added, EStatechartError)
      | Some st =>
          let '(h1, r2) := add_state h st (parent_for g1 new) in
          if negb (eres_eqb r2 EOk) then (g1, h1, added, r2) else copy_states rest rho g1 h1 (added ++ [new])
      end
  end.

(* The state OBJECTS of the copy are shared between the (deep-copied) guest and the host: what later rename_state calls
   on the guest copy do to them (initial / memory following a renamed child) is seen by the host.  The host's entries for
   the copied names are therefore the guest copy's states as they are at the end. *)
Fixpoint sync_states (g h : chart) (names : list name) : chart :=
  match names with
  | [] => h
  | n :: rest =>
      match state_for g n with
      | Some st => sync_states g (with_states h (dset n st (c_states h))) rest
      | None => sync_states g h rest
      end
  end.

Fixpoint add_transitions (h : chart) (ts : list transition) : chart * eres :=
  match ts with
  | [] => (h, EOk)
  | t :: rest =>
      let '(h1, r) := add_transition h t in
      if negb (eres_eqb r EOk) then (h1, EStatechartError) else add_transitions h1 rest
  end.

Fixpoint nth_trans (l : list transition) (i : nat) : list transition :=
  match l, i with
  | t :: _, O => [t]
  | _ :: l', S j => nth_trans l' j
  | [], _ => []
  end.

Definition copy_from_statechart (host guest : chart) (source replace : name) (rho : list (name * name)) : chart * eres :=
  if negb (has_state host replace) then (host, EStatechartError) else
  match children_for host replace with
  | _ :: _ => (host, EStatechartError)
  | [] =>
      let '(g1, r1) := rename_state guest source replace in
      if negb (eres_eqb r1 EOk) then (host, r1) else
      match state_for g1 replace with
      | None => (host, EStatechartError)
      | Some st =>
          let h1 := with_states host (dset replace st (c_states host)) in
          let '(g2, h2, added, r2) := copy_states (descendants_for g1 replace) rho g1 h1 [] in
          let h3 := sync_states g2 h2 (replace :: added) in
          if negb (eres_eqb r2 EOk) then (h3, r2) else
          let idxs := collect_transitions g2 (replace :: descendants_for g2 replace) [] in
          add_transitions h3 (flat_map (nth_trans (c_transitions g2)) idxs)
      end
  end.

(* ---- correspondence cases ---- *)
Record ccase := mkCCase {
  cc_host : chart;
  cc_guest : chart;
  cc_source : name;
  cc_replace : name;
  cc_rho : list (name * name);
  cc_res : eres;          (* implementation *)
  cc_post : chart         (* implementation: the host after the call (also when it raised) *)
}.

Definition bitN (b : bool) (v : N) : N := if b then 0%N else v.

(* 1: outcome differs; 2: the resulting host differs (dictionary orders included);
   4: Pb -- the call succeeded on a sound host and a sound guest but the resulting host is not sound (implementation output) *)
Definition check_ccase (c : ccase) : N :=
  let '(m, r) := copy_from_statechart (cc_host c) (cc_guest c) (cc_source c) (cc_replace c) (cc_rho c) in
  (bitN (eres_eqb r (cc_res c)) 1
   + bitN (chart_eqb m (cc_post c)) 2
   + bitN (negb (sound_b (cc_host c)) || negb (sound_b (cc_guest c)) || negb (eres_eqb (cc_res c) EOk)
           || sound_b (cc_post c)) 4)%N.

Fixpoint check_cfrom (i : N) (cs : list ccase) : list (N * N) :=
  match cs with
  | [] => []
  | c :: cs' =>
      let r := check_ccase c in
      if N.eqb r 0 then check_cfrom (N.succ i) cs' else (i, r) :: check_cfrom (N.succ i) cs'
  end.
Definition check_ccases (cs : list ccase) : list (N * N) := check_cfrom 0%N cs.
