"""Import/export family (C11, C12): chart generators with arbitrary strings, fault injection, Coq cases."""
import copy
import io
import os
import random

import genchart
import sx
import tocoq
from common import cbool, clist, copt, cstr, cz

HEADER = '''From Sismic Require Import Base Chart Edit IO IOCorr.
Open Scope string_scope.
Open Scope list_scope.
'''

TOKENS = ['a: b', '# x', '- y', '|', 'yes', 'null', '1e3', '0x1f', "it's", 'say "hi"', 'multi\nline', 'tab\there',
          'é漢字', '~', 'true', '1', '1.0', 'a\\b', '{a}', '[a]', 'a, b', '&a', '*a', '!t', '%d', '@x', '`x`', 'x #y',
          'emoji😀', 'x\n\n\ny', "'", '"', 'key: |\n  block', '=', '<<', '0o17', '.inf', '+1', '12:30:00', '2001-01-01',
          'NO', 'On', 'off', 'y', 'n', '-', '---', '...', 'a: b: c', 'é', ' ', 'x\r\ny', '>', 'x: ', ':x',
          'long ' * 30, 'ünï cödé', '​', 'a\x7fb', '? x', '?x = 1', '?', 'a ? b', '? a: b', '?- x', '? [a]']
ALPHA = 'abcdefghijklmnopqrstuvwxyzABCXYZ0123456789 _-:#,.[]{}!&*|>\'"%@`=\\/\t\n??'


def weird_string(rng, allow_edge_space=False):
    r = rng.random()
    if r < 0.45:
        s = rng.choice(TOKENS)
    elif r < 0.8:
        s = ''.join(rng.choice(ALPHA) for _ in range(rng.randint(1, 12)))
    else:
        s = rng.choice(TOKENS) + rng.choice(ALPHA) + rng.choice(TOKENS)
    s = s.strip()        # Unicode whitespace at the edges is outside the model (DESIGN.md section 7): ASCII only below
    if allow_edge_space and rng.random() < 0.5:
        s = rng.choice([' ', '\n', '\t', '  ']) + s + rng.choice([' ', '\n', '', '\t '])
    s = s.replace('\x85', '')
    if not s.strip():
        s = 'x' + s + 'x' if allow_edge_space else 'x'
    return s


def known_finding_string(s):
    """the two recorded ruamel.yaml defects (known_findings.json): NEL, and a leading '?' in flow style"""
    return '\x85' in s


def weird_chart(rng):
    """A valid statechart whose names, code and other text are arbitrary strings (never executed)."""
    from sismic.model import (BasicState, CompoundState, DeepHistoryState, FinalState, OrthogonalState,
                              ShallowHistoryState, Statechart, Transition)
    used = set()

    def nm():
        for _ in range(50):
            s = weird_string(rng)
            if rng.random() < 0.2:
                # state names may begin or end with (ASCII) blanks: they are kept verbatim, as names and as transition ends
                s = rng.choice(['', ' ', '  ', '\t']) + s + rng.choice([' ', '  ', '\t', ' \t'])
            if s not in used and not known_finding_string(s):
                used.add(s)
                return s
        s = 'n%d' % len(used)
        used.add(s)
        return s

    def txt(edge=True):
        for _ in range(50):
            s = weird_string(rng, allow_edge_space=edge)
            if not known_finding_string(s):
                return s
        return 'x'

    def code():
        return txt() if rng.random() < 0.4 else None

    def contracts(o):
        if rng.random() < 0.3:
            for lst in (o.preconditions, o.postconditions, o.invariants):
                for _ in range(rng.choice([0, 1, 2])):
                    lst.append(txt())

    sc = Statechart(nm(), description=txt(False) if rng.random() < 0.5 else None,
                    preamble=txt(False) if rng.random() < 0.5 else None)
    root = CompoundState(nm(), on_entry=code(), on_exit=code())
    contracts(root)
    sc.add_state(root, None)
    composites = [root.name]
    owners = [root.name]
    allnames = [root.name]
    kinds = {root.name: 'compound'}
    for _ in range(rng.randint(2, 9)):
        parent = rng.choice(composites)
        k = rng.choice(['basic', 'basic', 'compound', 'orthogonal', 'final', 'shallow', 'deep'])
        if kinds[parent] == 'orthogonal' and k in ('final', 'shallow', 'deep'):
            k = 'basic'
        n = nm()
        if k == 'basic':
            st = BasicState(n, on_entry=code(), on_exit=code())
        elif k == 'compound':
            st = CompoundState(n, on_entry=code(), on_exit=code())
        elif k == 'orthogonal':
            st = OrthogonalState(n, on_entry=code(), on_exit=code())
        elif k == 'final':
            st = FinalState(n, on_entry=code(), on_exit=code())
        elif k == 'shallow':
            st = ShallowHistoryState(n, on_entry=code(), on_exit=code())
        else:
            st = DeepHistoryState(n, on_entry=code(), on_exit=code())
        contracts(st)
        sc.add_state(st, parent)
        kinds[n] = k
        allnames.append(n)
        if k in ('compound', 'orthogonal'):
            composites.append(n)
        if k in ('basic', 'compound', 'orthogonal'):
            owners.append(n)
    # composite states must have children (a childless compound cannot be told from a basic state in YAML)
    for n in list(composites):
        if not sc._children[n]:
            c = BasicState(nm())
            sc.add_state(c, n)
            kinds[c.name] = 'basic'
            allnames.append(c.name)
            owners.append(c.name)
    for n in composites:
        ch = sc._children[n]
        if kinds[n] == 'compound':
            plain = [c for c in ch if kinds[c] not in ('shallow', 'deep')]
            if rng.random() < 0.8 and ch:
                sc._states[n].initial = rng.choice(ch)
            for c in ch:
                if kinds[c] in ('shallow', 'deep') and plain and rng.random() < 0.8:
                    sc._states[c].memory = rng.choice(plain)
    for _ in range(rng.randint(0, 8)):
        t = Transition(rng.choice(owners), rng.choice(allnames) if rng.random() < 0.8 else None,
                       event=txt(False) if rng.random() < 0.7 else None, guard=code(), action=code(),
                       priority=rng.choice([None, None, 1, -1, 5, -3, 'x']) if False else rng.choice([None, None, 1, -1, 5, -3]))
        contracts(t)
        sc.add_transition(t)
    return sc


def no_edge_space(sc):
    def ok(s):
        return s is None or s == s.strip()
    for s in sc._states.values():
        if not (ok(getattr(s, 'on_entry', None)) and ok(getattr(s, 'on_exit', None))):
            return False
        if not all(ok(c) for c in s.preconditions + s.postconditions + s.invariants):
            return False
    for t in sc._transitions:
        if not (ok(t.guard) and ok(t.action) and ok(t.event)):
            return False
        if not all(ok(c) for c in t.preconditions + t.postconditions + t.invariants):
            return False
    return True


# ------------------------------------------------------------------------------------------------
# data trees
# ------------------------------------------------------------------------------------------------
def c_ydata(d):
    if d is None:
        return 'YNull'
    if isinstance(d, bool):
        return '(YBool %s)' % cbool(d)
    if isinstance(d, int):
        return '(YInt %s)' % cz(d)
    if isinstance(d, float):
        return '(YFloat %s %s)' % (cstr(str(d)), cz(int(d)))
    if isinstance(d, str):
        return '(YStr %s)' % cstr(d)
    if isinstance(d, (list, tuple)):
        return '(YList %s)' % clist(d, c_ydata)
    if isinstance(d, dict):
        return '(YMap %s)' % clist(sorted(d.items()), lambda kv: '(%s, %s)' % (cstr(kv[0]), c_ydata(kv[1])))
    raise ValueError('unsupported YAML value %r' % (d,))


def modellable(d):
    """The data tree stays inside what IO.v models (string keys, no list/map where a string is coerced)."""
    if isinstance(d, dict):
        return all(isinstance(k, str) and modellable(v) for k, v in d.items())
    if isinstance(d, (list, tuple)):
        return all(modellable(x) for x in d)
    if isinstance(d, float):
        return d == d and abs(d) < 1e15
    return True


def c_chart_raw(cv):
    """chart with its REAL code strings (tocoq.c_chart abbreviates code, which import/export must not)."""
    def st(s):
        return '(mkState %s %s %s %s %s %s %s %s %s)' % (
            cstr(s['name']), s['kind'], copt(s['initial'], cstr), copt(s['memory'], cstr), copt(s['on_entry'], cstr),
            copt(s['on_exit'], cstr), clist(s['pre'], cstr), clist(s['post'], cstr), clist(s['inv'], cstr))

    def tr(t):
        return '(mkTrans %s %s %s %s %s %s %s %s %s)' % (
            cstr(t['source']), copt(t['target'], cstr), copt(t['event'], cstr), copt(t['guard'], cstr),
            copt(t['action'], cstr), cz(t['priority']), clist(t['pre'], cstr), clist(t['post'], cstr), clist(t['inv'], cstr))
    return '(mkChart %s %s %s\n  %s\n  %s\n  %s\n  %s)' % (
        cstr(cv['name']), copt(cv['description'], cstr), copt(cv['preamble'], cstr),
        clist(cv['states'], lambda kv: '(%s, %s)' % (cstr(kv[0]), st(kv[1]))),
        clist(cv['parent'], lambda kv: '(%s, %s)' % (cstr(kv[0]), copt(kv[1], cstr))),
        clist(cv['children'], lambda kv: '(%s, %s)' % (copt(kv[0], cstr), clist(kv[1], cstr))),
        clist(cv['transitions'], tr))


def impl_import_dict(data):
    """schema + import_from_dict + validate on the real implementation -> ('ok', chart) | ('sce',) | ('other', repr)"""
    import schema
    from sismic.exceptions import StatechartError
    from sismic.io.datadict import import_from_dict
    from sismic.io.yaml import SCHEMA
    try:
        try:
            d = schema.Schema(SCHEMA.statechart).validate(copy.deepcopy(data))
        except schema.SchemaError:
            return ('sce',)
        sc = import_from_dict(d)
        sc.validate()
        return ('ok', sc)
    except StatechartError:
        return ('sce',)
    except Exception as e:  # noqa
        return ('other', repr(e))


def impl_import_text(text):
    from sismic.exceptions import StatechartError
    from sismic.io import import_from_yaml
    try:
        return ('ok', import_from_yaml(text))
    except StatechartError:
        return ('sce',)
    except Exception as e:  # noqa
        return ('other', repr(e))


def dump_yaml(data):
    import ruamel.yaml as yaml
    yml = yaml.YAML(typ='safe', pure=True)
    yml.default_flow_style = False     # ruamel cannot re-read some of its own flow mappings
    out = io.StringIO()
    yml.dump(data, out)
    return out.getvalue()


def load_yaml(text):
    import ruamel.yaml as yaml
    return yaml.YAML(typ='safe', pure=True).load(text)


def c_iores(r):
    if r[0] == 'ok':
        return '(IOk %s)' % c_chart_raw(sx.chart_value(r[1]))
    if r[0] == 'sce':
        return 'IStatechartError'
    return 'IOther'
