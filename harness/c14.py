"""C14 -- clocks: correspondence of the SimulatedClock model with sismic/clock/clock.py."""
import os
import random
import sys
import time
from fractions import Fraction

from common import (Verdict, cbool, clist, coq_eval_files, cq, gen_dir, log, parse_pairs,
                    proof_stage, repo_blob_ids, write_evidence, TRUSTED_BASE)

PROP = 'C14'
PROOF_FILES = ['theories/Clock.v', 'proofs/ClockProofs.v']


class Wall:
    """Scripted wall clock: first read in an operation returns a, later reads return b."""

    def __init__(self):
        self.a = self.b = Fraction(0)
        self.n = 0

    def arm(self, a, b):
        self.a, self.b, self.n = a, b, 0

    def __call__(self):
        self.n += 1
        return self.a if self.n == 1 else self.b


def impl_run(w0, script):
    """Run the real SimulatedClock.  script: list of (op, arg, a, b)."""
    import sismic.clock.clock as cm
    wall = Wall()
    cm.time = wall
    wall.arm(w0, w0)
    c = cm.SimulatedClock()
    out = []
    for op, arg, a, b in script:
        wall.arm(a, b)
        try:
            if op == 'start':
                c.start(); r = ('unit',)
            elif op == 'stop':
                c.stop(); r = ('unit',)
            elif op == 'speed':
                c.speed = arg; r = ('unit',)
            elif op == 'time':
                r = ('val', Fraction(c.time))
            elif op == 'settime':
                c.time = arg; r = ('unit',)
        except ValueError:
            r = ('valueerror',)
        out.append(r)
    return out


def gen_script(rng, atomic):
    n = rng.randint(3, 14)
    w = Fraction(rng.randint(0, 5))
    w0 = w
    script = []
    est = Fraction(0)  # rough estimate of the reading, to aim assignments around the threshold
    playing = False
    speed = Fraction(1)
    # magnitudes: a third of the scripts live at large values (a day, a year, the epoch in seconds, 10**12), where a
    # difference of a fraction of a second is tiny in relative terms, with a wall clock at epoch-like values
    big = rng.choice([86400, 31536000, 1700000000, 10 ** 12]) if rng.random() < 0.35 else 0
    small = [Fraction(-1, 2), Fraction(-1, 1000), Fraction(-1, 10 ** 6), Fraction(1, 1000)] if big else []
    if big:
        w = w0 = Fraction(1700000000) + w
        script.append(('settime', Fraction(big), w, w))
        est = Fraction(big)
    for _ in range(n):
        dw = rng.choice([0, 0, 1, 2, Fraction(1, 2), Fraction(7, 3), 10])
        a = w + dw
        if playing:
            est += dw * speed
        b = a if atomic else a + rng.choice([0, Fraction(1, 4), 1, 3])
        if playing and not atomic:
            pass
        k = rng.random()
        if k < 0.30:
            op, arg = 'time', None
        elif k < 0.45:
            op, arg = 'start', None
            playing = True
        elif k < 0.58:
            op, arg = 'stop', None
            playing = False
        elif k < 0.78:
            arg = rng.choice([0, 1, 2, Fraction(1, 2), Fraction(3, 2), 5, 10])
            arg = Fraction(arg)
            op = 'speed'
            speed = arg
        else:
            arg = est + rng.choice([-2, -1, Fraction(-1, 3), 0, 0, Fraction(1, 3), 1, 5] + small + small)
            op = 'settime'
            if arg >= est:
                est = arg
        script.append((op, arg, a, b))
        # interleave a probe read so that every operation's effect is observed
        if op != 'time' and rng.random() < 0.7:
            w2 = b + rng.choice([0, 0, 1, Fraction(5, 2)])
            if playing:
                est += (w2 - a) * speed
            script.append(('time', None, w2, w2))
            b = w2
        w = b
    return w0, script


def op_coq(op, arg):
    return {'start': 'OpStart', 'stop': 'OpStop', 'time': 'OpTime'}.get(op) or (
        '(OpSetSpeed %s)' % cq(arg) if op == 'speed' else '(OpSetTime %s)' % cq(arg))


def res_coq(r):
    return {'unit': 'RUnit', 'valueerror': 'RValueError'}.get(r[0]) or '(RVal %s)' % cq(r[1])


CASE_HEADER = '''From Coq Require Import QArith List Bool ZArith.
From Sismic Require Import Clock ClockCorr.
Import ListNotations.
Open Scope Q_scope.
'''


def sync_check(rng, n, v):
    """SynchronizedClock clause on the real classes: a SynchronizedClock following an interpreter shows the time of that
    interpreter's latest step -- at construction, after every execute_once, and WHILE the listeners of a step are being
    notified (that is when bound property statecharts read it)."""
    import genchart
    import sx
    from sismic.clock import SynchronizedClock
    from sismic.interpreter import Interpreter
    from sismic.model import Event
    from sismic.clock import SimulatedClock
    nv, reads = 0, 0
    for k in range(n):
        sc = genchart.valid_chart(rng, genchart.Profile(p_contract=0.0, use_tick=False, max_states=8))
        clock = SimulatedClock()
        it = Interpreter(sc, clock=clock)
        sync = SynchronizedClock(it)
        seen = []
        cur = {'now': None}
        it.attach(lambda m: seen.append((m.name, sync.time, cur['now'])))
        bad = None
        if sync.time != it.time:
            bad = ('at construction', sync.time, it.time)
        for j in range(rng.randint(4, 10)):
            r = rng.random()
            if r < 0.4:
                clock.time += rng.choice([1, 2, 5])
            elif r < 0.6:
                before = sync.time
                it.queue(Event(rng.choice(['e0', 'e1', 'e2']), **({'delay': rng.choice([1, 3])} if rng.random() < 0.3 else {})))
                reads += 1
                # ("the time of the last step": queueing an event is not a step, whatever the clock shows meanwhile)
                if sync.time != before and bad is None:
                    bad = ('queue() called while the clock shows %r moved the synchronized clock from %r (the time of the last step) to %r'
                           % (clock.time, before, sync.time))
            else:
                cur['now'] = clock.time
                del seen[:]
                try:
                    it.execute_once()
                except Exception:  # noqa
                    break
                reads += len(seen) + 1
                wrong = [x for x in seen if x[1] != cur['now']]
                if wrong and bad is None:
                    bad = ('while %r is delivered during the step executed at time %r the synchronized clock shows %r'
                           % (wrong[0][0], cur['now'], wrong[0][1]))
                if sync.time != cur['now'] and bad is None:
                    bad = ('after execute_once at %r' % cur['now'], sync.time)
        if bad is not None:
            import sismic.io
            nv += 1
            v.violation(dict(property=PROP, clause='a SynchronizedClock does not show the time of the last step of the interpreter '
                                                    'it follows (C14_sync)', detail=bad, chart_yaml=sismic.io.export_to_yaml(sc)),
                        tag='sync%d' % k)
    return nv, reads


def main(tier, seed):
    t0 = time.time()
    v = Verdict(PROP)
    sys.path.insert(0, os.environ.get('VERIF_REPO', '/repo'))
    info = proof_stage(PROP, PROOF_FILES, v)
    rng = random.Random(seed * 7919 + 14)
    n_atomic = 1500 if tier == 'quick' else 20000
    n_non = 500 if tier == 'quick' else 6000
    cases = []
    for i in range(n_atomic + n_non):
        atomic = i < n_atomic
        w0, script = gen_script(rng, atomic)
        try:
            out = impl_run(w0, script)
            err = None
        except Exception as e:  # an exception other than ValueError is itself a disagreement
            out, err = [], repr(e)
        cases.append(dict(atomic=atomic, w0=w0, script=script, out=out, err=err))
    d = gen_dir(PROP)
    files = []
    shard = 500
    for s in range(0, len(cases), shard):
        fn = '%s/cases_%d.v' % (d, s // shard)
        with open(fn, 'w') as f:
            f.write(CASE_HEADER)
            f.write('Definition cases : list ccase := [\n')
            rows = []
            for c in cases[s:s + shard]:
                steps = clist(c['script'], lambda x: '(%s, %s, %s)' % (op_coq(x[0], x[1]), cq(x[2]), cq(x[3])))
                outs = clist(c['out'], res_coq) if c['err'] is None else '[]'
                rows.append('  mk_ccase %s %s %s %s' % (cbool(c['atomic']), cq(c['w0']), steps, outs))
            f.write(';\n'.join(rows))
            f.write('\n].\nEval vm_compute in (check_cases cases).\n')
        files.append(fn)
    res = coq_eval_files(PROP, files)
    mism = []          # (case index, code)
    coq_fail = []
    for k, (fn, rc, out) in enumerate(res):
        if rc != 0:
            coq_fail.append((fn, out[-1500:]))
            continue
        for i, code in parse_pairs(out):
            mism.append((k * shard + i, code))
    # code bits: 1 = model/impl results differ; 2 = Pb (monotone readings) false on impl output;
    #            4 = ValueError raised although value >= last reading at same wall / other Pb clause
    n_viol = 0
    informational = 0
    for idx, code in mism:
        c = cases[idx]
        rep = dict(property=PROP, kind='clock-script', atomic=c['atomic'], w0=str(c['w0']),
                   script=[(o, None if a is None else str(a), str(x), str(y)) for o, a, x, y in c['script']],
                   implementation_results=[tuple(str(z) for z in r) for r in c['out']],
                   implementation_exception=c['err'], mismatch_code=code,
                   how_to_replay='PYTHONPATH=/repo /venv/bin/python /verif/harness/main.py C14 --replay <this file>',
                   clause=('readings decrease (C14_monotonic)' if code & 2 else
                           'results differ from the proved model on an atomic script (C14_set/C14_running/C14_stopped)'))
        if (code & 2) or (c['atomic'] and (code & 1)) or c['err']:
            v.violation(rep, tag=str(idx))
            n_viol += 1
        else:
            informational += 1
    for fn, out in coq_fail:
        v.violation(dict(property=PROP, broken='correspondence file did not evaluate', file=fn, log=out),
                    tag='coq', no_input=True)
        n_viol += 1
    sync_viol, sync_reads = sync_check(random.Random(seed * 77 + 14), 60 if tier == 'quick' else 800, v)
    n_viol += sync_viol
    if not info.get('build_ok') or not info.get('ok') or info.get('forbidden_tokens'):
        if n_viol == 0:
            v.violation(dict(property=PROP, broken='proof obligations of C14_Props.v do not check',
                             info=info), tag='proof', no_input=True)
            n_viol += 1
    distinct = len({(c['w0'], tuple(c['script'])) for c in cases
                    if any(o in ('speed', 'settime') for o, _, _, _ in c['script'])})
    opmix = {}
    nerr = 0
    for c in cases:
        for (o, _, _, _), r in zip(c['script'], c['out']):
            opmix[o] = opmix.get(o, 0) + 1
            nerr += r[0] == 'valueerror'
    cov = dict(
        obligations=info.get('obligations', 0), discharged=info.get('discharged', 0),
        checker_cmd='cd /verif/coq && make && coqc props/C14_Props.v (Print Assumptions) ; coqc gen/C14/cases_*.v',
        trusted_base=TRUSTED_BASE + ['Print Assumptions: ' + ('Closed under the global context x%d' % info.get('closed', 0)
                                                               if not info.get('axioms') else '; '.join(info['axioms']))],
        theorems=info.get('theorems', []),
        evaluations=len(cases), distinct_nontrivial=distinct,
        rule='random operation scripts (3-14 ops + probe reads) over exact rationals with a scripted wall clock; '
             'non-trivial = contains a speed change or a time assignment; distinct = distinct (w0, script)',
        traces_validated_against_impl=len(cases),
        synchronized_clock_reads_checked=sync_reads,
        atomic_scripts=n_atomic, nonatomic_scripts=n_non, op_mix=opmix, valueerrors_hit=nerr,
        nonatomic_model_differences_informational=informational,
        samples=[dict(w0=str(c['w0']), script=[(o, None if a is None else str(a), str(x), str(y)) for o, a, x, y in c['script']],
                      results=[tuple(str(z) for z in r) for r in c['out']]) for c in cases[:2]],
        source_blobs=repo_blob_ids(['sismic/clock/clock.py']),
        proof_info={k: info.get(k) for k in ('build_ok', 'closed', 'axioms', 'forbidden_tokens', 'coqchk')},
    )
    write_evidence(PROP, tier, seed, t0, cov,
                   ['wall clock non-decreasing, speeds >= 0 (hypotheses of C14_monotonic)',
                    'time modelled over Q; IEEE rounding of float clocks not modelled',
                    'SynchronizedClock: its reading is the followed interpreter\'s _time, frozen per step (theorem C13_frozen of the interpreter model); checked on the real classes at construction, after every step and during listener notification'],
                   n_viol)
    return v.finish()
