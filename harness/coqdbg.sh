#!/bin/bash
# usage: coqdbg.sh file.v LINE  -- feed first LINE lines to coqtop then "Show." and print tail
f=$1; n=$2; t=${3:-60}
cd /verif/coq
( head -n "$n" "$f"; echo; echo "Show." ) | timeout 300 coqtop -Q theories Sismic -Q proofs SismicProofs -Q props SismicProps 2>&1 | grep -v conda | tail -n "$t"
