"""C15 -- interpreter-family check (see icheck.py, ifam.py)."""
import os

import genchart
import icheck
import ifam

PROP = 'C15'
PROOF_FILES = [f for f in ['proofs/MetaProofs.v', 'proofs/WorldProofs.v'] if os.path.exists(os.path.join('/verif/coq', f))]


def main(tier, seed):
    return icheck.run(PROP, tier, seed, genchart.Profile(p_send=0.7, p_action=0.85, p_contract=0.2), ifam.ScenarioSpec(n_rec=1, bound_callables=3, bound_charts=1, p_detach=0.1, p_queue=0.4, p_fail_bit=0.15, p_continue=0.7), icheck.interest_c15, PROOF_FILES, assumptions=['user notify names differ from the built-in meta-event names'])


replay = icheck.replay
