"""Developer tool (not used by the registered checks): systematic mutation screening of /repo.

phase 1   mutscreen.py gen <outdir> [file ...]
          text-level mutants located through the `ast` (comparison / boolean operators, negated conditions, constants,
          sorted/reverse flags, dropped statements, index changes, arithmetic), one diff per mutant, each tried against the
          pinned test-suite in a scratch worktree (8 workers): a mutant the test-suite kills is of no interest here;
          survivors are written to <outdir>/survivors/<id>.diff with <id>.json (file, line, function, operator).
phase 2   mutscreen.py run <outdir> <n> [regex]
          runs, for a sample of survivors, the checks mapped to the mutated function against a scratch copy (VERIF_REPO),
          and records in <outdir>/results.tsv which check reports the mutant.  A survivor that no check reports is either
          equivalent / outside the properties, or a gap: those are looked at by hand (DESIGN.md section 11.8).

Nothing here touches /repo: every mutant lives in a scratch worktree under /tmp that is removed afterwards."""
import ast
import json
import os
import random
import re
import subprocess
import sys

REPO = '/repo'
FILES = ['sismic/interpreter/default.py', 'sismic/interpreter/listener.py', 'sismic/code/python.py', 'sismic/code/context.py',
         'sismic/model/statechart.py', 'sismic/model/elements.py', 'sismic/model/events.py', 'sismic/io/datadict.py',
         'sismic/io/yaml.py', 'sismic/clock/clock.py', 'sismic/runner/runner.py', 'sismic/bdd/steps.py',
         'sismic/bdd/environment.py', 'sismic/testing.py']

# which checks look at which code (file, function-name regex) -> properties
MAP = [
    ('sismic/interpreter/default.py', r'_select_transitions', 'C01 C04 C07'),
    ('sismic/interpreter/default.py', r'_sort_transitions', 'C03 C04 C07'),
    ('sismic/interpreter/default.py', r'_create_steps', 'C02 C03 C06'),
    ('sismic/interpreter/default.py', r'_create_stabilization_step|_stabilize', 'C02 C06 C03'),
    ('sismic/interpreter/default.py', r'_apply_step', 'C02 C03 C06 C08 C10 C13'),
    ('sismic/interpreter/default.py', r'queue|_select_event|_queue_event', 'C05 C15'),
    ('sismic/interpreter/default.py', r'_raise_event|_notify|attach|detach|bind', 'C10 C15'),
    ('sismic/interpreter/default.py', r'_evaluate_contract', 'C08 C09'),
    ('sismic/interpreter/default.py', r'execute_once|_compute_steps|execute|_initialize|__init__|final|configuration', 'C03 C05 C10 C13 C02'),
    ('sismic/interpreter/default.py', r'.*', 'C03 C05 C10'),
    ('sismic/interpreter/listener.py', r'.*', 'C10 C15'),
    ('sismic/code/python.py', r'evaluate_preconditions|evaluate_invariants|evaluate_postconditions|on_step_starts', 'C08 C09 C13 C18'),
    ('sismic/code/python.py', r'__getstate__|__setstate__', 'C18'),
    ('sismic/code/python.py', r'.*', 'C08 C13 C03 C18'),
    ('sismic/code/context.py', r'.*', 'C08 C18'),
    ('sismic/model/statechart.py', r'rename_state|copy_from_statechart', 'C17 C16'),
    ('sismic/model/statechart.py', r'add_state|remove_state|move_state|add_transition|remove_transition|rotate_transition|validate|_validate', 'C16 C12'),
    ('sismic/model/statechart.py', r'.*', 'C16 C02 C03 C11'),
    ('sismic/model/elements.py', r'.*', 'C16 C11 C17 C01'),
    ('sismic/model/events.py', r'.*', 'C05 C15 C10 C18'),
    ('sismic/io/datadict.py', r'.*', 'C11 C12'),
    ('sismic/io/yaml.py', r'.*', 'C11 C12'),
    ('sismic/clock/clock.py', r'.*', 'C14'),
    ('sismic/runner/runner.py', r'.*', 'C20'),
    ('sismic/bdd/steps.py', r'.*', 'C19'),
    ('sismic/bdd/environment.py', r'.*', 'C19'),
    ('sismic/testing.py', r'.*', 'C19'),
]

SECOND = bool(os.environ.get('MUT_SECOND'))
CONFUSE = {'_entry_time': '_idle_time', '_idle_time': '_entry_time', 'entered_states': 'exited_states', 'exited_states': 'entered_states',
           'source': 'target', 'target': 'source', '_internal_queue': '_external_queue', '_external_queue': '_internal_queue',
           'preconditions': 'postconditions', 'postconditions': 'invariants', 'invariants': 'preconditions', 'on_entry': 'on_exit',
           'on_exit': 'on_entry', 'ancestors_for': 'descendants_for', 'descendants_for': 'ancestors_for', 'children_for': 'descendants_for',
           'parent_for': 'state_for', 'initial': 'memory', 'memory': 'initial', '_time': '_speed', '_base': '_time',
           'transitions_from': 'transitions_to', 'transitions_to': 'transitions_from', 'sent_events': 'steps', 'pop': 'copy'}
CONFUSE_NAMES = {'min': 'max', 'max': 'min', 'any': 'all', 'all': 'any', 'InternalEvent': 'Event', 'MetaEvent': 'InternalEvent',
                 'ShallowHistoryState': 'DeepHistoryState', 'DeepHistoryState': 'ShallowHistoryState', 'OrthogonalState': 'CompoundState',
                 'CompoundState': 'OrthogonalState', 'bisect_right': 'bisect_left', 'insort_right': 'insort_left'}
CMP = {ast.Lt: ('<', '<='), ast.LtE: ('<=', '<'), ast.Gt: ('>', '>='), ast.GtE: ('>=', '>'), ast.Eq: ('==', '!='),
       ast.NotEq: ('!=', '=='), ast.In: ('in', 'not in'), ast.NotIn: ('not in', 'in'), ast.Is: ('is', 'is not'),
       ast.IsNot: ('is not', 'is')}


def offsets(src):
    """line/col -> absolute offset"""
    starts = [0]
    for line in src.splitlines(keepends=True):
        starts.append(starts[-1] + len(line))
    return lambda ln, col: starts[ln - 1] + len(src.splitlines(keepends=True)[ln - 1].encode()[:col].decode(errors='ignore'))


def func_of(tree):
    """line -> innermost function name"""
    spans = []
    for n in ast.walk(tree):
        if isinstance(n, (ast.FunctionDef, ast.AsyncFunctionDef)):
            spans.append((n.lineno, n.end_lineno, n.name))
    def f(line):
        best = None
        for a, b, name in spans:
            if a <= line <= b and (best is None or a >= best[0]):
                best = (a, b, name)
        return best[2] if best else '<module>'
    return f


def mutants_of(path):
    src = open(os.path.join(REPO, path)).read()
    tree = ast.parse(src)
    off = offsets(src)
    fn = func_of(tree)
    out = []     # (line, function, operator description, start, end, replacement)
    out2 = []

    def seg(n):
        return off(n.lineno, n.col_offset), off(n.end_lineno, n.end_col_offset)

    docstrings = set()
    for n in ast.walk(tree):
        if isinstance(n, (ast.FunctionDef, ast.ClassDef, ast.Module, ast.AsyncFunctionDef)) and n.body and isinstance(n.body[0], ast.Expr) \
                and isinstance(n.body[0].value, ast.Constant) and isinstance(n.body[0].value.value, str):
            docstrings.add(id(n.body[0]))
    for n in ast.walk(tree):
        if isinstance(n, ast.Compare):
            left = n.left
            for op, comp in zip(n.ops, n.comparators):
                a = off(left.end_lineno, left.end_col_offset)
                b = off(comp.lineno, comp.col_offset)
                old, new = CMP[type(op)]
                text = src[a:b]
                m = re.search(r'\b%s\b' % re.escape(old) if old[0].isalpha() else re.escape(old), text)
                if m and text.strip().strip('()') == old:
                    out.append((n.lineno, fn(n.lineno), 'cmp %s -> %s' % (old, new), a + m.start(), a + m.end(), new))
                left = comp
        elif isinstance(n, ast.BoolOp):
            for x, y in zip(n.values, n.values[1:]):
                a = off(x.end_lineno, x.end_col_offset)
                b = off(y.lineno, y.col_offset)
                old = 'and' if isinstance(n.op, ast.And) else 'or'
                new = 'or' if old == 'and' else 'and'
                m = re.search(r'\b%s\b' % old, src[a:b])
                if m:
                    out.append((n.lineno, fn(n.lineno), 'bool %s -> %s' % (old, new), a + m.start(), a + m.end(), new))
        elif isinstance(n, ast.UnaryOp) and isinstance(n.op, ast.Not):
            a, b = seg(n)
            oa, ob = seg(n.operand)
            out.append((n.lineno, fn(n.lineno), 'drop not', a, b, '(' + src[oa:ob] + ')'))
        elif isinstance(n, (ast.If, ast.While)) or isinstance(n, ast.IfExp):
            a, b = seg(n.test)
            if not (isinstance(n.test, ast.UnaryOp) and isinstance(n.test.op, ast.Not)):
                out.append((n.test.lineno, fn(n.test.lineno), 'negate condition', a, b, 'not (' + src[a:b] + ')'))
        elif isinstance(n, ast.Constant) and n.value is True:
            a, b = seg(n)
            out.append((n.lineno, fn(n.lineno), 'True -> False', a, b, 'False'))
        elif isinstance(n, ast.Constant) and n.value is False:
            a, b = seg(n)
            out.append((n.lineno, fn(n.lineno), 'False -> True', a, b, 'True'))
        elif isinstance(n, ast.Constant) and isinstance(n.value, int) and not isinstance(n.value, bool):
            a, b = seg(n)
            out.append((n.lineno, fn(n.lineno), 'int %d -> %d' % (n.value, n.value + 1), a, b, str(n.value + 1)))
            if n.value == 0:
                out.append((n.lineno, fn(n.lineno), 'int 0 -> -1', a, b, '-1'))
        elif isinstance(n, ast.Call) and isinstance(n.func, ast.Name) and n.func.id == 'sorted' and n.args:
            a, b = seg(n)
            xa, xb = seg(n.args[0])
            out.append((n.lineno, fn(n.lineno), 'sorted(x, ..) -> list(x)', a, b, 'list(' + src[xa:xb] + ')'))
        elif isinstance(n, ast.BinOp) and isinstance(n.op, (ast.Add, ast.Sub)):
            a = off(n.left.end_lineno, n.left.end_col_offset)
            b = off(n.right.lineno, n.right.col_offset)
            old = '+' if isinstance(n.op, ast.Add) else '-'
            m = re.search(re.escape(old), src[a:b])
            if m:
                out.append((n.lineno, fn(n.lineno), 'arith %s -> %s' % (old, '-' if old == '+' else '+'), a + m.start(), a + m.end(),
                            '-' if old == '+' else '+'))
        elif isinstance(n, ast.Expr) and id(n) not in docstrings and isinstance(n.value, ast.Call):
            a, b = seg(n)
            out.append((n.lineno, fn(n.lineno), 'drop call statement', a, b, 'pass'))
        elif isinstance(n, (ast.Assign, ast.AugAssign)) and n.lineno == n.end_lineno:
            a, b = seg(n)
            tgt = n.targets[0] if isinstance(n, ast.Assign) else n.target
            if isinstance(tgt, (ast.Attribute, ast.Subscript)):
                out.append((n.lineno, fn(n.lineno), 'drop assignment', a, b, 'pass'))
        elif isinstance(n, ast.Subscript) and isinstance(n.slice, ast.Constant) and n.slice.value == 0 and isinstance(n.ctx, ast.Load):
            a, b = seg(n.slice)
            out.append((n.lineno, fn(n.lineno), 'index 0 -> -1', a, b, '-1'))
        elif isinstance(n, ast.Break):
            a, b = seg(n)
            out.append((n.lineno, fn(n.lineno), 'break -> pass', a, b, 'pass'))
        elif isinstance(n, ast.Continue):
            a, b = seg(n)
            out.append((n.lineno, fn(n.lineno), 'continue -> pass', a, b, 'pass'))
        if isinstance(n, ast.keyword) and n.arg == 'reverse' and isinstance(n.value, ast.Constant):
            pass   # covered by True/False
        if SECOND:
            # ---- second batch of operators (order of iteration / of side effects, confusable names, dropped branches)
            if isinstance(n, ast.For) and not isinstance(n.iter, ast.Call):
                a, b = seg(n.iter)
                out2.append((n.lineno, fn(n.lineno), 'for .. in xs -> in reversed(list(xs))', a, b, 'reversed(list(' + src[a:b] + '))'))
            elif isinstance(n, ast.For) and isinstance(n.iter, ast.Call) and not (isinstance(n.iter.func, ast.Name) and n.iter.func.id in ('range', 'enumerate', 'zip', 'reversed')):
                a, b = seg(n.iter)
                out2.append((n.lineno, fn(n.lineno), 'for .. in f(..) -> in reversed(list(f(..)))', a, b, 'reversed(list(' + src[a:b] + '))'))
            if isinstance(n, ast.Call) and isinstance(n.func, ast.Attribute) and n.func.attr == 'append' and len(n.args) == 1:
                a, b = seg(n)
                fa, fb = seg(n.func.value)
                xa, xb = seg(n.args[0])
                out2.append((n.lineno, fn(n.lineno), 'append(x) -> insert(0, x)', a, b, src[fa:fb] + '.insert(0, ' + src[xa:xb] + ')'))
            if isinstance(n, ast.Call) and isinstance(n.func, ast.Name) and n.func.id in ('sorted', 'sorted_groupby') and any(k.arg == 'key' for k in n.keywords) and n.func.id == 'sorted':
                k = next(k for k in n.keywords if k.arg == 'key')
                # drop the key: from the end of the previous argument to the end of the key value
                prev_end = max([off(x.end_lineno, x.end_col_offset) for x in n.args] + [off(q.value.end_lineno, q.value.end_col_offset) for q in n.keywords if q is not k and q.value.end_lineno <= k.value.lineno and off(q.value.end_lineno, q.value.end_col_offset) < off(k.value.lineno, k.value.col_offset)])
                out2.append((n.lineno, fn(n.lineno), 'sorted(.., key=k) -> sorted(..)', prev_end, off(k.value.end_lineno, k.value.end_col_offset), ''))
            if isinstance(n, ast.Attribute) and n.attr in CONFUSE:
                a, b = seg(n)
                va, vb = seg(n.value)
                out2.append((n.lineno, fn(n.lineno), 'name %s -> %s' % (n.attr, CONFUSE[n.attr]), a, b, src[va:vb] + '.' + CONFUSE[n.attr]))
            if isinstance(n, ast.Name) and n.id in CONFUSE_NAMES:
                a, b = seg(n)
                out2.append((n.lineno, fn(n.lineno), 'name %s -> %s' % (n.id, CONFUSE_NAMES[n.id]), a, b, CONFUSE_NAMES[n.id]))
            if isinstance(n, ast.If) and n.lineno != n.end_lineno and not n.orelse and len(n.body) <= 3:
                a = off(n.body[0].lineno, n.body[0].col_offset)
                b = off(n.body[-1].end_lineno, n.body[-1].end_col_offset)
                out2.append((n.lineno, fn(n.lineno), 'if body -> pass', a, b, 'pass'))
            if isinstance(n, (ast.FunctionDef, ast.For, ast.If, ast.With, ast.While)):
                for blk in (n.body, getattr(n, 'orelse', [])):
                    for x, y in zip(blk, blk[1:]):
                        if isinstance(x, (ast.Expr, ast.Assign, ast.AugAssign)) and isinstance(y, (ast.Expr, ast.Assign, ast.AugAssign)) \
                                and id(x) not in docstrings and x.col_offset == y.col_offset:
                            xa, xb = seg(x)
                            ya, yb = seg(y)
                            out2.append((x.lineno, fn(x.lineno), 'swap two statements', xa, yb, src[ya:yb] + src[xb:ya] + src[xa:xb]))
            if isinstance(n, ast.Subscript) and isinstance(n.slice, ast.Slice) and n.slice.lower is not None and isinstance(n.slice.lower, ast.Constant) and n.slice.lower.value == 1:
                a, b = seg(n.slice.lower)
                out2.append((n.lineno, fn(n.lineno), 'slice [1:] -> [0:]', a, b, '0'))
    res = []
    seen = set()
    for line, f, desc, a, b, new in (out2 if SECOND else out):
        if (a, b, new) in seen:
            continue
        seen.add((a, b, new))
        res.append(dict(file=path, line=line, function=f, operator=desc, start=a, end=b, new=new, old=src[a:b]))
    return src, res


def sh(cmd, cwd=None, env=None, timeout=600):
    p = subprocess.run(cmd, shell=True, cwd=cwd, env=env, capture_output=True, text=True, timeout=timeout)
    return p.returncode, p.stdout + p.stderr


def worker_gen(args):
    wid, jobs, outdir = args
    wt = '/tmp/mutwt_%d' % wid
    sh('git -C /repo worktree remove --force %s; git -C /repo worktree add -q --detach %s HEAD' % (wt, wt))
    res = []
    for j in jobs:
        p = os.path.join(wt, j['file'])
        src = open(os.path.join(REPO, j['file'])).read()
        new = src[:j['start']] + j['new'] + src[j['end']:]
        try:
            compile(new, p, 'exec')
        except SyntaxError:
            continue
        open(p, 'w').write(new)
        try:
            rc, out = sh('PYTHONPATH=%s timeout 300 /venv/bin/python -m pytest -x -q -p no:cacheprovider --timeout=120 tests docs '
                         '--deselect "tests/test_bdd.py::TestMicrowave::test_microwave_with_steps" '
                         '--deselect "tests/test_bdd.py::TestMicrowave::test_microwave_with_steps_and_properties" '
                         '--deselect tests/test_bdd.py::test_cli '
                         '--deselect docs/examples/microwave/test_microwave.py::MicrowaveTests::test_increase_timer '
                         '--deselect docs/examples/microwave/test_microwave.py::MicrowaveTests::test_no_heating_when_door_is_not_closed '
                         '2>&1 | tail -3' % wt, cwd=wt, timeout=400)
        except subprocess.TimeoutExpired:
            out = 'timeout'
        # the 7 environmental failures are deselected; survivors = "passed" and no "failed"
        survived = (' passed' in out) and ('failed' not in out) and ('error' not in out.lower())
        if survived:
            rc, diff = sh('git -C %s diff' % wt)
            open(os.path.join(outdir, 'survivors', j['id'] + '.diff'), 'w').write(diff)
            json.dump(j, open(os.path.join(outdir, 'survivors', j['id'] + '.json'), 'w'), indent=1)
        res.append((j['id'], survived))
        open(p, 'w').write(src)
    sh('git -C /repo worktree remove --force %s' % wt)
    return res


def gen(outdir, files):
    from multiprocessing import Pool
    os.makedirs(os.path.join(outdir, 'survivors'), exist_ok=True)
    jobs = []
    for f in files:
        src, ms = mutants_of(f)
        for k, m in enumerate(ms):
            m['id'] = '%s%s_%04d' % ('b' if SECOND else '', re.sub(r'\W', '_', f[len('sismic/'):-3]), k)
            jobs.append(m)
    random.Random(1).shuffle(jobs)
    nw = int(os.environ.get('MUT_WORKERS', '6'))
    print('%d mutants, %d workers' % (len(jobs), nw), flush=True)
    with Pool(nw) as pool:
        allres = pool.map(worker_gen, [(w, jobs[w::nw], outdir) for w in range(nw)])
    flat = [r for rs in allres for r in rs]
    print('tried %d, survivors %d' % (len(flat), sum(1 for _, s in flat if s)))
    json.dump(flat, open(os.path.join(outdir, 'gen_results.json'), 'w'))


def checks_for(j):
    for f, rx, props in MAP:
        if f == j['file'] and re.fullmatch(rx, j['function']) or (f == j['file'] and re.search(rx, j['function']) and rx != '.*'):
            return props.split()
    for f, rx, props in MAP:
        if f == j['file'] and rx == '.*':
            return props.split()
    return []


def run(outdir, n, rx='.'):
    sv = sorted(x[:-5] for x in os.listdir(os.path.join(outdir, 'survivors')) if x.endswith('.json') and re.search(rx, x))
    done = set()
    rp = os.path.join(outdir, 'results.tsv')
    if os.path.exists(rp):
        done = {l.split('\t')[0] for l in open(rp)}
    sv = [s for s in sv if s not in done]
    random.Random(7).shuffle(sv)
    for sid in sv[:n]:
        j = json.load(open(os.path.join(outdir, 'survivors', sid + '.json')))
        wt = '/tmp/mutrun_%s' % sid
        sh('git -C /repo worktree remove --force %s; git -C /repo worktree add -q --detach %s HEAD' % (wt, wt))
        rc, out = sh('git -C %s apply %s' % (wt, os.path.join(outdir, 'survivors', sid + '.diff')))
        hits = []
        for p in checks_for(j):
            env = dict(os.environ, VERIF_REPO=wt, VERIF_EVIDENCE_DIR=wt + '_ev', VERIF_GEN_SUFFIX='_m' + sid)
            try:
                rc, out = sh('/verif/check %s 2>/dev/null | grep -c VIOLATION' % p, env=env, timeout=3000)
                nline = int(out.strip().splitlines()[-1]) if out.strip() else 0
            except Exception as e:  # noqa
                nline = -1
            hits.append('%s=%d' % (p, nline))
            if nline > 0:
                break
        with open(rp, 'a') as f:
            f.write('%s\t%s:%d\t%s\t%s\t%s\n' % (sid, j['file'], j['line'], j['function'], j['operator'], ' '.join(hits)))
        sh('git -C /repo worktree remove --force %s; rm -rf %s_ev /verif/coq/gen/*_m%s /verif/coq/gen/*_m%s_props' % (wt, wt, sid, sid))
        print(sid, j['function'], j['operator'], ' '.join(hits), flush=True)


if __name__ == '__main__':
    if sys.argv[1] == 'gen':
        gen(sys.argv[2], sys.argv[3:] or FILES)
    elif sys.argv[1] == 'list':
        for f in sys.argv[2:] or FILES:
            src, ms = mutants_of(f)
            print(f, len(ms))
    else:
        run(sys.argv[2], int(sys.argv[3]), sys.argv[4] if len(sys.argv) > 4 else '.')
