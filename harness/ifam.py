"""Interpreter family: scenario generation, case emission, Coq evaluation, decoding.

Used by the checks of C01-C10, C13, C15 (each with its own generation profile and its own
projection of the comparison bit mask)."""
import os
import random
import sys
import time

import genchart
import sx
import tocoq
from common import (Verdict, coq_eval_files, gen_dir, log, parse_pairs, proof_stage, repo_blob_ids,
                    write_evidence, TRUSTED_BASE)

BITS = dict(OUTCOME=1, SELECTED=2, EVENT=4, MICRO=8, CONFIG=16, QUEUES=32, MEMORY=64, TIMES=128,
            TRACE=256, CTX=512, LOGS=1024, BOUND=2048, PROPS=4096, PB_LEGAL=8192, PB_QINV=16384,
            PB_META=32768, PB_DELIV=65536, PB_REPLAY=131072, PB_TIMES=262144, OLD=524288, PB_HIST=1048576, PB_SLOTS=2097152, PB_FAIL=4194304, INTERLEAVE=8388608)
B = type('B', (), BITS)
KIND_CODES = {0: None, 1: 'entry', 2: 'exit', 3: 'action', 4: 'guard', 5: 'pre', 6: 'inv', 7: 'post'}
OUT_CODES = {0: 'none', 1: 'macro-none', 2: 'macro', 3: 'ENonDeterminism', 4: 'EConflict', 5: 'EContract',
             6: 'ECode', 7: 'EProperty', 8: 'EStatechart', 9: 'EKey', 10: 'EAssert', 11: 'EFuel'}


def decode(m):
    """-> (mask, (kind of the implementation's, of the model's call at the first difference), model outcome)"""
    fi, fm = KIND_CODES.get((m >> 24) & 15), KIND_CODES.get((m >> 28) & 15)
    return m & 0xffffff, (None if fi is None and fm is None else (fi, fm)), OUT_CODES.get((m >> 32) & 15)


def bits_names(m):
    return [k for k, v in BITS.items() if m & v]


def impl_outcome(case):
    o = case['out']
    if o[0] == 'none':
        return 'none'
    if o[0] == 'err':
        return o[1][0]
    return 'macro-none' if o[1] is None else 'macro'


def make_event(rng, names=None):
    from sismic.model import Event
    name = rng.choice(names) if names and rng.random() < 0.75 else rng.choice(sx.ALPHABET)
    r = rng.random()
    if r < 0.25:
        return Event(name, delay=rng.choice([-2, 1, 2, 3, 7]))
    if r < 0.4:
        if rng.random() < 0.2:
            return Event(name, v=rng.choice([10 ** 12, -7, 0, 255, 256, 65536, True, None, 'text', '\u00e9\u00e8', '']))
        return Event(name, v=rng.randint(0, 3))
    if r < 0.45:
        return Event(name, delay=rng.choice([0, 2]), v=rng.randint(0, 3))
    return Event(name)


class ScenarioSpec:
    """Knobs of one scenario (set by the property check)."""

    def __init__(self, **kw):
        self.n_ops = (8, 20)
        self.p_queue = 0.35
        self.p_clock = 0.15
        self.p_bits = 0.2
        self.p_fail_bit = 0.0       # probability of making one contract condition fail (C08)
        self.ignore_contract = False
        self.n_rec = 1
        self.bound_callables = 0
        self.bound_charts = 0
        self.props = 0
        self.p_detach = 0.0
        self.p_logical_clock = 0.2   # per scenario: a clock whose every reading during a step returns the next tick (sx.LogicalClock)
        self.p_continue = 0.0        # per scenario: carry on after a ContractError / CodeEvaluationError / ... as a client catching it would
        self.strip_contracts = False
        self.guard_init = 'random'
        self.twin = 0.0             # probability that a second, independent interpreter of the SAME statechart is run interleaved
        self.clock_offset = 0.0     # probability that the scenario's clock starts at a large value (1 700 000 000)
        self.p_long = 0.04          # probability of a long scenario (80-140 operations)
        self.p_burst = 0.03         # per operation: queue a burst of 10-25 events at once
        self.p_mirror = 0.0         # probability that a queued external event copies name and parameters of a pending internal one
        self.__dict__.update(kw)


def count_prop_chart(k, rng):
    """Property statechart that turns final at the k-th meta-event it receives (every k is used)."""
    from sismic.model import BasicState, CompoundState, FinalState, Statechart, Transition
    sc = Statechart('prop%d' % k, preamble='n = 0')
    sc.add_state(CompoundState('proot', initial='watch'), None)
    sc.add_state(BasicState('watch'), 'proot')
    sc.add_state(FinalState('violated'), 'proot')
    names = ['step started', 'step ended', 'event consumed', 'event sent', 'state exited', 'state entered',
             'transition processed', 'm0', 'm1', 'delayed event sent']
    for n in names:
        sc.add_transition(Transition('watch', None, event=n, action='n = n + 1'))
    sc.add_transition(Transition('watch', 'violated', guard='n >= %d' % k))
    return sc


def kind_prop_chart(rng):
    """Property statechart that turns final on a particular kind of meta-event (with a guard on its attributes)."""
    from sismic.model import BasicState, CompoundState, FinalState, Statechart, Transition
    sc = Statechart('propk')
    sc.add_state(CompoundState('proot', initial='watch'), None)
    sc.add_state(BasicState('watch'), 'proot')
    sc.add_state(FinalState('violated'), 'proot')
    choice = rng.choice(['entered', 'exited', 'sent', 'time', 'never'])
    if choice == 'entered':
        sc.add_transition(Transition('watch', 'violated', event='state entered',
                                     guard="event.state == '%s'" % rng.choice(genchart.NAMES[:10])))
    elif choice == 'exited':
        sc.add_transition(Transition('watch', 'violated', event='state exited',
                                     guard="event.state == '%s'" % rng.choice(genchart.NAMES[:10])))
    elif choice == 'sent':
        sc.add_transition(Transition('watch', 'violated', event='event sent',
                                     guard="event.event.name == '%s'" % rng.choice(sx.ALPHABET)))
    elif choice == 'time':
        sc.add_transition(Transition('watch', 'violated', event='step started',
                                     guard='event.time >= %d and time == event.time' % rng.randint(3, 12)))
    else:
        sc.add_transition(Transition('watch', None, event='step ended', guard='time >= 0'))
    return sc


def strip_contracts(sc):
    for s in sc._states.values():
        s.preconditions[:] = []
        s.postconditions[:] = []
        s.invariants[:] = []
    for t in sc._transitions:
        t.preconditions[:] = []
        t.postconditions[:] = []
        t.invariants[:] = []


def run_scenario(rng, chart, spec, cases, stats, chart_key, script=None):
    """Drive one scenario; append captured cases.  With `script` the operations are given (corpus), else random."""
    props = []
    for _ in range(spec.props):
        props.append(count_prop_chart(rng.randint(1, 40), rng) if rng.random() < 0.6 else kind_prop_chart(rng))
    bcharts = [genchart.valid_chart(rng, genchart.Profile(max_states=5)) for _ in range(spec.bound_charts)]
    nl = spec.n_rec + spec.bound_callables + len(bcharts) + len(props)
    order = list(range(nl))
    rng.shuffle(order)
    g0 = rng.getrandbits(12) if spec.guard_init == 'random' else 4095
    holder = {}

    def tick():
        holder['sc'].clock.time += 1
    logical = script is None and rng.random() < spec.p_logical_clock
    carry_on = script is None and rng.random() < spec.p_continue
    sc = sx.Scenario(chart, ignore_contract=spec.ignore_contract, initial_context={'tick': tick, 'res': sx.Resource()}, props=props,
                     n_rec=spec.n_rec, bound_callables=spec.bound_callables, bound_charts=bcharts,
                     listener_order=order, logical_clock=logical)
    if logical:
        stats['logical_clock_scenarios'] = stats.get('logical_clock_scenarios', 0) + 1
    holder['sc'] = sc
    sc.interp._evaluator._context['g'] = g0
    twin = None
    if spec.twin and rng.random() < spec.twin:
        import pickle
        from sismic.clock import SimulatedClock
        from sismic.interpreter import Interpreter
        twin = Interpreter(pickle.loads(pickle.dumps(chart)), clock=SimulatedClock(), initial_context={'tick': lambda: None})
        stats['twins'] = stats.get('twins', 0) + 1
    if spec.clock_offset and rng.random() < spec.clock_offset:
        sc.clock.time = 1700000000
        stats['large_clock_scenarios'] = stats.get('large_clock_scenarios', 0) + 1
    n = rng.randint(80, 140) if rng.random() < spec.p_long else rng.randint(*spec.n_ops)
    used = sorted({t.event for t in chart._transitions if t.event})
    import re
    code = [t.action or '' for t in chart._transitions] + [getattr(st, a, None) or '' for st in chart._states.values()
                                                           for a in ('on_entry', 'on_exit')]
    templates = sorted({(m.group(1), int(m.group(2))) for c in code for m in re.finditer(r"send\('(\w+)', delay=(\d+)\)", c)})
    dead = False
    last_post = [None]
    if script is not None:
        from sismic.model import Event
        for op in script:
            if dead:
                break
            if op[0] == 'clock':
                sc.clock.time += op[1]
                continue
            if op[0] == 'bits':
                sc.interp._evaluator._context['g'] = op[1]
                continue
            if op[0] == 'cbits':
                sc.interp._evaluator._context['c'] = op[1]
                continue
            if op[0] == 'carry_on':
                carry_on = True
                continue
            if op[0] == 'swap':
                if sc.listeners:
                    lid = op[1] % len(sc.listeners)
                    kind, was_on = sc.listeners[lid][0], sc.listeners[lid][3]
                    sc.detach(lid)
                    if was_on and kind in ('callable', 'rec'):
                        sc.add_listener(kind)
                continue
            case = sc.step_case(('queue', Event(op[1], **dict(op[2]))) if op[0] == 'queue' else ('exec',))
            case['chart_key'] = chart_key
            case['scenario'] = sc
            case['prop_charts'] = {id(pi._statechart): pi._statechart for pi in sc.props.values()}
            cases.append(case)
            if case['out'][0] == 'err':
                stats['errors'][case['out'][1][0]] = stats['errors'].get(case['out'][1][0], 0) + 1
                if case['out'][1][0] in ('EContract', 'EProperty', 'ECode', 'EKey', 'EAssert', 'EOther'):
                    if not (carry_on and case['out'][1][0] in ('EContract', 'ECode')):
                        dead = True
        return
    for k in range(n):
        r = rng.random()
        if dead:
            break
        if twin is not None and rng.random() < 0.3:
            # another interpreter of the same statechart lives in the same process, at other times
            from sismic.model import Event
            try:
                twin.clock.time += rng.choice([0, 1, 4, 9])
                if rng.random() < 0.6:
                    twin.queue(Event(rng.choice(used or sx.ALPHABET)))
                twin.execute_once()
            except Exception:  # noqa
                twin = None
        if r < spec.p_clock:
            sc.clock.time += rng.choice([1, 1, 2, 3, 5])
            continue
        if r < spec.p_clock + spec.p_bits:
            sc.interp._evaluator._context['g'] = rng.getrandbits(12)
            if spec.p_fail_bit and rng.random() < spec.p_fail_bit:
                sc.interp._evaluator._context['c'] = 1 << rng.randint(0, 13)
            else:
                sc.interp._evaluator._context['c'] = 0
            continue
        if spec.p_detach and rng.random() < spec.p_detach and sc.listeners:
            lid = rng.randrange(len(sc.listeners))
            kind, was_on = sc.listeners[lid][0], sc.listeners[lid][3]
            sc.detach(lid)
            if was_on and kind in ('callable', 'rec') and rng.random() < 0.6:
                sc.add_listener(kind)        # a target swapped for another one, no step in between
            continue
        if spec.p_burst and rng.random() < spec.p_burst:
            for _ in range(rng.randint(10, 25)):
                sc.interp.queue(make_event(rng, used))      # (not captured one by one: the next captured operation starts from here)
            continue
        if r < spec.p_clock + spec.p_bits + spec.p_queue:
            ev = make_event(rng, used)
            if spec.p_mirror and rng.random() < spec.p_mirror:
                # an external event equal (==: same name and parameters) to an internal one the chart sends itself
                from sismic.model import Event
                iq = sc.interp._internal_queue
                if iq and rng.random() < 0.4:
                    _, ie = rng.choice(iq)
                    ev = Event(ie.name, **dict(ie.data))
                elif templates:
                    nm, d = rng.choice(templates)
                    ev = Event(nm, delay=d)
            op = ('queue', ev)
        else:
            op = ('exec',)
        case = sc.step_case(op)
        # what only execute_once of THIS interpreter may change must be unchanged since the previous captured operation
        if last_post[0] is not None:
            case['discontinuity'] = [f for f in ('time', 'entry', 'idle', 'config', 'memory', 'initialized')
                                     if case['pre'][f] != last_post[0][f]]
        last_post[0] = case['post']
        case['chart_key'] = chart_key
        case['scenario'] = sc
        case['prop_charts'] = {id(pi._statechart): pi._statechart for pi in sc.props.values()}
        cases.append(case)
        if case['out'][0] == 'err':
            stats['errors'][case['out'][1][0]] = stats['errors'].get(case['out'][1][0], 0) + 1
            # after an exception the interpreter may be in a half-updated state; contract and
            # property errors end the scenario (as a user would), the others continue
            if case['out'][1][0] in ('EContract', 'EProperty', 'ECode', 'EKey', 'EAssert', 'EOther'):
                if carry_on and case['out'][1][0] in ('EContract', 'ECode'):
                    stats['steps_after_an_error'] = stats.get('steps_after_an_error', 0) + 1
                else:
                    dead = True


def nontrivial(case):
    if case['out'][0] == 'err':
        return True
    if case['op'][0] == 'queue':
        return True
    m = case['out'][1]
    return m is not None and (len(m[1]) > 0)


def case_fingerprint(case):
    return repr((case['chart_key'], case['op'], case['pre']['config'], case['pre']['iq'], case['pre']['eq'],
                 case['pre']['ctx'], case['pre']['time'], case['out']))


def emit_and_check(prop, charts, cases, shard=60):
    """Write case files, run coqc, return {case index: bit mask} and coq failures."""
    d = gen_dir(prop)
    files = []
    chart_names = {}
    for s in range(0, len(cases), shard):
        chunk = cases[s:s + shard]
        fn = '%s/cases_%d.v' % (d, s // shard)
        with open(fn, 'w') as f:
            f.write(tocoq.CASE_HEADER)
            local = {}
            pnames = {}
            for c in chunk:
                ck = c['chart_key']
                if ck not in local:
                    local[ck] = 'ch%d' % len(local)
                    f.write('Definition %s : chart := %s.\n' % (local[ck], tocoq.c_chart(charts[ck])))
                for pid, psc in c['prop_charts'].items():
                    if pid not in pnames:
                        pnames[pid] = 'pch%d' % len(pnames)
                        f.write('Definition %s : chart := %s.\n' % (pnames[pid], tocoq.c_chart(sx.chart_value(psc))))
            f.write('Definition cases : list icase := [\n')
            f.write(';\n'.join(tocoq.c_icase(c, local[c['chart_key']], pnames) for c in chunk))
            f.write('\n].\nEval vm_compute in (check_icases cases).\n')
            # the decidable forms of the theorems' hypotheses, evaluated on the very charts that were run
            f.write('From SismicProofs Require C02Proofs C03Proofs WFProofs.\n')
            f.write('Definition charts : list chart := [%s].\n' % '; '.join(local.values()))
            f.write('Eval vm_compute in [N.of_nat (length (filter C02Proofs.wf_chart_b charts)); '
                    'N.of_nat (length (filter C03Proofs.tree_okb charts)); N.of_nat (length (filter WFProofs.dict_okb charts)); '
                    'N.of_nat (length charts)].\n')
        files.append(fn)
    res = coq_eval_files(prop, files)
    masks = {}
    fails = []
    for k, (fn, rc, out) in enumerate(res):
        if rc != 0:
            fails.append((fn, out[-2000:]))
            continue
        for i, m in parse_pairs(out):
            masks[k * shard + i] = m
        import re
        h = re.search(r'\[(\d+)%N;\s*(\d+)%N;\s*(\d+)%N;\s*(\d+)%N\]', out)
        if h:
            HYP['wf_chart_b'] += int(h.group(1))
            HYP['tree_okb'] += int(h.group(2))
            HYP['dict_okb'] += int(h.group(3))
            HYP['charts_evaluated'] += int(h.group(4))
    return masks, fails


HYP = dict(wf_chart_b=0, tree_okb=0, dict_okb=0, charts_evaluated=0)


def describe_case(case, charts):
    """JSON-able replay of a case."""
    import sismic.io
    try:
        yaml = sismic.io.export_to_yaml(case['scenario'].sc)
    except Exception as e:  # noqa
        yaml = 'export failed: %r' % (e,)
    return dict(chart_yaml=yaml, operation=case['op'], pre_state=case['pre'], listeners=case['wpre']['listeners'],
                implementation_outcome=case['out'], implementation_post_state=case['post'],
                evaluator_calls=[dict(op=c['op'], kind=c['sig']['kind'], owner=c['sig']['owner'], idx=c['sig']['idx'],
                                      code=c['sig']['code'], event=c['sig']['event'], time=c['sig']['time'],
                                      entry=c['sig']['entry'], idle=c['sig']['idle'], result=c['result'])
                                 for c in case['calls']],
                listener_logs=case['wpost']['logs'], bound_calls=case['wpost']['calls'])


def generate(prop, tier, seed, profile, spec, n_quick, n_thorough, chart_hook=None):
    rng = random.Random((seed * 1000003) ^ hash_str(prop))
    target = n_quick if tier == 'quick' else n_thorough
    charts, cases = {}, []
    stats = dict(errors={}, charts=0)
    k = 0
    t0 = time.time()
    # the corpus first: hand-shaped charts with scripted inputs (shapes random generation reaches too rarely)
    import corpus_interp
    for entry in corpus_interp.entries():
        try:
            chart, script = corpus_interp.build(entry)
        except Exception as e:  # noqa
            stats.setdefault('corpus_errors', []).append('%s: %r' % (entry[0], e))
            continue
        if spec.strip_contracts:
            strip_contracts(chart)
        key = 'c%d' % k
        k += 1
        charts[key] = sx.chart_value(chart)
        run_scenario(rng, chart, spec, cases, stats, key, script=script)
    stats['corpus_cases'] = len(cases)
    # bounded-exhaustive family: every kinded tree shape up to 4 (quick: a sample) / 5 (thorough: all) states
    small = genchart.small_charts(rng, 4, 1, limit=45) if tier == 'quick' else genchart.small_charts(rng, 5, 2)
    for chart in small:
        if chart_hook:
            chart_hook(chart, rng)
        if spec.strip_contracts:
            strip_contracts(chart)
        key = 'c%d' % k
        k += 1
        charts[key] = sx.chart_value(chart)
        run_scenario(rng, chart, spec, cases, stats, key)
    stats['small_family_charts'] = len(small)
    stats['small_family_cases'] = len(cases) - stats['corpus_cases']
    while len(cases) < target:
        chart = genchart.valid_chart(rng, profile)
        if chart_hook:
            chart_hook(chart, rng)
        if spec.strip_contracts:
            strip_contracts(chart)
        key = 'c%d' % k
        k += 1
        charts[key] = sx.chart_value(chart)
        run_scenario(rng, chart, spec, cases, stats, key)
    stats['charts'] = k
    stats['gen_s'] = round(time.time() - t0, 1)
    return charts, cases, stats


def hash_str(s):
    h = 0
    for ch in s:
        h = (h * 131 + ord(ch)) & 0xffffffff
    return h


def distribution(cases):
    d = dict(ops={}, micro_steps=0, transitions_fired=0, multi_transition_steps=0, stabilisation_steps=0,
             history_restores=0, events_consumed=0, empty_steps=0, sent_events=0, evaluator_calls=0,
             contract_evals=0, guard_evals=0)
    for c in cases:
        d['ops'][c['op'][0]] = d['ops'].get(c['op'][0], 0) + 1
        d['evaluator_calls'] += len(c['calls'])
        for cl in c['calls']:
            k = cl['sig']['kind']
            if k in ('pre', 'post', 'inv'):
                d['contract_evals'] += 1
            if k == 'guard':
                d['guard_evals'] += 1
        if c['out'][0] == 'macro' and c['out'][1] is not None:
            steps = c['out'][1][1]
            d['micro_steps'] += len(steps)
            nt = sum(1 for s in steps if s['trans'] is not None)
            d['transitions_fired'] += nt
            d['multi_transition_steps'] += nt >= 2
            d['stabilisation_steps'] += sum(1 for s in steps if s['trans'] is None and (s['entered'] or s['exited']))
            try:
                sts = c['scenario'].sc._states
                from sismic.model import HistoryStateMixin
                d['history_restores'] += sum(1 for s in steps if s['trans'] is None and len(s['exited']) == 1
                                             and isinstance(sts.get(s['exited'][0]), HistoryStateMixin))
            except Exception:  # noqa
                pass
            d['events_consumed'] += any(s['event'] is not None for s in steps)
            d['empty_steps'] += (nt == 0 and any(s['event'] is not None for s in steps))
            d['sent_events'] += sum(len(s['sent']) for s in steps)
    return d
