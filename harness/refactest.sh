#!/bin/bash
# usage: refactest.sh <name> "<diff files>" <PROP>...   applies behaviour-preserving refactorings to a scratch copy and runs
# the checks: every VIOLATION line is a FALSE ALARM.
name=$1; diffs=$2; shift 2
d=$(mktemp -d /tmp/refac_run.XXXXXX)
git -C /repo worktree add -q --detach $d/repo HEAD || exit 2
for f in $diffs; do git -C $d/repo apply $f || { echo "$name: $f DOES NOT APPLY"; }; done
(cd $d/repo; PYTHONPATH=$d/repo /venv/bin/python -m pytest -q -p no:cacheprovider --timeout=900 tests docs 2>&1 | grep -v conda | tail -1)
for p in "$@"; do echo $p; done | xargs -P 4 -I{} bash -c "n=\$(VERIF_GEN_SUFFIX=_rf${name} VERIF_EVIDENCE_DIR=$d/evidence VERIF_REPO=$d/repo /verif/check {} 2>/dev/null | grep -c VIOLATION); echo \"$name {} false_alarm_lines=\$n\""
git -C /repo worktree remove --force $d/repo; rm -rf $d /verif/coq/gen/*_rf${name}*
