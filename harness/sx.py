"""Driving the real sismic interpreter and capturing one-operation cases.

Nothing in /repo is instrumented: a PythonEvaluator subclass passed as evaluator_klass records every
evaluator call together with what the code can observe (probed through the very closures the
evaluator exposes), listeners are attached through the public API, private fields are read to
capture the state before and after each operation.
"""
import copy

from sismic.code import PythonEvaluator
from sismic.exceptions import (CodeEvaluationError, ConflictingTransitionsError, InvariantError,
                               NonDeterminismError, PostconditionError, PreconditionError,
                               PropertyStatechartError, StatechartError)
from sismic.interpreter import Interpreter
from sismic.model import (CompoundState, DeepHistoryState, Event, FinalState, InternalEvent, MetaEvent,
                          OrthogonalState, ShallowHistoryState, BasicState, Transition)
from sismic.clock import Clock, SimulatedClock
from common import Timeout, time_limit

CALL_LIMIT_S = 20     # one call of execute_once / queue (a macro step of a generated chart takes milliseconds)

ALPHABET = ['e0', 'e1', 'e2']


class Recorder:
    """Global log shared by all recording evaluators of one scenario."""

    def __init__(self):
        self.calls = []      # dicts, in global order
        self.seq = []        # global order of evaluator calls and of meta-events received by recorders:
                             # ('call', interp id) | ('meta', recorder id, meta value)
        self.ids = {}        # id(interpreter) -> small int
        self.leaks = []      # events RETURNED by a probe block that sends nothing (events of another block surfacing there)

    def interp_id(self, interp):
        return self.ids.setdefault(id(interp), len(self.ids))


def owner_key(interp, obj):
    if isinstance(obj, Transition):
        for i, t in enumerate(interp._statechart._transitions):
            if t is obj:
                return ('T', i)
        return ('T', -1)
    return ('S', obj.name)


def ctx_value(ctx):
    out = {}
    for k, v in ctx.items():
        if isinstance(v, bool):
            out[k] = ('b', v)
        elif isinstance(v, int):
            out[k] = ('i', v)
        elif v is None:
            out[k] = ('n',)
        elif isinstance(v, str):
            out[k] = ('s', v)
        elif callable(v):
            continue
        elif isinstance(v, (list, tuple, set, frozenset, dict)):
            flat = all(isinstance(x, (int, str, bool, type(None))) for x in (list(v.values()) + list(v.keys()) if isinstance(v, dict) else v))
            if not flat:
                continue   # NESTED mutable containers are outside the model: the snapshot behind __old__ copies one level only
            out[k] = ('s', repr(sorted(v, key=repr)) if isinstance(v, (set, frozenset)) else repr(v))
        elif hasattr(v, '__dict__') and not isinstance(v, type):
            attrs = vars(v)
            if all(isinstance(x, (int, str, bool, type(None))) for x in attrs.values()):
                out[k] = ('s', 'object:' + repr(sorted(attrs.items())))      # (copy.copy of an object copies its attributes)
        else:
            out[k] = ('s', repr(v))
    return tuple(sorted(out.items()))


def ev_value(e):
    """Event -> (kind, name, data) with nested events flattened like Interp.flat_event."""
    if e is None:
        return None
    kind = 'I' if isinstance(e, InternalEvent) else ('M' if isinstance(e, MetaEvent) else 'E')
    data = []
    for k, v in e.data.items():
        if isinstance(v, Event):
            data.append((k + '.name', ('s', v.name)))
            for k2, v2 in v.data.items():
                data.append((k + '.' + k2, val(v2)))
        else:
            data.append((k, val(v)))
    return (kind, e.name, tuple(data))


def val(v):
    if isinstance(v, bool):
        return ('b', v)
    if isinstance(v, int):
        return ('i', v)
    if v is None:
        return ('n',)
    if isinstance(v, str):
        return ('s', v)
    return ('s', repr(v))


def make_recording_evaluator(rec):
    class RecEval(PythonEvaluator):
        def __init__(self, interpreter=None, *, initial_context=None):
            super().__init__(interpreter, initial_context=initial_context)
            self._cur = None
            self._idx = 0
            self._probing = False

        # -- probes: observe what code would observe, through the exposed closures themselves
        def _probe_common(self, mode, additional_context):
            seen = {}

            def probe(active, time):
                names = list(self._interpreter._statechart._states.keys())
                seen['active'] = tuple(sorted(n for n in names if active(n)))
                seen['time'] = time
                return True
            ac = dict(additional_context or {})
            ac['__probe__'] = probe
            self._probing = True
            try:
                if mode == 'eval':
                    PythonEvaluator._evaluate_code(self, '__probe__(active, time)', additional_context=ac)
                else:
                    got = PythonEvaluator._execute_code(self, '__probe__(active, time)', additional_context=ac)
                    if got:
                        # the probe is an ordinary code block that sends nothing: whatever it "sent" was sent by another block
                        rec.leaks.append(tuple(ev_value(e) for e in got))
            finally:
                self._probing = False
            return seen

        @staticmethod
        def _threshold(f, time):
            """base b such that f(d) <=> time - d >= b, found by probing the closure: f must hold at -70 (time + 70 >= b),
            hold on an initial segment and fail from then on; the end of the segment is found by doubling and bisection, so
            that any distance between the time and the base is measured (not only the small ones).
            -> the base | ('none',) f(-70) is false | ('shape',) f is not an initial segment | ('all',) no end below 10**13"""
            if f is None:
                return None
            try:
                if not f(-70):
                    return ('none',)
                d, step = -70, 1
                while f(d + step):
                    d += step
                    step *= 2
                    if d > 10 ** 13:
                        return ('all',)
                lo, hi = d, d + step
                while hi - lo > 1:
                    mid = (lo + hi) // 2
                    if f(mid):
                        lo = mid
                    else:
                        hi = mid
                if not (f(lo - 5) and f(lo - 1) and f(lo)) or f(lo + 1) or f(lo + 2) or f(lo + 64) or f(lo + 10 ** 6):
                    return ('shape',)
                return time - lo
            except KeyError:
                return None

        def _sig(self, kind, obj, idx, code, ac, mode):
            seen = self._probe_common(mode, ac)
            ac = ac or {}
            ev = ac.get('event')
            t = seen.get('time')
            entry = self._threshold(ac.get('after'), t) if kind in ('guard', 'inv', 'post') else None
            idle = self._threshold(ac.get('idle'), t) if kind in ('guard', 'inv', 'post') else None
            sent = None
            if 'sent' in ac:
                sent = tuple(n for n in ALPHABET + ['m0', 'm1'] if ac['sent'](n))
            old = ac.get('__old__')
            return dict(interp=rec.interp_id(self._interpreter), kind=kind,
                        owner=owner_key(self._interpreter, obj), idx=idx, code=code, event=ev_value(ev),
                        time=t, config=seen.get('active'), entry=entry, idle=idle, sent=sent,
                        old=None if old is None else ctx_value(dict(old)))

        # -- executed code
        def _exec(self, kind, obj, code, event, super_call):
            ac = {'event': event} if kind == 'action' else None
            # (a slot without code executes nothing: it is probed through an EVALUATION, so that the harness does not run a code block
            # where the implementation runs none - anything the evaluator remembers "since the last executed block" stays as it is)
            sig = self._sig(kind, obj, 0, code if code else None, ac if code else ac, 'exec' if code else 'eval')
            before = ctx_value(self._context)
            entry = dict(op='exec', sig=sig, ctx=before, result=None)
            rec.calls.append(entry)
            rec.seq.append(('call', sig['interp']))
            try:
                sent = super_call()
            except CodeEvaluationError:
                entry['result'] = None
                entry['raised'] = True
                raise
            entry['result'] = (ctx_value(self._context), tuple(ev_value(e) for e in sent))
            return sent

        def execute_on_entry(self, state):
            return self._exec('entry', state, getattr(state, 'on_entry', None), None,
                              lambda: PythonEvaluator.execute_on_entry(self, state))

        def execute_on_exit(self, state):
            return self._exec('exit', state, getattr(state, 'on_exit', None), None,
                              lambda: PythonEvaluator.execute_on_exit(self, state))

        def execute_action(self, transition, event=None):
            return self._exec('action', transition, transition.action, event,
                              lambda: PythonEvaluator.execute_action(self, transition, event))

        # -- evaluated code
        def _evaluate_code(self, code, *, additional_context=None):
            if self._probing or self._cur is None or code is None:
                return super()._evaluate_code(code, additional_context=additional_context)
            kind, obj = self._cur
            idx = self._idx
            self._idx += 1
            sig = self._sig(kind, obj, idx, code, additional_context, 'eval')
            entry = dict(op='eval', sig=sig, ctx=ctx_value(self._context), result=None)
            rec.calls.append(entry)
            rec.seq.append(('call', sig['interp']))
            try:
                r = super()._evaluate_code(code, additional_context=additional_context)
            except CodeEvaluationError:
                entry['raised'] = True
                raise
            entry['result'] = bool(r)
            return r

        def evaluate_guard(self, transition, event=None):
            self._cur, self._idx = ('guard', transition), 0
            try:
                return super().evaluate_guard(transition, event)
            finally:
                self._cur = None

        def evaluate_preconditions(self, obj, event=None):
            self._cur, self._idx = ('pre', obj), 0
            return super().evaluate_preconditions(obj, event)

        def evaluate_invariants(self, obj, event=None):
            self._cur, self._idx = ('inv', obj), 0
            return super().evaluate_invariants(obj, event)

        def evaluate_postconditions(self, obj, event=None):
            self._cur, self._idx = ('post', obj), 0
            return super().evaluate_postconditions(obj, event)

    return RecEval


# A recording evaluator that can be pickled / deep-copied together with its interpreter (C18): a module-level class
# whose recorder is looked up through a module-level slot at call time.
class GlobalRec:
    current = Recorder()


class _RecProxy:
    def __getattr__(self, name):
        return getattr(GlobalRec.current, name)


RecEvalG = make_recording_evaluator(_RecProxy())
RecEvalG.__name__ = RecEvalG.__qualname__ = 'RecEvalG'
RecEvalG.__module__ = __name__


# ------------------------------------------------------------------------------------------------
# state capture
# ------------------------------------------------------------------------------------------------
def _public_config(interp):
    """the configuration as the public API shows it"""
    try:
        return tuple(interp.configuration)
    except Exception as e:  # noqa
        return ('<raised %s>' % type(e).__name__,)


def snap_interp(interp, rec):
    ev = interp._evaluator
    old = []
    mem = getattr(ev, '_memory', {})
    for k, v in mem.items():
        if isinstance(v, tuple):
            obj, frozen = v
        else:   # robust against other representations of the store
            obj, frozen = None, v
        if obj is None:
            continue
        old.append((owner_key(interp, obj), ctx_value(dict(frozen))))
    return dict(
        id=rec.interp_id(interp),
        initialized=bool(interp._initialized),
        time=interp._time,
        memory=tuple(sorted((k, tuple(sorted(v))) for k, v in interp._memory.items() if v is not None)),
        config=tuple(sorted(interp._configuration)),
        entry=tuple(sorted(interp._entry_time.items())),
        idle=tuple(sorted(interp._idle_time.items())),
        sent=tuple(ev_value(e) for e in interp._sent_events),
        iq=tuple((t, ev_value(e)) for t, e in interp._internal_queue),
        eq=tuple((t, ev_value(e)) for t, e in interp._external_queue),
        ignore=bool(interp._ignore_contract),
        ctx=ctx_value(getattr(ev, '_context', {})),
        old=tuple(sorted(old)),
        public_config=_public_config(interp),
    )


def meta_value(m):
    """MetaEvent received by a listener -> model meta constructor data."""
    n = m.name
    d = m.data
    if n == 'step started' and set(d) == {'time'}:
        return ('StepStarted', d['time'])
    if n == 'step ended' and not d:
        return ('StepEnded',)
    if n == 'event consumed' and set(d) == {'event'}:
        return ('Consumed', ev_value(d['event']))
    if n == 'event sent' and set(d) == {'event'}:
        return ('Sent', ev_value(d['event']))
    if n == 'delayed event sent' and set(d) == {'event'}:
        return ('DelayedSent', ev_value(d['event']))
    if n == 'state exited' and set(d) == {'state'}:
        return ('Exited', d['state'])
    if n == 'state entered' and set(d) == {'state'}:
        return ('Entered', d['state'])
    if n == 'transition processed' and set(d) == {'source', 'target', 'event'}:
        return ('Processed', d['source'], d['target'], ev_value(d['event']))
    # a listener reads the parameters of a meta-event as attributes (event.w, event.time, ...): what it reads must be what was given
    for k, v in d.items():
        try:
            seen = getattr(m, k)
        except Exception as e:  # noqa
            seen = ('unreadable', repr(e))
        if seen is not v and seen != v:
            return ('User', n, tuple((kk, val(vv)) for kk, vv in d.items()) + (('attribute ' + k + ' reads', val(seen)),))
    return ('User', n, tuple((k, val(v)) for k, v in d.items()))


def chart_value(sc):
    """Statechart -> plain data (dict orders preserved)."""
    def kind(s):
        # by the exact class (a class hierarchy rearranged inside the library must not change what the harness reads)
        exact = {'ShallowHistoryState': 'KShallow', 'DeepHistoryState': 'KDeep', 'FinalState': 'KFinal',
                 'OrthogonalState': 'KOrthogonal', 'CompoundState': 'KCompound', 'BasicState': 'KBasic'}.get(type(s).__name__)
        if exact:
            return exact
        if isinstance(s, DeepHistoryState):
            return 'KDeep'
        if isinstance(s, ShallowHistoryState):
            return 'KShallow'
        if isinstance(s, FinalState):
            return 'KFinal'
        if isinstance(s, OrthogonalState):
            return 'KOrthogonal'
        if isinstance(s, CompoundState):
            return 'KCompound'
        return 'KBasic'
    states = []
    for n, s in sc._states.items():
        states.append((n, dict(name=s.name, kind=kind(s), initial=getattr(s, 'initial', None),
                               memory=getattr(s, 'memory', None), on_entry=getattr(s, 'on_entry', None),
                               on_exit=getattr(s, 'on_exit', None), pre=list(s.preconditions),
                               post=list(s.postconditions), inv=list(s.invariants))))
    trans = []
    for t in sc._transitions:
        trans.append(dict(source=t.source, target=t.target, event=t.event, guard=t.guard, action=t.action,
                          priority=t.priority, pre=list(t.preconditions), post=list(t.postconditions),
                          inv=list(t.invariants)))
    return dict(name=sc.name, description=sc.description, preamble=sc.preamble, states=states,
                parent=list(sc._parent.items()), children=[(k, list(v)) for k, v in sc._children.items()],
                transitions=trans)


def make_recording_interpreter(holder):
    """Interpreter subclass that records the result of _select_transitions (fail-soft: if the
    implementation no longer has such a method nothing is recorded and nothing breaks)."""
    class RecInterp(Interpreter):
        pass
    if hasattr(Interpreter, '_select_transitions'):
        def _select_transitions(self, *a, **kw):
            r = Interpreter._select_transitions(self, *a, **kw)
            try:
                holder['selected'] = [owner_key(self, t)[1] for t in r]
            except Exception:  # noqa
                holder.pop('selected', None)
            return r
        RecInterp._select_transitions = _select_transitions
    return RecInterp


class Resource:
    """A context value as client code puts there: it can be copied one level deep (copy.copy) but not deep-copied or
    pickled (it holds a lock).  The library documents that __old__ is a shallow snapshot."""

    def __init__(self):
        import threading
        self.lock = threading.Lock()
        self.n = 0


class QueueLike:
    """A bound target that is a callable object with, besides __call__, a method named `queue` of its own (a mock, a
    recorder): what is bound is the callable, so the events must arrive through __call__."""

    def __init__(self, log):
        self.log = log
        self.queued = []

    def __call__(self, e):
        self.log.append(ev_value(e))

    def queue(self, *a, **k):
        self.queued.append((a, k))


class Mailbox:
    """A bound target given as the bound method of an object that only the binding keeps alive."""

    def __init__(self, log):
        self.log = log

    def deliver(self, e):
        self.log.append(ev_value(e))


class EqCallable:
    """A bound target.  All instances compare equal (as two bound methods of one object do), each has its own log: the
    interpreter must tell its listeners apart by identity, not by the equality of what they wrap."""

    def __init__(self, log):
        self.log = log

    def __call__(self, e):
        self.log.append(ev_value(e))

    def __eq__(self, other):
        return isinstance(other, EqCallable)

    def __hash__(self):
        return 7


class LogicalClock(Clock):
    """A clock on which every reading made while `armed` (= during one call of the interpreter) returns the next tick:
    a second reading of the clock inside one step is observable, and lasting.  Unarmed readings (the harness's own)
    return the current value and change nothing."""

    def __init__(self):
        self._t = 0
        self.armed = False
        self.reads = 0

    @property
    def time(self):
        if not self.armed:
            return self._t
        self.reads += 1
        v = self._t
        self._t += 1
        return v

    @time.setter
    def time(self, v):
        if v < self._t - (1 if self.armed else 0):
            raise ValueError('Time must be monotonic')
        self._t = max(v, self._t) if self.armed else v


class Scenario:
    """One monitored interpreter with its listeners, driven operation by operation."""

    def __init__(self, sc, ignore_contract=False, initial_context=None, props=(), n_rec=1,
                 bound_callables=0, bound_charts=(), listener_order=None, fuel=40, plain=False, picklable=False,
                 logical_clock=False):
        """plain=True: the stock Interpreter and PythonEvaluator, no recording and no probing (the harness then reads
        nothing but states and outcomes, so it cannot disturb anything the implementation may remember between calls)."""
        self.rec = Recorder()
        if picklable:
            GlobalRec.current = self.rec
        self.klass = PythonEvaluator if plain else (RecEvalG if picklable else make_recording_evaluator(self.rec))
        self.sc = sc
        self.clock = LogicalClock() if logical_clock else SimulatedClock()
        self.sel_holder = {}
        self.interp = (Interpreter if (plain or picklable) else make_recording_interpreter(self.sel_holder))(
            sc, evaluator_klass=self.klass, initial_context=initial_context,
            clock=self.clock, ignore_contract=ignore_contract)
        self.rec.interp_id(self.interp)   # id 0
        self.fuel = fuel
        self.listeners = []      # (kind, id, python listener object)
        self.logs = {}           # recorder id -> list
        self.calls = {}          # callable id -> list
        self.bound = {}          # id -> Interpreter
        self.props = {}          # id -> Interpreter
        specs = []
        for i in range(n_rec):
            specs.append(('rec', None))
        for i in range(bound_callables):
            specs.append(('callable', None))
        for bsc in bound_charts:
            specs.append(('interp', bsc))
        for psc in props:
            specs.append(('prop', psc))
        if listener_order is not None:
            specs = [specs[i] for i in listener_order]
        for k, arg in specs:
            self.add_listener(k, arg)

    @classmethod
    def from_interpreter(cls, interp, fuel=40):
        """Wrap an existing interpreter (e.g. one restored from a pickle) whose evaluator is RecEvalG or stock."""
        self = cls.__new__(cls)
        self.rec = Recorder()
        self.rec.interp_id(interp)
        self.klass = type(interp._evaluator)
        self.sc = interp._statechart
        self.clock = interp.clock
        self.sel_holder = {}
        self.interp = interp
        self.fuel = fuel
        self.listeners, self.logs, self.calls, self.bound, self.props = [], {}, {}, {}, {}
        return self

    def activate(self):
        """make this scenario's recorder the one RecEvalG writes to"""
        GlobalRec.current = self.rec
        return self

    def add_listener(self, kind, arg=None):
        lid = len(self.listeners)
        if kind == 'rec':
            self.logs[lid] = []
            def mk(l, lid, rec, scn):
                def fn(m):
                    mv = meta_value(m)
                    l.append(mv)
                    rec.seq.append(('meta', lid, mv, scn.interp.time))    # ... and what the interpreter's time shows meanwhile
                return fn
            fn = mk(self.logs[lid], lid, self.rec, self)
            self.interp.attach(fn)
            obj = fn
        elif kind == 'callable':
            self.calls[lid] = []
            # targets of several kinds: a callable object; a plain function; the bound method of an object that nothing
            # else refers to (a client writes `interp.bind(Mailbox(log).deliver)`)
            self._ncall = getattr(self, '_ncall', 0) + 1
            k3 = ('eq', 'eq', 'queue', 'fn', 'mail', 'eq')[(self._ncall - 1) % 6]     # (two equal callables first)
            if k3 == 'eq':
                fn = EqCallable(self.calls[lid])
            elif k3 == 'fn':
                fn = (lambda log: (lambda e: log.append(ev_value(e))))(self.calls[lid])
            elif k3 == 'mail':
                fn = Mailbox(self.calls[lid]).deliver
            else:
                fn = QueueLike(self.calls[lid])      # a callable that also happens to have a method called `queue`
            obj = self.interp.bind(fn)
            del fn
        elif kind == 'interp':
            bi = Interpreter(arg, evaluator_klass=self.klass, clock=SimulatedClock())
            self.rec.interp_id(bi)
            self.bound[lid] = bi
            obj = self.interp.bind(bi)
        else:
            klass = self.klass
            if lid % 2 == 1:
                # the older way of binding (still documented, deprecated): a ready-made interpreter is handed over
                import warnings
                with warnings.catch_warnings():
                    warnings.simplefilter('ignore')
                    obj = self.interp.bind_property_statechart(Interpreter(arg, evaluator_klass=klass))
            else:
                obj = self.interp.bind_property_statechart(
                    arg, interpreter_klass=lambda sc, clock=None: Interpreter(sc, evaluator_klass=klass, clock=clock))
            pi = obj._interpreter
            self.rec.interp_id(pi)
            self.props[lid] = pi
        self.listeners.append([kind, lid, obj, True])
        return lid

    def detach(self, lid):
        ent = self.listeners[lid]
        if ent[3]:
            self.interp.detach(ent[2])
            ent[3] = False

    def world(self):
        return dict(
            listeners=[(k, lid) for k, lid, _, on in self.listeners if on],
            logs={lid: tuple(l) for lid, l in self.logs.items()},
            calls={lid: tuple(l) for lid, l in self.calls.items()},
            bound={lid: snap_interp(bi, self.rec) for lid, bi in self.bound.items()},
            props={lid: (id(pi._statechart), snap_interp(pi, self.rec)) for lid, pi in self.props.items()},
            fuel=self.fuel)

    def classify_error(self, e, ncalls_before):
        if isinstance(e, NonDeterminismError):
            return ('ENonDeterminism',)
        if isinstance(e, ConflictingTransitionsError):
            return ('EConflict',)
        if isinstance(e, (PreconditionError, PostconditionError, InvariantError)):
            kind = 'pre' if isinstance(e, PreconditionError) else ('post' if isinstance(e, PostconditionError) else 'inv')
            # which interpreter?  the owner object tells (property charts raise their own errors too)
            obj = e.obj
            lst = {'pre': obj.preconditions, 'post': obj.postconditions, 'inv': obj.invariants}[kind]
            interp = self.interp
            for pi in self.props.values():
                if (isinstance(obj, Transition) and any(t is obj for t in pi._statechart._transitions)) or \
                        (not isinstance(obj, Transition) and pi._statechart._states.get(obj.name) is obj):
                    interp = pi
            idx = lst.index(e.condition) if e.condition in lst else -1
            return ('EContract', kind, owner_key(interp, obj), idx)
        if isinstance(e, CodeEvaluationError):
            last = None
            for c in self.rec.calls[ncalls_before:]:
                if c.get('raised'):
                    last = c
            if last is None:
                return ('EOther', repr(e))
            return ('ECode', last['sig']['kind'], last['sig']['owner'], last['sig']['idx'])
        if isinstance(e, PropertyStatechartError):
            for lid, pi in self.props.items():
                if pi is e.property_statechart:
                    return ('EProperty', lid)
            return ('EOther', repr(e))
        if isinstance(e, StatechartError):
            return ('EStatechart',)
        if isinstance(e, KeyError):
            return ('EKey',)
        if isinstance(e, AssertionError):
            return ('EAssert',)
        return ('EOther', repr(e))

    def step_case(self, op):
        """Perform one operation on the real interpreter, return the captured case."""
        pre = snap_interp(self.interp, self.rec)
        wpre = self.world()
        n0 = len(self.rec.calls)
        q0 = len(self.rec.seq)
        for l in self.logs.values():
            del l[:]
        for l in self.calls.values():
            del l[:]
        wpre['logs'] = {lid: () for lid in self.logs}
        wpre['calls'] = {lid: () for lid in self.calls}
        out = None
        self.sel_holder.pop('selected', None)
        try:
            if op[0] == 'exec':
                now = self.clock.time
                if isinstance(self.clock, LogicalClock):
                    self.clock.armed, self.clock.reads = True, 0
                try:
                    with time_limit(CALL_LIMIT_S):
                        r = self.interp.execute_once()
                finally:
                    if isinstance(self.clock, LogicalClock):
                        self.clock.armed = False
                out = ('macro', macro_value(self.interp, r))
                op = ('exec', now)
            elif op[0] == 'queue':
                with time_limit(CALL_LIMIT_S):
                    self.interp.queue(op[1])
                out = ('none',)
                op = ('queue', ev_value(op[1]))
        except Timeout:
            if op[0] == 'exec':
                op = ('exec', now)
            out = ('err', ('EOther', 'the call did not return within %d s' % CALL_LIMIT_S))
        except Exception as e:  # noqa
            if op[0] == 'exec':
                op = ('exec', now)
            out = ('err', self.classify_error(e, n0))
        post = snap_interp(self.interp, self.rec)
        wpost = self.world()
        calls = self.rec.calls[n0:]
        leaks, self.rec.leaks = list(self.rec.leaks), []
        # interleaving of the monitored interpreter's evaluator calls with the meta-events, as seen by the FIRST
        # listener when that is a recorder (it then receives every meta-event, also the one on which a later listener raises)
        seq = None
        active = [(k, lid) for k, lid, _, on in self.listeners if on]
        if active and active[0][0] == 'rec' and not isinstance(self.klass, type(None)) and self.klass is not PythonEvaluator:
            first = active[0][1]
            seq = [None if x[0] == 'call' else x[2] for x in self.rec.seq[q0:]
                   if (x[0] == 'call' and x[1] == 0) or (x[0] == 'meta' and x[1] == first)]
        return dict(op=op, pre=pre, wpre=wpre, out=out, post=post, wpost=wpost, calls=calls,
                    selected=self.sel_holder.get('selected'), seq=seq, leaks=leaks,
                    listener_times=sorted({x[3] for x in self.rec.seq[q0:] if x[0] == 'meta'}))


def macro_value(interp, m):
    if m is None:
        return None
    steps = []
    for s in m.steps:
        ti = None
        if s.transition is not None:
            ti = owner_key(interp, s.transition)[1]
        steps.append(dict(event=ev_value(s.event), trans=ti, entered=tuple(s.entered_states),
                          exited=tuple(s.exited_states), sent=tuple(ev_value(e) for e in s.sent_events)))
    return (m.time, steps)
