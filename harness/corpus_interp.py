"""Hand-shaped statecharts with scripted inputs, run first by every interpreter-family check (DESIGN.md section 4.2, "corpus").

Each entry: (name, YAML text, script).  Script operations: ('clock', d) ('bits', g) ('cbits', c) ('queue', name, {params}) ('exec',)
('carry_on',): the scenario goes on after a ContractError / CodeEvaluationError; ('swap', i): the i-th listener (modulo) is detached and, when it
is a callable or a recorder, another one of its kind is bound.
The shapes are the ones that random generation reaches too rarely: conflicts in nested orthogonal states with three
simultaneous transitions, an external event equal (==) to a pending internal one, notify before send in one block, contract
conditions reading the configuration in the middle of a micro step, several transitions of one state not declared
contiguously, deep history over orthogonal content.  Preamble and context variables follow genchart (x, y, g, c)."""

PRE = '  preamble: "x = 0\\ny = 0\\ng = 4095\\nc = 0"\n'

NESTED_CONFLICT = '''statechart:
  name: nested conflict
''' + PRE + '''  root state:
    name: root
    initial: P
    states:
      - name: out
        transitions:
          - target: a2
            event: deep
          - target: c2
            event: deep2
      - name: P
        transitions:
          - target: out
            event: quit
        parallel states:
          - name: R1
            initial: Q
            states:
              - name: X
                on entry: x = x + 1
                transitions:
                  - target: a2
                    event: back
              - name: Q
                on exit: y = y + 1
                parallel states:
                  - name: A
                    initial: a1
                    states:
                      - name: a1
                        on exit: x = x + 1
                        transitions:
                          - target: a2
                            event: e
                            action: y = y + x
                      - name: a2
                        transitions:
                          - target: a1
                            event: e
                  - name: B
                    initial: b1
                    states:
                      - name: b1
                        on exit: x = x + 1
                        transitions:
                          - target: %(b1_target)s
                            event: e
                            guard: (g >> 0) & 1 == 1
                            action: send('f')
                      - name: b2
                        transitions:
                          - target: b1
                            event: e
          - name: R2
            initial: C
            states:
              - name: C
                initial: D
                states:
                  - name: D
                    initial: E
                    states:
                      - name: E
                        initial: c1
                        states:
                          - name: c1
                            on exit: y = y + 1
                            transitions:
                              - target: c2
                                event: e
                              - target: out
                                event: leave
                          - name: c2
                            transitions:
                              - target: c1
                                event: e
'''

EQUAL_EVENTS = '''statechart:
  name: ticker
''' + PRE + '''  root state:
    name: root
    initial: idle
    states:
      - name: idle
        transitions:
          - event: go
            target: idle
            action: send('tick', delay=5)
          - event: tick
            target: idle
            action: x = x + 1
'''

NOTIFY_SEND = '''statechart:
  name: notify then send
''' + PRE + '''  root state:
    name: root
    initial: a
    states:
      - name: a
        on exit: "notify('m0', w=y)\\nsend('e1')\\nnotify('m1', w=x)"
        transitions:
          - target: b
            event: e0
            action: "notify('m1', w=1)\\nsend('e2', v=x)\\nsend('e1', delay=2)\\nnotify('m0', w=2)"
      - name: b
        on entry: "send('e0')\\nnotify('m0', w=y)"
        transitions:
          - target: a
            event: e1
'''

MIDSTEP_CONFIG = '''statechart:
  name: configuration read in the middle of a micro step
''' + PRE + '''  root state:
    name: root
    initial: session
    states:
      - name: idle
        transitions:
          - target: editing
            event: e1
      - name: session
        initial: editing
        on exit: y = y + (1 if active('session') else 0)
        contract:
          - after: not active('session') or active('session')
        states:
          - name: editing
            on exit: x = x + 1
            contract:
              - after: not active('editing')
              - always: active('session')
            transitions:
              - target: idle
                event: e0
                action: y = y + (10 if active('session') else 0)
                contract:
                  - after: not active('editing') and not active('session')
              - target: viewing
                event: e2
                guard: active('editing') and not active('viewing')
          - name: viewing
            on entry: x = x + (100 if active('editing') else 0)
            contract:
              - before: not active('editing')
'''

DEEP_HISTORY_ORTH = '''statechart:
  name: deep history over orthogonal content
''' + PRE + '''  root state:
    name: root
    initial: work
    states:
      - name: pause
        transitions:
          - target: hd
            event: e1
          - target: hs
            event: e2
      - name: work
        initial: par
        transitions:
          - target: pause
            event: e0
        states:
          - name: hd
            type: deep history
            memory: par
          - name: hs
            type: shallow history
            memory: par
          - name: par
            parallel states:
              - name: zeta
                initial: z1
                states:
                  - name: z1
                    on entry: x = x + 1
                    transitions:
                      - target: alpha2
                        event: f
                  - name: alpha2
                    on entry: y = y + 1
              - name: beta
                initial: b1
                states:
                  - name: b1
                    transitions:
                      - target: a_deep
                        event: f
                  - name: a_deep
                    initial: aa
                    states:
                      - name: aa
                        on entry: x = x + 2
              - name: mid
                initial: m1
                states:
                  - name: m1
'''

SHARED_TEXT = '''statechart:
  name: the same code text used as executed code, as a guard and as a contract condition
  preamble: "x = 0\\ny = 0\\ng = 4095\\nc = 0\\ndef ok():\\n    return True\\nclass Box:\\n    pass\\nb = Box()\\nb.v = 0"
  root state:
    name: root
    initial: booting
    states:
      - name: booting
        on entry: ok()
        transitions:
          - target: running
            event: e0
            action: "b.v = b.v + 5"
            contract:
              - after: b.v == __old__.b.v + 5
      - name: running
        on exit: ok()
        contract:
          - before: ok()
          - always: ok()
          - always: b.v >= __old__.b.v
        transitions:
          - target: booting
            event: e1
            guard: ok()
            action: ok()
          - event: e2
            action: b.v = b.v + 1
'''

SINGLE_CHARS = '''statechart:
  name: state names that are single characters of other state names
''' + PRE + '''  root state:
    name: root
    initial: running
    states:
      - name: running
        parallel states:
          - name: x
            initial: x0
            transitions:
              - event: reset
                action: x = x + 100
            states:
              - name: x0
          - name: aux
            initial: aux1
            states:
              - name: aux1
                transitions:
                  - target: aux0
                    event: reset
              - name: aux0
                transitions:
                  - target: aux1
                    event: reset
          - name: u
            initial: '1'
            transitions:
              - event: reset
                guard: (g >> 0) & 1 == 1
                action: y = y + 1
            states:
              - name: '1'
              - name: a
                transitions:
                  - target: '1'
                    event: reset
'''

NONCONTIGUOUS = '''statechart:
  name: transitions of one state not declared contiguously (built through the API)
''' + PRE + '''  root state:
    name: root
    initial: P
    states:
      - name: P
        parallel states:
          - name: A
            initial: a1
            states:
              - name: a1
              - name: a2
              - name: a3
          - name: B
            initial: b1
            states:
              - name: b1
              - name: b2
'''

NUMERIC_REGIONS = '''statechart:
  name: region names with numbers of different lengths (string order is not numeric order)
''' + PRE + '''  root state:
    name: root
    initial: idle
    states:
      - name: idle
        transitions:
          - target: pool
            event: e0
          - target: w9b
            event: e1
      - name: pool
        transitions:
          - target: idle
            event: e2
        parallel states:
          - name: worker2
            initial: w2a
            on entry: x = x * 3 + 2
            on exit: y = y * 3 + 2
            states:
              - name: w2a
                on entry: x = x * 5 + 1
                transitions:
                  - target: w2b
                    event: f
                    action: x = x * 7 + 2
              - name: w2b
          - name: worker10
            initial: w10a
            on entry: x = x * 3 + 10
            on exit: y = y * 3 + 10
            states:
              - name: w10a
                on entry: x = x * 5 + 2
                transitions:
                  - target: w10b
                    event: f
                    action: x = x * 7 + 10
              - name: w10b
          - name: worker9
            initial: w9a
            on entry: x = x * 3 + 9
            on exit: y = y * 3 + 9
            states:
              - name: w9a
                on entry: x = x * 5 + 3
                transitions:
                  - target: w9b
                    event: f
                    action: x = x * 7 + 9
              - name: w9b
                on entry: x = x * 5 + 4
          - name: Worker1
            initial: W1
            on entry: x = x * 3 + 1
            states:
              - name: W1
'''

DEEP_HISTORY_IN_REGION = '''statechart:
  name: a deep history state inside one region of an orthogonal state
''' + PRE + '''  root state:
    name: root
    initial: P
    states:
      - name: out
        transitions:
          - target: P
            event: e1
      - name: P
        transitions:
          - target: out
            event: e0
        parallel states:
          - name: R1
            initial: c0
            states:
              - name: c0
                transitions:
                  - target: K
                    event: f
                  - target: hd
                    event: h
                  - target: hs
                    event: s
              - name: K
                initial: k1
                transitions:
                  - target: c0
                    event: back
                states:
                  - name: hd
                    type: deep history
                    memory: k1
                  - name: hs
                    type: shallow history
                    memory: k1
                  - name: k1
                    transitions:
                      - target: k2
                        event: f
                  - name: k2
                    initial: k2a
                    states:
                      - name: k2a
                        on entry: x = x + 1
          - name: R2
            initial: A
            states:
              - name: A
                initial: a1
                states:
                  - name: a1
                    on entry: y = y + 1
                    transitions:
                      - target: a2
                        event: g
                  - name: a2
                    on entry: y = y + 10
                    transitions:
                      - target: a1
                        event: g
          - name: R0
            initial: B1
            states:
              - name: B1
                transitions:
                  - target: B2
                    event: g
              - name: B2
'''

SUBSTRING_NAMES = '''statechart:
  name: state names that are substrings of the names of the states around them
''' + PRE + '''  root state:
    name: root
    initial: player
    states:
      - name: play
        transitions:
          - target: player
            event: e0
      - name: player
        parallel states:
          - name: player audio
            initial: audio
            states:
              - name: audio
                on exit: x = x + 1
                transitions:
                  - target: player
                    event: e1
                    action: y = y + 1
                  - target: play
                    event: e2
                  - target: aud
                    event: f
              - name: aud
                transitions:
                  - target: player audio
                    event: e1
                  - target: audio
                    event: f
          - name: player video
            initial: video
            states:
              - name: video
                on exit: x = x + 10
                transitions:
                  - target: vid
                    event: e1
                  - target: vid
                    event: e2
                    guard: (g >> 0) & 1 == 1
              - name: vid
                transitions:
                  - target: video
                    event: e1
'''

NONDET_AND_CONFLICT = '''statechart:
  name: a non-deterministic choice in one region and a conflicting transition in another, enabled by the same event
''' + PRE + '''  root state:
    name: root
    initial: P
    states:
      - name: out
      - name: P
        parallel states:
%(regions)s
'''

REGION_A = '''          - name: A
            initial: a1
            states:
              - name: a1
                transitions:
                  - target: a2
                    event: e
                    guard: (g >> 0) & 1 in {1}
                  - target: a3
                    event: e
                    guard: "{0: (g >> 1) & 1}[0] == 1"
              - name: a2
              - name: a3
'''
REGION_B = '''          - name: B
            initial: b1
            states:
              - name: b1
                transitions:
                  - target: out
                    event: e
                    guard: "'{t1}{}{0}' != '' and (g >> 2) & 1 == 1"
'''

IDLE_VS_ENTRY = '''statechart:
  name: a state whose idle time differs from its entry time, with contracts on its transitions and on itself
''' + PRE + '''  root state:
    name: root
    initial: a
    states:
      - name: a
        contract:
          - always: after(0) and idle(0)
          - after: idle(0) or x >= 0
        transitions:
          - event: e0
            action: x = x + 1
            contract:
              - after: idle(1) or x >= 0
              - always: after(1) or x >= 0
          - target: b
            event: e1
            guard: idle(2) or after(4)
            contract:
              - before: x >= 0
              - after: idle(0) or x >= 0
              - always: after(0) or x >= 0
      - name: b
        contract:
          - before: x >= 0
        transitions:
          - target: a
            event: e1
            guard: after(1) and idle(1)
            contract:
              - after: idle(0) or x >= 0
'''

GUARD_TURNS_TRUE = '''statechart:
  name: an eventless transition whose guard becomes true between two calls, without any event or clock change
''' + PRE + '''  root state:
    name: root
    initial: a
    states:
      - name: a
        transitions:
          - target: b
            guard: (g >> 0) & 1 == 1
            action: x = x + 1
      - name: b
        transitions:
          - target: a
            guard: (g >> 1) & 1 == 0
            action: y = y + 1
'''

FAILING_SENDER = '''statechart:
  name: an action that sends an event and then breaks its postcondition; the client carries on and swaps a bound target
''' + PRE + '''  root state:
    name: root
    initial: a
    states:
      - name: a
        transitions:
          - event: e0
            action: "send('e1')\\nx = x + 1"
            contract:
              - after: (c >> 0) & 1 == 0
          - event: e1
            action: "send('e2', v=x)\\nnotify('m0', w=x)"
          - event: e2
            action: y = y + 1
          - event: f
            action: "send('e2', v=7)\\nnotify('m1', w=1)\\nx = x // (1 - ((c >> 1) & 1))"
'''

CONTRACT_ONLY_READS = '''statechart:
  name: only contract conditions read the configuration in the middle of a micro step; the code reads it afterwards
''' + PRE + '''  root state:
    name: root
    initial: a
    states:
      - name: a
        contract:
          - after: active('a') or not active('a')
        transitions:
          - target: b
            event: e0
            contract:
              - before: active('b') or not active('b')
              - after: active('a') or not active('a')
      - name: b
        initial: b1
        contract:
          - before: active('b') or not active('b')
        transitions:
          - target: a
            event: e1
            action: x = x + (1 if active('b2') else 0) + (10 if active('b') else 0)
        states:
          - name: b1
            contract:
              - before: active('b1') or not active('b1')
            transitions:
              - target: b2
                event: e0
                action: y = y + (1 if active('b1') else 0) + (10 if active('b2') else 0)
          - name: b2
            on entry: y = y + (100 if active('b1') else 0)
            contract:
              - before: active('b1') or not active('b1')
'''

SAME_GUARD_TEXT = '''statechart:
  name: the same guard text on transitions of different source states, with a different truth value for each
''' + PRE + '''  root state:
    name: root
    initial: session
    states:
      - name: expired
        transitions:
          - target: session
            event: e0
      - name: session
        initial: idle
        transitions:
          - target: expired
            guard: after(10)
          - target: expired
            event: e2
            guard: idle(4)
        states:
          - name: idle
            transitions:
              - target: busy
                event: e1
          - name: busy
            transitions:
              - target: idle
                guard: after(10)
                action: x = x + 1
              - event: e2
                guard: idle(4)
                action: y = y + 1
'''

DEEP_ENTRY_ORDER = '''statechart:
  name: a transition into the depth of two nested orthogonal states whose names are in the opposite order of their depths
''' + PRE + '''  root state:
    name: root
    initial: out
    states:
      - name: out
        transitions:
          - target: m2
            event: e0
          - target: z9
            event: e1
      - name: Zed
        transitions:
          - target: out
            event: e2
        parallel states:
          - name: R1
            initial: Ann
            states:
              - name: Ann
                parallel states:
                  - name: M
                    initial: m1
                    on entry: x = x * 3 + 1
                    states:
                      - name: m1
                      - name: m2
                        on entry: x = x * 3 + 2
                  - name: N
                    initial: n1
                    on entry: y = y * 3 + 1
                    states:
                      - name: n1
                        on entry: y = y * 3 + 2
          - name: R2
            initial: z1
            on entry: y = y * 5 + 1
            states:
              - name: z1
                on entry: y = y * 5 + 2
              - name: z9
                on entry: y = y * 5 + 3
'''

ACTION_TEXT_AS_GUARD = '''statechart:
  name: the same code text first executed as an action and then evaluated as a guard (no contracts)
  preamble: "x = 0\\ny = 0\\ng = 4095\\nc = 0\\ndef ok():\\n    return True"
  root state:
    name: root
    initial: a
    states:
      - name: a
        on entry: ok()
        transitions:
          - target: b
            event: e1
            guard: ok()
          - target: b
            event: e0
            guard: ok()
          - target: c
            event: e0
            guard: x >= 0
      - name: b
        on exit: x >= 0
        transitions:
          - target: a
            event: e1
            guard: x >= 0
            action: ok()
      - name: c
'''

NO_CODE_CONTRACTS = '''statechart:
  name: contracts reading __old__ in a statechart that executes no code at all; the client changes the context between the steps
''' + PRE + '''  root state:
    name: root
    initial: a
    states:
      - name: a
        contract:
          - always: __old__.g >= 0 and x >= 0
          - after: __old__.g >= 0
        transitions:
          - target: b
            event: e0
            contract:
              - after: __old__.g == g
      - name: b
        contract:
          - before: x >= 0
          - always: __old__.g >= 0
        transitions:
          - target: a
            event: e0
            contract:
              - always: __old__.g == g
'''

PRIORITY_AFTER_FIRST = '''statechart:
  name: two regions react to one event; the state examined second has a high-priority transition whose guard is false and a low-priority one
''' + PRE + '''  root state:
    name: root
    initial: P
    states:
      - name: P
        transitions:
          - target: P
            event: e
            guard: (g >> 3) & 1 == 1
            action: y = y + 100
        parallel states:
          - name: A
            initial: a1
            states:
              - name: a1
                transitions:
                  - target: a2
                    event: e
                    action: x = x + 1
              - name: a2
                transitions:
                  - target: a1
                    event: e
          - name: B
            initial: b1
            states:
              - name: b1
                transitions:
                  - target: b2
                    event: e
                    priority: high
                    guard: (g >> 0) & 1 == 1
                    action: y = y + 10
                  - target: b3
                    event: e
                    priority: low
                    guard: (g >> 1) & 1 == 1
                    action: y = y + 1
              - name: b2
                transitions:
                  - target: b1
                    event: e
              - name: b3
                transitions:
                  - target: b1
                    event: e
                    priority: high
                    guard: (g >> 2) & 1 == 1
                  - target: b2
                    event: e
                    priority: -3
'''


def deep_chain_yaml(depth=12):
    """root > line > {idle, s1 ... nested `depth` levels (level2..), H* deep history, h shallow history}; names like s1 / s10
    (one a prefix of the other), nesting deeper than 9 (two-digit depths)"""
    ind = lambda k: '  ' * k
    out = ['statechart:', '  name: deep chain', PRE.rstrip('\n'), '  root state:', '    name: root', '    initial: line', '    states:',
           '      - name: out', '        transitions:', '          - target: Hd', '            event: e1',
           '          - target: Hs', '            event: e2', '          - target: line', '            event: e0',
           '      - name: line', '        initial: Hs', '        transitions:', '          - target: out', '            event: e0',
           '        states:', '          - name: Hd', '            type: deep history', '            memory: s10',
           '          - name: Hs', '            type: shallow history', '            memory: s10',
           '          - name: s1', '            on entry: x = x + 1',
           '          - name: s10', '            initial: level2', '            on entry: y = y + 1', '            states:']
    k = 7
    for lvl in range(2, depth + 1):
        out.append(ind(k) + '- name: level%d' % lvl)
        out.append(ind(k) + '  on entry: x = x + %d' % lvl)
        if lvl < depth:
            out.append(ind(k) + '  initial: level%d' % (lvl + 1))
            out.append(ind(k) + '  states:')
            k += 2
    return '\n'.join(out) + '\n'


def q(name, **kw):
    return ('queue', name, tuple(sorted(kw.items())))


def entries():
    out = []
    for tgt in ('X', 'b2'):
        out.append(('nested_conflict_%s' % tgt, NESTED_CONFLICT % dict(b1_target=tgt), None,
                    [('exec',), q('e'), ('exec',), ('exec',), ('bits', 4094), q('e'), ('exec',), q('e'), ('exec',), ('bits', 4095),
                     q('e'), ('exec',), q('back'), ('exec',), q('e'), ('exec',), q('leave'), ('exec',), ('exec',),
                     # from outside into the depth of nested orthogonal states: two orthogonal states lack regions at once
                     q('quit'), ('exec',), q('deep'), ('exec',), q('quit'), ('exec',), q('deep2'), ('exec',), ('exec',)]))
    out.append(('equal_internal_external', EQUAL_EVENTS, None,
                [('exec',), q('tick', delay=5), ('clock', 3), q('go'), ('exec',), ('clock', 3), ('exec',), ('exec',), ('clock', 4),
                 ('exec',), ('exec',), q('tick', delay=5), q('go'), ('exec',), ('clock', 5), ('exec',), ('exec',), ('exec',)]))
    out.append(('notify_before_send', NOTIFY_SEND, None,
                [('exec',), q('e0'), ('exec',), ('exec',), ('exec',), ('clock', 2), ('exec',), ('exec',), q('e0'), ('exec',), ('exec',)]))
    out.append(('midstep_configuration', MIDSTEP_CONFIG, None,
                [('exec',), q('e2'), ('exec',), q('e0'), ('exec',), q('e1'), ('exec',), q('e0'), ('exec',), ('exec',)]))
    out.append(('deep_history_orthogonal', DEEP_HISTORY_ORTH, None,
                [('exec',), q('f'), ('exec',), ('exec',), q('e0'), ('exec',), q('e1'), ('exec',), q('e0'), ('exec',), q('e2'), ('exec',),
                 q('f'), ('exec',), q('e0'), ('exec',), q('e1'), ('exec',)]))

    out.append(('deep_chain_history', deep_chain_yaml(12), None,
                [('exec',), q('e0'), ('exec',), q('e1'), ('exec',), q('e0'), ('exec',), q('e2'), ('exec',), q('e0'), ('exec',), q('e0'), ('exec',)]))
    out.append(('single_char_names', SINGLE_CHARS, None,
                [('exec',), q('reset'), ('exec',), q('reset'), ('exec',), ('bits', 4094), q('reset'), ('exec',), q('reset'), ('exec',)]))
    out.append(('shared_code_text', SHARED_TEXT, None,
                [('exec',), q('e0'), ('exec',), q('e2'), ('exec',), q('e1'), ('exec',), q('e0'), ('exec',), q('e2'), ('exec',), ('exec',)]))

    out.append(('numeric_region_names', NUMERIC_REGIONS, None,
                [('exec',), q('e0'), ('exec',), q('f'), ('exec',), q('e2'), ('exec',), q('e1'), ('exec',), q('f'), ('exec',), q('e2'), ('exec',)]))
    out.append(('deep_history_in_region', DEEP_HISTORY_IN_REGION, None,
                [('exec',), q('f'), ('exec',), q('f'), ('exec',), q('e0'), ('exec',), q('e1'), ('exec',), q('g'), ('exec',), q('h'), ('exec',),
                 q('back'), ('exec',), q('s'), ('exec',), q('e0'), ('exec',), q('e1'), ('exec',), q('g'), ('exec',), q('s'), ('exec',), ('exec',)]))

    out.append(('substring_names', SUBSTRING_NAMES, None,
                [('exec',), q('f'), ('exec',), q('e1'), ('exec',), q('f'), ('exec',), q('e1'), ('exec',), ('bits', 4094), q('e2'), ('exec',),
                 q('e0'), ('exec',), ('bits', 4095), q('e1'), ('exec',), ('exec',)]))
    for nm, regs in (('ab', REGION_A + REGION_B), ('ba', REGION_B + REGION_A)):
        out.append(('nondet_and_conflict_' + nm, NONDET_AND_CONFLICT % dict(regions=regs.rstrip('\n')), None,
                    [('exec',), ('bits', 4095), q('e'), ('exec',), ('bits', 4094), q('e'), ('exec',), ('bits', 4091), q('e'), ('exec',),
                     ('bits', 4092), q('e'), ('exec',), ('bits', 4088), q('e'), ('exec',), ('exec',)]))

    out.append(('idle_vs_entry', IDLE_VS_ENTRY, None,
                [('exec',), ('clock', 5), q('e0'), ('exec',), ('clock', 3), q('e1'), ('exec',), ('clock', 2), q('e1'), ('exec',), ('clock', 1),
                 q('e0'), ('exec',), q('e0'), ('exec',), ('clock', 7), q('e1'), ('exec',), ('exec',)]))

    out.append(('guard_turns_true', GUARD_TURNS_TRUE, None,
                [('bits', 4094), ('exec',), ('exec',), ('exec',), ('bits', 4095), ('exec',), ('exec',), ('bits', 4093), ('exec',), ('exec',),
                 ('bits', 4092), ('exec',), ('bits', 4093), ('exec',), ('exec',)]))
    out.append(('failing_sender', FAILING_SENDER, None,
                [('carry_on',), ('exec',), q('e1'), ('exec',), ('exec',), ('cbits', 1), q('e0'), ('exec',), ('cbits', 0), ('swap', 0), ('swap', 1),
                 ('swap', 2), q('e1'), ('exec',), ('exec',), ('exec',), ('cbits', 1), q('e0'), ('exec',), ('cbits', 0), ('swap', 3), ('exec',),
                 q('e1'), ('exec',), ('exec',), ('exec',),
                 # a block that sends and then raises; the client carries on: nothing of the failed block may surface later
                 ('cbits', 2), q('f'), ('exec',), ('cbits', 0), q('e0'), ('exec',), ('exec',), q('f'), ('exec',), ('exec',), ('exec',)]))

    out.append(('contract_only_reads', CONTRACT_ONLY_READS, None,
                [('exec',), q('e0'), ('exec',), q('e0'), ('exec',), q('e1'), ('exec',), q('e0'), ('exec',), q('e1'), ('exec',), ('exec',)]))

    out.append(('same_guard_text', SAME_GUARD_TEXT, None,
                [('exec',), ('clock', 8), q('e1'), ('exec',), ('clock', 2), ('exec',), ('exec',), q('e0'), ('exec',), ('clock', 3), q('e1'), ('exec',),
                 ('clock', 2), q('e2'), ('exec',), ('clock', 2), q('e2'), ('exec',), ('clock', 4), ('exec',), ('exec',), ('clock', 10), ('exec',), ('exec',)]))

    out.append(('deep_entry_order', DEEP_ENTRY_ORDER, None,
                [('exec',), q('e0'), ('exec',), q('e2'), ('exec',), q('e1'), ('exec',), q('e2'), ('exec',), q('e0'), ('exec',), ('exec',)]))

    out.append(('action_text_as_guard', ACTION_TEXT_AS_GUARD, None,
                [('exec',), q('e1'), ('exec',), q('e1'), ('exec',), q('e1'), ('exec',), q('e1'), ('exec',), q('e0'), ('exec',), ('exec',)]))

    out.append(('no_code_contracts', NO_CODE_CONTRACTS, None,
                [('exec',), ('bits', 1), q('e0'), ('exec',), ('bits', 2), q('e0'), ('exec',), ('bits', 3), q('e0'), ('exec',), ('bits', 4),
                 ('exec',), q('e0'), ('exec',), ('bits', 5), q('e0'), ('exec',), ('exec',)]))

    out.append(('priority_after_first', PRIORITY_AFTER_FIRST, None,
                [('exec',), ('bits', 2), q('e'), ('exec',), q('e'), ('exec',), q('e'), ('exec',), ('bits', 6), q('e'), ('exec',), ('bits', 1), q('e'), ('exec',),
                 ('bits', 0), q('e'), ('exec',), ('bits', 10), q('e'), ('exec',), ('exec',)]))

    def add_noncontiguous(sc):
        from sismic.model import Transition
        sc.add_transition(Transition('a1', 'a2', event='e', priority=None))
        sc.add_transition(Transition('b1', 'b2', event='e'))
        sc.add_transition(Transition('a1', 'a3', event='e', priority=1))
        sc.add_transition(Transition('b2', 'b1', event='e', guard='(g >> 1) & 1 == 1'))
        sc.add_transition(Transition('a3', 'a1', event='e'))
        sc.add_transition(Transition('b2', None, event='e', guard='(g >> 2) & 1 == 1'))
    out.append(('noncontiguous_transitions', NONCONTIGUOUS, add_noncontiguous,
                [('exec',), q('e'), ('exec',), q('e'), ('exec',), ('bits', 4089), q('e'), ('exec',), q('e'), ('exec',)]))
    return out


def build(entry):
    import sismic.io
    name, text, post, script = entry
    sc = sismic.io.import_from_yaml(text)
    if post:
        post(sc)
    return sc, script
