"""C06 -- interpreter-family check (see icheck.py, ifam.py)."""
import os

import genchart
import icheck
import ifam

PROP = 'C06'
PROOF_FILES = [f for f in ['proofs/C06Proofs.v'] if os.path.exists(os.path.join('/verif/coq', f))]


def main(tier, seed):
    return icheck.run(PROP, tier, seed, genchart.Profile(p_hist_target=0.4, p_history=0.7, p_orth=0.3, p_contract=0.05, max_states=14, n_trans=(5, 14), alt=[(0.15, genchart.parallel_profile(p_history=0.6, p_sibling_target=0.5)), (0.05, genchart.nested_parallel_chart)]), ifam.ScenarioSpec(p_queue=0.45, n_ops=(12, 30)), icheck.interest_c06, PROOF_FILES, assumptions=['DESIGN.md section 2 well-formedness'])


replay = icheck.replay
