"""Entry point: main.py <PROP> [--tier quick|thorough] [--replay file]"""
import importlib
import os
import sys

sys.path.insert(0, os.path.dirname(os.path.abspath(__file__)))
os.environ.setdefault('PYTHONHASHSEED', '0')


def watchdog(prop, tier, seed):
    """A check that does not end shows nothing: after a generous limit (a quick run takes minutes) the run is ended with a
    VIOLATION line naming where it was stuck (calls into the implementation have their own, much shorter, limits)."""
    import threading
    limit = int(os.environ.get('VERIF_WATCHDOG_S') or (2700 if tier == 'quick' else 6 * 3600))

    def fire():
        import faulthandler
        import io
        from common import write_replay
        try:
            import tempfile
            with tempfile.TemporaryFile('w+') as f:
                faulthandler.dump_traceback(file=f, all_threads=True)
                f.seek(0)
                where = f.read().splitlines()[:60]
        except Exception as e:  # noqa
            where = [repr(e)]
        path = write_replay(prop, dict(property=prop, broken='the check did not end within %d s' % limit, stuck_at=where,
                                       tier=tier, seed=seed), tag='watchdog')
        print('VIOLATION property=%s replay=%s no-failing-input-found' % (prop, path), flush=True)
        os._exit(1)
    t = threading.Timer(limit, fire)
    t.daemon = True
    t.start()


def main():
    args = sys.argv[1:]
    prop = args[0]
    tier = os.environ.get('VERIF_TIER', 'quick')
    replay = None
    i = 1
    while i < len(args):
        if args[i] == '--tier':
            tier = args[i + 1]; i += 2
        elif args[i] == '--replay':
            replay = args[i + 1]; i += 2
        else:
            i += 1
    seed = int(os.environ.get('VERIF_SEED', '1') or 1)
    os.environ['VERIF_TIER_EFFECTIVE'] = tier
    mod = importlib.import_module(prop.lower())
    if replay:
        return mod.replay(replay)
    watchdog(prop.upper(), tier, seed)
    try:
        return mod.main(tier, seed)
    except Exception:  # noqa
        # the check itself could not run to its end against this tree (its harness drives the implementation through the
        # public API and reads its private state): the property is then not shown to hold
        import traceback
        from common import write_replay
        tb = traceback.format_exc()
        sys.stderr.write(tb)
        path = write_replay(prop.upper(), dict(property=prop.upper(), broken='the check did not run to its end against the current tree',
                                               traceback=tb.splitlines()[-30:], tier=tier, seed=seed), tag='harness')
        print('VIOLATION property=%s replay=%s no-failing-input-found' % (prop.upper(), path))
        return 1


if __name__ == '__main__':
    sys.exit(main())
