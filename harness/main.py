"""Entry point: main.py <PROP> [--tier quick|thorough] [--replay file]"""
import importlib
import os
import sys

sys.path.insert(0, os.path.dirname(os.path.abspath(__file__)))
os.environ.setdefault('PYTHONHASHSEED', '0')


def main():
    args = sys.argv[1:]
    prop = args[0]
    tier = os.environ.get('VERIF_TIER', 'quick')
    replay = None
    i = 1
    while i < len(args):
        if args[i] == '--tier':
            tier = args[i + 1]; i += 2
        elif args[i] == '--replay':
            replay = args[i + 1]; i += 2
        else:
            i += 1
    seed = int(os.environ.get('VERIF_SEED', '1') or 1)
    os.environ['VERIF_TIER_EFFECTIVE'] = tier
    mod = importlib.import_module(prop.lower())
    if replay:
        return mod.replay(replay)
    return mod.main(tier, seed)


if __name__ == '__main__':
    sys.exit(main())
