#!/bin/bash
# usage: muttest.sh <patch> <PROP>...   applies a patch to /repo, runs the checks, restores /repo
patch=$1; shift
git -C /repo apply "$patch" || exit 2
for p in "$@"; do
  out=$(/verif/check $p 2>/dev/null | grep -c VIOLATION)
  echo "$(basename $patch) $p violations_lines=$out"
done
git -C /repo checkout -- .
