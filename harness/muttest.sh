#!/bin/bash
# usage: muttest.sh <patch> <PROP>...   runs the checks against a scratch copy of /repo's HEAD with the patch applied
# (/repo itself is not touched, so other work going on there is not disturbed)
patch=$(readlink -f "$1"); shift
d=$(mktemp -d /tmp/mut.XXXXXX)
git -C /repo worktree add -q --detach $d/repo HEAD || exit 2
git -C $d/repo apply "$patch" || { git -C /repo worktree remove --force $d/repo; exit 2; }
for p in "$@"; do
  out=$(VERIF_EVIDENCE_DIR=$d/evidence VERIF_REPO=$d/repo /verif/check $p 2>/dev/null | grep -c VIOLATION)
  echo "$(basename $patch) $p violations_lines=$out"
done
git -C /repo worktree remove --force $d/repo; rm -rf $d
