"""C19 -- BDD verdicts are sound.

Generated statecharts x generated feature files in the documented spelling of the predefined
steps (true and false assertions alike, one assertion under test per scenario) are run through the
real `sismic.bdd.execute_bdd` (behave, JSON formatter).  Compared, per step:
  (a) behave's status with an independent Python oracle (a plain Interpreter driven step by step,
      facts evaluated directly on the MacroStep objects and on configuration/context/final);
  (b) behave's statuses with the Coq model of environment.py + steps.py (BddCorr.check_cases,
      evaluated by vm_compute; the model reads the feature TEXT through its own pattern matcher
      applied to the pattern list extracted from steps.py on this run);
  (c) `fact_b` (declarative meaning) with behave's verdict;
plus the interpreter operations performed (recording Interpreter subclass given as
interpreter_klass), the sismic.testing predicates against the oracle and against their Coq model,
the model's matcher against behave's step registry, and the regenerated dispatch obligations.

Values: besides the integers its guards read, every generated chart has two variables (u, w) that hold None, False,
True, 0, '', strings, (empty) lists / dicts / tuples and are reassigned by actions; `variable` assertions are generated
about every variable of the context with its own value and with look-alikes of another type, `expression` assertions
about them too (`u is None`, `not u`, `u == 0`, ...).  Containers reach the Coq model as their repr (a string): they are
only compared with None / booleans / integers / '' / 'a' / 'None', where == on the repr and == on the value agree.

Run length: the hand-written charts corpus/C19/*.yaml (events e0 e1 e2) go through the same pipeline under generated
scenarios ("dense" shape: an assertion block after every one or two given/when steps) with CORPUS_LIMIT instead of
LIMIT: in long_run.yaml one step triggers 1502 (eventless loop) or 1203 (chain of internal events) macro steps.  The
model stays in the loop (it replays the recorded execute() results; about 10 s of vm_compute per such file).
corpus/C19/*.json are fixed scenarios with the statuses the property demands (also run through the sismic-bdd CLI).

Mutable literals (the "container family"): a second family of generated charts keeps an event parameter in a variable
(`kp = getattr(event, 'p', kp)`), mutates it in place later (entry code and actions: append / pop / update / clear) and
sends it on (`send('e1', p=kp)`); their scenarios write lists and dicts (a small pool, so the same literal TEXT comes
back many times in a scenario, across the scenarios of a feature and across the features a worker process runs) as
values of `I send event ... with p=v` (inline and table), `event ... is fired with p=v` and `variable ... equals v`,
asserting both the value sent and the value the variable has now.  Every step's text denotes a FRESH value: the oracle
hands a deep copy to its interpreter and never shows its own literals to the chart.  The corpus chart
keeps_event_parameters.yaml (marker `# c19-family: containers`) goes through the same pipeline.  The literal reader of the
Coq model reads None / booleans / integers / strings only, so the features of this family are NOT given to the model:
they are compared with the Python oracle (statuses), with the recorded interpreter (macro steps serialised when they are
produced, and the queue / advance / execute operations with their argument values at the time of the call -- compared
in Python for every recorded scenario of both families) and with a second execute_bdd run of the same feature in the
same process (a verdict does not depend on what the process has run before).  A disagreement may depend on what the
worker process ran earlier: the replay of a scenario carries the features that process had run before it, in order, and
`--replay` repeats them first in one process.  corpus/C19/mutable_literal_reuse.json is the fixed counterpart (a route
kept and consumed in place; the same list / dict text inline, as a table, repeated, reproduced, in later scenarios).
Every execute_bdd call runs under BEHAVE_LIMIT_S (the hooks call execute() without a bound).
"""
import atexit
import copy
import json
import os
import random
import re
import shutil
import subprocess
import sys
import tempfile
import time
from fractions import Fraction

from common import (COQ, COQ_FLAGS, GEN, NCPU, REPO, TRUSTED_BASE, Timeout, Verdict, cbool, clist, copt, coq_build,
                    coq_eval_files, cq, cstr, cz, gen_dir, log, parse_pairs, proof_stage, repo_blob_ids, run,
                    time_limit, write_evidence)

PROP = 'C19'
PROOF_FILES = ['theories/Bdd.v', 'proofs/BddProofs.v']
OWN_FILES = ['theories/Bdd.v', 'theories/BddCorr.v', 'proofs/BddProofs.v', 'props/C19_Props.v']
CORPUS = '/verif/corpus/C19'
LIMIT = 400           # execute(max_steps): a generated chart that needs more is discarded as looping
CORPUS_LIMIT = 20000  # the same for the hand-written charts of the corpus (one step may trigger thousands of macro steps)
STATUS = {'passed': 'Passed', 'failed': 'Failed', 'error': 'Error', 'hook_error': 'HookError',
          None: 'Skipped', 'skipped': 'Skipped', 'untested': 'Skipped', 'undefined': 'Undefined'}
EVENTS = ['e0', 'e1', 'e2']
BEHAVE_LIMIT_S = 180  # one execute_bdd call (a feature of 10-12 scenarios takes a second, the long runs of the corpus a few):
#                       the hooks call execute() without a bound, so steps other than the ones the oracle screened (LIMIT)
#                       may start a run that never ends

_TMP = []


def tmpdir():
    d = tempfile.mkdtemp(prefix='c19_')
    _TMP.append(d)
    return d


@atexit.register
def _cleanup():
    for d in _TMP:
        shutil.rmtree(d, ignore_errors=True)


# ------------------------------------------------------------------------------------------------
# compile the files this check owns when they are not (yet) built by make
# ------------------------------------------------------------------------------------------------
def ensure_vo():
    msgs = []
    for rel in OWN_FILES:
        v = os.path.join(COQ, rel)
        if not os.path.exists(v):
            msgs.append('%s missing' % rel)
            continue
        vo = v[:-2] + '.vo'
        deps = [os.path.join(COQ, r)[:-2] + '.vo' for r in OWN_FILES[:OWN_FILES.index(rel)]]
        newest = max([os.path.getmtime(v)] + [os.path.getmtime(d) for d in deps if os.path.exists(d)] +
                     [os.path.getmtime(os.path.join(COQ, 'theories/Interp.vo'))])
        if os.path.exists(vo) and os.path.getmtime(vo) >= newest:
            continue
        rc, out = run(['timeout', '900', 'coqc'] + COQ_FLAGS + [rel], 1000, cwd=COQ)
        if rc != 0:
            msgs.append('%s: %s' % (rel, out[-1500:]))
            break
    return msgs


# ------------------------------------------------------------------------------------------------
# values and texts
# ------------------------------------------------------------------------------------------------
def lit(v):
    """Python value -> the text written in the feature file."""
    return repr(v)


def num_text(q):
    q = Fraction(q)
    if q.denominator == 1:
        return str(q.numerator)
    return repr(float(q))


def action_text(sem):
    k = sem[0]
    if k == 'nothing':
        return 'I do nothing'
    if k == 'send':
        inl = sem[3]
        return 'I send event %s' % sem[1] + ('' if inl is None else ' with %s=%s' % (inl[0], lit(inl[1])))
    if k == 'wait':
        return 'I wait %s %s' % (sem[2], 'second' if sem[3] else 'seconds')
    if k == 'repeat':
        return 'I repeat "%s" %d times' % (action_text(sem[1]), sem[2])
    if k == 'reproduce':
        return 'I reproduce "%s"' % sem[1]
    raise ValueError(sem)


def then_text(sem):
    k = sem[0]
    if k in ('entered', 'exited', 'active'):
        return 'state %s is %s' % (sem[1], k)
    if k in ('notentered', 'notexited', 'notactive'):
        return 'state %s is not %s' % (sem[1], k[3:])
    if k == 'fired':
        inl = sem[3]
        return 'event %s is fired' % sem[1] + ('' if inl is None else ' with %s=%s' % (inl[0], lit(inl[1])))
    if k == 'notfired':
        return 'event %s is not fired' % sem[1]
    if k == 'noevent':
        return 'no event is fired'
    if k == 'vareq':
        return 'variable %s equals %s' % (sem[1], lit(sem[2]))
    if k == 'varne':
        return 'variable %s does not equal %s' % (sem[1], lit(sem[2]))
    if k == 'expr':
        return ('expression "%s" holds' if sem[2] else 'expression %s holds') % sem[1]
    if k == 'notexpr':
        return ('expression "%s" does not hold' if sem[2] else 'expression %s does not hold') % sem[1]
    if k == 'final':
        return 'statechart is in a final configuration'
    if k == 'notfinal':
        return 'statechart is not in a final configuration'
    raise ValueError(sem)


def sem_table(sem):
    return list(sem[2]) if sem[0] in ('send', 'fired') else []


def params_of(sem):
    """the dict steps.py builds: table rows in order, then the inline pair."""
    d = {}
    for k, v in sem[2]:
        d[k] = v
    if sem[3] is not None:
        d[sem[3][0]] = sem[3][1]
    return d


# ------------------------------------------------------------------------------------------------
# the oracle: a plain Interpreter driven by hand; facts evaluated directly on MacroStep objects
# ------------------------------------------------------------------------------------------------
class Looping(Exception):
    pass


def py_eval(interp, expr):
    try:
        env = {'active': lambda s: s in interp.configuration, 'time': interp.time}
        return bool(eval(expr, env, dict(interp.context)))
    except Exception:   # noqa
        return None


def value_kind(ctx, x):
    """coverage only: what sort of value a `variable` assertion is about."""
    if x not in ctx:
        return 'undefined'
    v = ctx[x]
    if v is None:
        return 'none'
    if isinstance(v, (list, tuple, dict, set, frozenset)):
        return 'container' if v else 'empty_container'
    if isinstance(v, (bool, int, str)) and not v:
        return 'falsy_%s' % type(v).__name__
    return 'other'


class Oracle:
    def __init__(self, sc, feature_sems, exprs=(), limit=None):
        from sismic.interpreter import Interpreter
        self.sc = sc
        self.limit = LIMIT if limit is None else limit
        self.interp = Interpreter(sc)
        self.feature = feature_sems      # name -> list of (ty, sem)
        self.exprs = list(exprs)
        self.script = []                 # (list of MacroStep | None, snapshot)
        self.ops = []
        self.block = None
        self.block_mv = None             # the same macro steps, serialised when they were produced
        self.script_mv = []              # one entry per execute(): its macro steps, serialised when they were produced
        self.containers = False          # container family: candidates() also proposes list / dict values
        self.in_block = False
        self.whens_since_then = 0        # alternative readings of "block" (reported, not checked)
        self.run_block = []
        self.given_between = False
        self._last_given = False
        self.tables_reproduced = 0

    def snapshot(self):
        import sx
        i = self.interp
        return dict(config=sorted(i.configuration), final=bool(i.final), ctx=sx.ctx_value(i.context),
                    evals=[(e, py_eval(i, e)) for e in self.exprs])

    def execute(self, ty):
        try:
            ms = self.interp.execute(max_steps=self.limit)
        except Exception:   # noqa
            ms = None
        if ms is not None and len(ms) >= self.limit:
            raise Looping()
        self.ops.append(('execute',))
        self.script.append((ms, self.snapshot()))
        # serialised NOW: the data of a sent event may be an object the chart goes on mutating
        import sx
        mv = None if ms is None else [sx.macro_value(self.interp, m) for m in ms]
        self.script_mv.append(mv)
        if ms is None:
            return False
        if ty == 'when':
            if not self.in_block:
                self.block = []
                self.block_mv = []
                self.run_block = []
                self.in_block = True
                self.given_between = False
            elif self._last_given:
                # a given step between two when steps of the same block: the code keeps the block;
                # under the reading "maximal run of consecutive when steps" a new run starts here
                self.given_between = True
                self.run_block = []
            self.block.extend(ms)
            self.block_mv.extend(mv)
            self.run_block.extend(ms)
            self._last_given = False
            self.whens_since_then += 1
        else:
            self._last_given = True
        return True

    def act(self, ty, sem):
        """one given/when step with its trailing execute; returns status."""
        k = sem[0]
        st = 'Passed'
        if k == 'send':
            d = params_of(sem)
            # the text of a step denotes a fresh value each time it is read: the chart may keep and mutate what it is
            # given, the literals of the scenario (sem) stay what was written
            self.interp.queue(sem[1], **copy.deepcopy(d))
            self.ops.append(('queue', sem[1], list(d.items())))
        elif k == 'wait':
            if sem[1] < 0:
                st = 'Error'
            else:
                self.interp.clock.time += float(sem[1])
                self.ops.append(('advance', Fraction(sem[1])))
        elif k == 'repeat':
            for _ in range(sem[2]):
                if self.act(ty, sem[1]) != 'Passed':
                    st = 'Failed'
                    break
        elif k == 'reproduce':
            steps = self.feature.get(sem[1])
            if steps is None:
                st = 'Failed'
            else:
                for t2, s2 in steps:
                    if t2 in ('given', 'when'):
                        if s2[0] == 'send' and s2[2]:
                            self.tables_reproduced += 1      # the step is re-issued WITH its Gherkin table
                        if self.act(ty, s2) != 'Passed':
                            st = 'Failed'
                            break
        if not self.execute(ty):
            st = 'HookError'
        return st

    # -- facts, directly on the macro steps
    def entered(self, block=None):
        return {n for m in (self.block if block is None else block) for mi in m.steps for n in mi.entered_states}

    def exited(self, block=None):
        return {n for m in (self.block if block is None else block) for mi in m.steps for n in mi.exited_states}

    def sent(self, block=None):
        return [e for m in (self.block if block is None else block) for mi in m.steps for e in mi.sent_events]

    def fact(self, sem, block=None):
        """True / False / None (unknown state, expression raises)."""
        block = self.block if block is None else block
        i = self.interp
        k = sem[0]
        if k in ('entered', 'notentered', 'exited', 'notexited', 'active', 'notactive'):
            if sem[1] not in self.sc.states:
                return None
            pos = {'entered': lambda: sem[1] in self.entered(block), 'exited': lambda: sem[1] in self.exited(block),
                   'active': lambda: sem[1] in i.configuration}[k[3:] if k.startswith('not') else k]()
            return (not pos) if k.startswith('not') else pos
        if k == 'fired':
            want = params_of(sem)
            for e in self.sent(block):
                if e.name != sem[1]:
                    continue
                ok = True
                for key, v in want.items():
                    cur = e.name if key == 'name' else (e.data if key == 'data' else e.data.get(key))
                    if not (cur == v):
                        ok = False
                if ok:
                    return True
            return False
        if k == 'notfired':
            return all(e.name != sem[1] for e in self.sent(block))
        if k == 'noevent':
            return len(self.sent(block)) == 0
        if k == 'vareq':
            return sem[1] in i.context and i.context[sem[1]] == sem[2]
        if k == 'varne':
            return sem[1] in i.context and i.context[sem[1]] != sem[2]
        if k == 'expr':
            r = py_eval(i, sem[1])
            return None if r is None else r
        if k == 'notexpr':
            r = py_eval(i, sem[1])
            return None if r is None else (not r)
        if k == 'final':
            return bool(i.final)
        if k == 'notfinal':
            return not i.final
        raise ValueError(sem)

    def then(self, sem):
        """a then step: status and the data the Coq case needs."""
        self.in_block = False
        if self.block is None:
            return 'HookError', None
        f = self.fact(sem)
        stale = self.whens_since_then == 0          # no when step since the previous then step
        alt = self.fact(sem, [] if stale else self.run_block)
        td = dict(block=list(self.block), block_mv=list(self.block_mv), fact=f, strict=alt, stale=stale,
                  given_between=self.given_between and not stale,
                  value_kind=value_kind(self.interp.context, sem[1]) if sem[0] in ('vareq', 'varne') else None,
                  longest_run=max([len(e[0]) for e in self.script if e[0] is not None] or [0]))
        self.whens_since_then = 0
        return ('Error' if f is None else ('Passed' if f else 'Failed')), td


# ------------------------------------------------------------------------------------------------
# generators
# ------------------------------------------------------------------------------------------------
def sanitize(sc):
    """code that cannot raise without an initial context: tick() is not available under execute_bdd."""
    def fix(code):
        return None if code is None else code.replace('tick()', 'y = y + 2')
    for n in sc.states:
        s = sc.state_for(n)
        if hasattr(s, 'on_entry'):
            s.on_entry = fix(s.on_entry)
        if hasattr(s, 'on_exit'):
            s.on_exit = fix(s.on_exit)
    for t in sc.transitions:
        t.action = fix(t.action)


def make_chart(seed):
    import genchart
    rng = random.Random(seed)
    prof = genchart.Profile(p_contract=0, p_event_param_guard=0, p_send=0.55, p_action=0.75, same_source_boost=0.1,
                            p_final=0.2, p_time_guard=0.15)
    sc = genchart.valid_chart(rng, prof)
    sanitize(sc)
    sc._preamble = 'x = 0\ny = 0\ng = %d\nc = 0' % rng.choice([4095, 4095, rng.getrandbits(12), rng.getrandbits(12)])
    diversify(rng, sc)
    if rng.random() < 0.4:
        # contracts that always hold and read what the step has sent so far (sent() is evaluated in the middle of a macro step):
        # a condition that holds never changes a verdict
        owners = [st for st in sc._states.values() if hasattr(st, 'preconditions') and type(st).__name__ in ('BasicState', 'CompoundState', 'OrthogonalState')]
        for st in rng.sample(owners, min(3, len(owners))):
            st.preconditions.append("sent('%s') or not sent('%s')" % ((rng.choice(['e0', 'e1', 'e2']),) * 2))
        for t in rng.sample(list(sc._transitions), min(2, len(sc._transitions))):
            t.postconditions.append("sent('e1') or not sent('e1')")
    return sc


# values a statechart variable may legitimately hold besides the integers of the generated guards: None, the
# booleans, 0, the empty string, (empty) containers.  u and w are written by actions only and never read by a guard
# or by another action, so the behaviour of the chart is unchanged; `variable` / `expression` assertions are
# generated about them.
VAR_INIT = ['None', 'None', 'False', 'True', '0', "''", "'a'", '[]', '{}', '()', '[0]', '7']
VAR_ASSIGN = ['None', 'None', 'False', 'True', '0', "''", "'a'", 'x', '[]', '[x]', '{}', "{'k': x}", '(x,)',
              'None if {v} is not None else x', 'not {v}', 'x == y']


def diversify(rng, sc):
    sc._preamble += '\nu = %s\nw = %s' % (rng.choice(VAR_INIT), rng.choice(VAR_INIT))

    def more(code):
        if code is None or rng.random() >= 0.3:
            return code
        v = rng.choice(['u', 'u', 'w'])
        return code + '\n%s = %s' % (v, rng.choice(VAR_ASSIGN).replace('{v}', v))
    for n in sc.states:
        st = sc.state_for(n)
        if hasattr(st, 'on_entry'):
            st.on_entry = more(st.on_entry)
    for t in sc.transitions:
        t.action = more(t.action)


PVALS = [0, 1, 2, 3, -1, True, False, None, 'a', 'b c']

# ---- the container family: literal values that are mutable objects, charts that keep and mutate what they are given.
# A small pool: the same text is written again and again (in one scenario, across the scenarios of a feature, across
# the features one worker process runs).
CVALS = [[3, 5], [3, 5], [3, 5], [], [], [0], [1, 2, 3], {'k': 1}, {'k': 1}, {}, {'k': 1, 'n': 0}, (1, 2), 7, 'a']
KEEP_CODE = ["kp = getattr(event, 'p', kp)", "kp = getattr(event, 'p', kp)", "kd = getattr(event, 'v', kd)",
             "kp = getattr(event, 'v', kp)", "kd = getattr(event, 'p', kd)", "kd = getattr(event, 'w', kd)"]
MUTATE_CODE = ['kp.append(x) if isinstance(kp, list) else None', 'kp.pop(0) if isinstance(kp, list) and kp else None',
               'kp.pop(0) if isinstance(kp, list) and kp else None', 'kd.update(n=x) if isinstance(kd, dict) else None',
               "kd.pop('k', None) if isinstance(kd, dict) else None", 'kp.clear() if isinstance(kp, (list, dict)) else None',
               'kd.append(y) if isinstance(kd, list) else None', 'kp.update(k=y) if isinstance(kp, dict) else None',
               'kp.reverse() if isinstance(kp, list) else None', 'kd.clear() if isinstance(kd, (list, dict)) else None']
SEND_KEPT = ["send('%s', p=kp)", "send('%s', v=kd)", "send('%s', p=kp, v=kd)"]


def is_container(v):
    return isinstance(v, (list, dict, tuple))


def cval(rng):
    return copy.deepcopy(rng.choice(CVALS))


def mutabilize(rng, sc):
    """two more variables (kp, kd) that hold what an event brought (`event` is exposed to the action of a transition,
    and is None for an eventless one) and are mutated IN PLACE afterwards by entry code and by other actions; some
    actions send the kept object on as the parameter of an internal event.  Code that cannot raise whatever the value
    is (an integer parameter is kept too)."""
    sc._preamble += '\nkp = []\nkd = {}'

    def add(code, more):
        return more if not code else code + '\n' + more
    for t in sc.transitions:
        r = rng.random()
        if r < 0.55:
            t.action = add(t.action, rng.choice(KEEP_CODE))
        if rng.random() < 0.4:
            t.action = add(t.action, rng.choice(MUTATE_CODE))
        if rng.random() < 0.12:
            t.action = add(t.action, rng.choice(SEND_KEPT) % rng.choice(EVENTS))
    for n in sc.states:
        st = sc.state_for(n)
        if hasattr(st, 'on_entry') and rng.random() < 0.3:
            st.on_entry = add(st.on_entry, rng.choice(MUTATE_CODE))


def gen_action(rng, k, names, depth=0, allow_fail=True, containers=False):
    if containers and rng.random() < 0.5:
        # an event with list / dict parameters, inline and as a table
        ev = rng.choice(EVENTS)
        tbl = []
        inl = None
        q = rng.random()
        if q < 0.6 or depth > 0:
            inl = (rng.choice(['p', 'p', 'v']), cval(rng))
        else:
            tbl = [(rng.choice(['p', 'v', 'w']), cval(rng)) for _ in range(rng.randint(1, 2))]
            if rng.random() < 0.4:
                inl = (rng.choice(['p', 'v']), cval(rng))
        return ('send', ev, tbl, inl)
    r = rng.random()
    if r < 0.42:
        ev = rng.choice(EVENTS) if rng.random() < 0.93 else 'zz'
        tbl = []
        inl = None
        q = rng.random()
        if q < 0.25:
            inl = (rng.choice(['v', 'p', 'flag']), rng.choice(PVALS))
        elif q < 0.35 and depth == 0:
            tbl = [(rng.choice(['v', 'p', 'w']), rng.choice(PVALS)) for _ in range(rng.randint(1, 2))]
            if rng.random() < 0.5:
                inl = (rng.choice(['v', 'p']), rng.choice(PVALS))
        return ('send', ev, tbl, inl)
    if r < 0.60:
        secs = rng.choice(['0', '1', '1', '2', '3', '5', '0.5', '1.5', '2.5', '2.0'])
        if allow_fail and rng.random() < 0.02:
            secs = '-1'
        return ('wait', Fraction(secs), secs, secs == '1' and rng.random() < 0.7)
    if r < 0.68:
        return ('nothing',)
    if r < 0.82 and depth < 2:
        return ('repeat', gen_action(rng, k, names, depth + 1, allow_fail, containers), rng.choice([0, 1, 2, 2, 3]))
    if r < 0.95 and names and depth == 0:
        if allow_fail and rng.random() < 0.04:
            return ('reproduce', 'nosuch')
        return ('reproduce', rng.choice(names))
    return ('send', rng.choice(EVENTS), [], None)


EXPRS = ['x == %d', 'x + y >= %d', 'x > y', 'y != %d', 'x', 'not (x == %d)', "active('%s')", 'time >= %d',
         'q9 == %d', '"a" == "a" and x == %d',
         'u is None', 'u is not None', 'not u', 'u', 'u == None', 'u == 0', 'u == False', "u == ''", 'w is None', 'not w', 'w',
         'w == [] or w == {} or w == ()', 'u == w', 'x == %d and u is None']


def candidates(rng, o, kind):
    """argument choices for a then step of the given kind: list of sems."""
    sc = o.sc
    states = list(sc.states)
    ent, exi, cfg = o.entered(), o.exited(), set(o.interp.configuration)
    sent = o.sent()
    out = []
    if kind in ('entered', 'notentered', 'exited', 'notexited', 'active', 'notactive'):
        s = {'entered': ent, 'exited': exi, 'active': cfg}[kind[3:] if kind.startswith('not') else kind]
        ins = [n for n in states if n in s]
        outs = [n for n in states if n not in s]
        for pool in (ins, outs):
            if pool:
                out.append((kind, rng.choice(pool)))
    elif kind == 'fired':
        names = sorted({e.name for e in sent})
        for e in rng.sample(sent, min(len(sent), 3)):
            data = [(k, copy.deepcopy(v)) for k, v in e.data.items()]      # what the event carries now (never the live object)
            out.append(('fired', e.name, [], None))
            if data:
                k, v = rng.choice(data)
                if isinstance(v, (int, str, type(None), bool)):
                    out.append(('fired', e.name, [], (k, v)))
                    out.append(('fired', e.name, [], (k, (v + 1) if isinstance(v, int) else 'zz')))
                    out.append(('fired', e.name, [(k, 'wrong')], (k, v)))          # inline overrides the table
                    out.append(('fired', e.name, [(k, v), ('nokey', None)], None))   # absent attribute is None
                    wrong = (v + 1) if isinstance(v, int) and not isinstance(v, bool) else 'zz'
                    out.append(('fired', e.name, [(k, wrong)], ('name', e.name)))    # EVERY listed parameter must match:
                    out.append(('fired', e.name, [(k, wrong), ('name', e.name)], None))   # an early mismatch, the last one matching
                    out.append(('fired', e.name, [('name', e.name), (k, v)], None))
                    if len(data) >= 2:
                        (k1, v1), (k2, v2) = data[0], data[-1]
                        out.append(('fired', e.name, [(k1, 'zz'), (k2, v2)], None))
                        out.append(('fired', e.name, [(k1, v1), (k2, v2)], None))
                    if v in (0, 1):
                        out.append(('fired', e.name, [], (k, bool(v))))            # True == 1
                elif o.containers and is_container(v) and is_flat(v):
                    # the value the event carries NOW (it may be an object the chart has mutated since), written inline
                    # and as a table; and values it does not carry: what was sent to the chart, other literals of the pool
                    out.append(('fired', e.name, [], (k, copy.deepcopy(v))))
                    out.append(('fired', e.name, [(k, copy.deepcopy(v))], None))
                    out.append(('fired', e.name, [(kk, copy.deepcopy(vv)) for kk, vv in data if is_flat(vv)], None))
                    for other in sent_literals(o)[-2:] + [cval(rng)]:
                        out.append(('fired', e.name, [], (k, other)))
                        out.append(('fired', e.name, [(k, other)], ('name', e.name)))
            out.append(('fired', e.name, [], ('nokey', rng.choice([None, 3]))))
            out.append(('fired', e.name, [], ('name', e.name)))
            out.append(('fired', e.name, [('name', 'other')], None))
        for n in EVENTS:
            if n not in names:
                out.append(('fired', n, [], None))
                break
    elif kind == 'notfired':
        names = {e.name for e in sent}
        for n in EVENTS + ['zz']:
            out.append(('notfired', n))
    elif kind == 'noevent':
        out.append(('noevent',))
    elif kind in ('vareq', 'varne'):
        ctx = o.interp.context
        for x in ('x', 'y', 'g', 'c'):
            if x in ctx and isinstance(ctx[x], int):
                out.append((kind, x, ctx[x]))
                out.append((kind, x, ctx[x] + rng.choice([1, -1, 2])))
                if ctx[x] in (0, 1):
                    out.append((kind, x, bool(ctx[x])))
        out.append((kind, 'x', 'a'))
        out.append((kind, 'x', None))
        out.append((kind, 'q9', 0))
        # every other variable of the context, whatever it holds: its own value (when it is a literal the model
        # reads) and look-alikes of another type (None / False / 0 / '' are pairwise different, except False == 0)
        for x in sorted(ctx):
            if x in ('x', 'y', 'g', 'c'):
                continue
            cur = ctx[x]
            if callable(cur) or isinstance(cur, float):
                continue
            if cur is None or isinstance(cur, (bool, int)) or (isinstance(cur, str) and PLAIN_STR.match(cur)):
                out.append((kind, x, cur))
                out.append((kind, x, cur))
            elif not isinstance(cur, (list, tuple, dict)):
                continue
            for other in rng.sample(LOOKALIKES, 3):
                out.append((kind, x, other))
            if o.containers and is_container(cur) and is_flat(cur):
                # what the variable holds now, what the scenario sent (the variable may have held exactly that before
                # the chart mutated it) and other literals of the pool
                out.append((kind, x, copy.deepcopy(cur)))
                out.append((kind, x, copy.deepcopy(cur)))
                for other in sent_literals(o)[-3:] + [cval(rng), cval(rng)]:
                    out.append((kind, x, other))
    elif kind in ('expr', 'notexpr'):
        ctx = o.interp.context
        for _ in range(6):
            t = rng.choice(EXPRS)
            if '%d' in t:
                base = ctx.get('x', 0) if isinstance(ctx.get('x', 0), int) else 0
                e = t % (base + rng.choice([0, 0, 1, -1, 2]))
            elif '%s' in t:
                e = t % rng.choice(states)
            else:
                e = t
            quoted = True if '"' in e else (rng.random() < 0.85)
            out.append((kind, e, quoted))
    else:
        out.append((kind,))
    return out


PLAIN_STR = re.compile(r'^[A-Za-z0-9 _]*$')


def is_flat(v):
    """a value whose repr, evaluated, gives an equal value: None / booleans / integers / plain strings and lists,
    tuples, dicts of them."""
    def atom(a):
        return a is None or isinstance(a, (bool, int)) or (isinstance(a, str) and PLAIN_STR.match(a) is not None)
    if isinstance(v, dict):
        return all(atom(a) for a in v.keys()) and all(atom(a) for a in v.values())
    if isinstance(v, (list, tuple)):
        return all(atom(a) for a in v)
    return atom(v)


def writes_container(sem):
    if sem[0] in ('send', 'fired'):
        return any(is_container(v) for v in params_of(sem).values())
    if sem[0] in ('vareq', 'varne'):
        return is_container(sem[2])
    if sem[0] == 'repeat':
        return writes_container(sem[1])
    return False


def sent_literals(o):
    """the container values this scenario has sent to the chart so far (copies), oldest first."""
    out = []
    for op in o.ops:
        if op[0] == 'queue':
            out += [copy.deepcopy(v) for _, v in op[2] if is_container(v)]
    return out
LOOKALIKES = [None, False, True, 0, 1, '', 'a', 'None', 3]

KINDS = ['entered', 'notentered', 'exited', 'notexited', 'active', 'notactive', 'fired', 'fired', 'notfired',
         'noevent', 'vareq', 'varne', 'expr', 'notexpr', 'final', 'notfinal']
KINDS_C = KINDS + ['vareq', 'vareq', 'vareq', 'varne', 'varne', 'fired', 'fired']


def choose_then(rng, o, target):
    """a then step whose oracle truth is `target` if one can be found."""
    if rng.random() < 0.04:
        return (rng.choice(['entered', 'notentered', 'exited', 'notexited', 'active', 'notactive']), 'nosuch')
    if rng.random() < 0.03 and o.block is not None:
        return (rng.choice(['expr', 'notexpr']), 'q9 == %d' % rng.randint(0, 3), True)    # raises NameError
    for _ in range(8):
        kind = rng.choice(KINDS_C if o.containers else KINDS)
        if o.block is None:
            c = [(kind, 'x', 0)] if kind in ('vareq', 'varne') else ([(kind,)] if kind in ('final', 'notfinal', 'noevent') else [])
        else:
            c = candidates(rng, o, kind)
        if o.containers and kind in ('vareq', 'varne', 'fired') and rng.random() < 0.7:
            # mostly assertions that write a list / dict
            c = [x for x in c if writes_container(x)] or c
        rng.shuffle(c)
        for sem in c:
            if o.block is None or o.fact(sem) == target:
                return sem
        if c and rng.random() < 0.15:
            return c[0]
    return ('notfinal',) if target != bool(o.interp.final) else ('final',)


def gen_feature(rng, sc, n_scen, limit=None, dense=False, containers=False):
    """returns list of scenarios: dict(name, lines=[dict(kw, ty, text, table, sem)], oracle data...)
    dense: 2 to 4 blocks of one or two given/when steps, each followed by then steps (an assertion right after
    most actions) instead of one or two longer blocks."""
    feature_sems = {}
    scens = []
    exec_raised = 0
    for k in range(n_scen):
        name = 's%d' % k
        names = [s['name'] for s in scens if s['reproducible']]
        for attempt in range(6):
            o = Oracle(sc, feature_sems, limit=limit)
            o.containers = containers
            lines = []
            statuses = []
            thens = []
            alive = True
            no_when = rng.random() < 0.06
            n_parts = rng.randint(2, 4) if dense else (2 if rng.random() < 0.3 else 1)
            uses = set()
            try:
                for part in range(n_parts):
                    if dense:
                        n_act = rng.randint(1, 2)
                    else:
                        n_act = rng.randint(1, 4) if part == 0 else rng.randint(0, 3)
                    has_when = False
                    for j in range(n_act):
                        if no_when:
                            ty = 'given'
                        else:
                            ty = 'when' if (rng.random() < 0.6 or (j == n_act - 1 and not has_when and part == 0)) else 'given'
                        has_when = has_when or ty == 'when'
                        sem = gen_action(rng, k, names, allow_fail=(exec_raised < 2), containers=containers)
                        uses.add(sem[0])
                        lines.append(dict(ty=ty, text=action_text(sem), table=sem_table(sem), sem=sem))
                        if alive:
                            st = o.act(ty, sem)
                            statuses.append(st)
                            alive = st == 'Passed'
                        else:
                            statuses.append('Skipped')
                    last = part == n_parts - 1
                    target = True if not last else (rng.random() < 0.5)
                    n_then = 1 if not last or rng.random() < 0.85 else 2
                    if dense and not last:
                        n_then = rng.randint(2, 4)     # several true assertions about the same block / state
                    for j in range(n_then):
                        if alive:
                            exprs_before = list(o.exprs)
                            sem = choose_then(rng, o, target if (j == 0 or not last) else rng.random() < 0.5)
                            if sem[0] in ('expr', 'notexpr') and sem[1] not in o.exprs:
                                # the snapshot the model reads must know this expression
                                o.exprs.append(sem[1])
                                if o.script:
                                    o.script[-1][1]['evals'].append((sem[1], py_eval(o.interp, sem[1])))
                            st, td = o.then(sem)
                            if not last and st != 'Passed' and o.block is not None:
                                raise LookupError('intermediate then must hold')
                            statuses.append(st)
                            thens.append(td)
                            alive = st == 'Passed'
                        else:
                            sem = ('notfinal',)
                            statuses.append('Skipped')
                            thens.append(None)
                        lines.append(dict(ty='then', text=then_text(sem), table=sem_table(sem), sem=sem))
                if any(e[0] is None for e in o.script):
                    if exec_raised >= 1 and attempt < 5:
                        continue
                    exec_raised += 1
                    if exec_raised > 2:
                        raise Looping()
                break
            except LookupError:
                continue
        else:
            raise Looping()
        # keywords
        prev = None
        for ln in lines:
            if ln['ty'] == prev and rng.random() < 0.5:
                ln['kw'] = rng.choice(['And', 'And', 'But'])
            else:
                ln['kw'] = ln['ty'].capitalize()
            prev = ln['ty']
        feature_sems[name] = [(ln['ty'], ln['sem']) for ln in lines]
        scens.append(dict(name=name, lines=lines, oracle_status=statuses, thens=thens, script=o.script, ops=o.ops,
                          script_mv=o.script_mv,
                          reproducible=all(st == 'Passed' for st, ln in zip(statuses, lines) if ln['ty'] != 'then')
                          and 'reproduce' not in uses or rng.random() < 0.3 and all(
                              st == 'Passed' for st, ln in zip(statuses, lines) if ln['ty'] != 'then'),
                          interp=o.interp, tables_reproduced=o.tables_reproduced))
    return scens


def feature_text(title, scens, order):
    out = ['Feature: %s' % title, '']
    for i in order:
        s = scens[i]
        out.append('  Scenario: %s' % s['name'])
        for ln in s['lines']:
            out.append('    %s %s' % (ln['kw'], ln['text']))
            if ln['table']:
                out.append('      | parameter | value |')
                for p, v in ln['table']:
                    out.append('      | %s | %s |' % (p, lit(v)))
        out.append('')
    return '\n'.join(out)


# ------------------------------------------------------------------------------------------------
# running behave
# ------------------------------------------------------------------------------------------------
REC_LOGS = []
HISTORY = []      # (statechart, feature text) of every execute_bdd call of this process, in order


def make_rec_klass():
    from sismic.clock import SimulatedClock
    from sismic.interpreter import Interpreter
    import sx

    class RecClock(SimulatedClock):
        def __init__(self, lg):
            super().__init__()
            self._lg = lg

        @property
        def time(self):
            return SimulatedClock.time.fget(self)

        @time.setter
        def time(self, new):
            old = SimulatedClock.time.fget(self)
            SimulatedClock.time.fset(self, new)
            self._lg.append(('advance', Fraction(new) - Fraction(old)))

    class RecInterp(Interpreter):
        def __init__(self, sc, **kw):
            self._lg = []
            REC_LOGS.append(self._lg)
            super().__init__(sc, clock=RecClock(self._lg), **kw)

        def queue(self, event_or_name, *rest, **parameters):
            # the argument values as they are at the time of the call (the chart may mutate them afterwards)
            self._lg.append(('queue', event_or_name if isinstance(event_or_name, str) else event_or_name.name,
                             list(copy.deepcopy(parameters).items())))
            return super().queue(event_or_name, *rest, **parameters)

        def execute(self, max_steps=-1):
            try:
                r = super().execute(max_steps)
            except Exception:
                self._lg.append(('execute', None))
                raise
            self._lg.append(('execute', [sx.macro_value(self, m) for m in r]))
            return r

    return RecInterp


def run_behave(sc, text, record, step_files=None):
    """returns (statuses by scenario name, recorded logs in execution order or None, names in order)."""
    from sismic.bdd import execute_bdd
    d = tmpdir()
    fp = os.path.join(d, 'f.feature')
    with open(fp, 'w') as f:
        f.write(text)
    outp = os.path.join(d, 'out.json')
    HISTORY.append((sc, text))
    del REC_LOGS[:]
    kw = {}
    if record:
        kw['interpreter_klass'] = make_rec_klass()
    if step_files:
        kw['step_filepaths'] = step_files
    so, se = os.dup(1), os.dup(2)
    dn = os.open(os.devnull, os.O_WRONLY)
    try:
        sys.stdout.flush()
        sys.stderr.flush()
        os.dup2(dn, 1)
        os.dup2(dn, 2)
        try:
            with time_limit(BEHAVE_LIMIT_S):
                execute_bdd(sc, [fp], behave_parameters=['-f', 'json', '-o', outp, '--no-summary', '-q'], **kw)
        finally:
            sys.stdout.flush()
            sys.stderr.flush()
            os.dup2(so, 1)
            os.dup2(se, 2)
            os.close(so)
            os.close(se)
            os.close(dn)
    except Timeout:
        return None, None, 'execute_bdd did not end within %d s (the oracle run of the same scenarios ends: every step of it ' \
                           'reaches quiescence in fewer than the screened number of macro steps)' % BEHAVE_LIMIT_S
    except BaseException as e:   # noqa
        return None, None, repr(e)
    try:
        data = json.load(open(outp))
    except Exception as e:   # noqa
        return None, None, 'no JSON output: %r' % e
    res = {}
    order = []
    for feat in data:
        for el in feat.get('elements', []):
            if el.get('type', 'scenario') != 'scenario':
                continue
            order.append(el['name'])
            res[el['name']] = [STATUS.get(s.get('result', {}).get('status'), 'Error') for s in el['steps']]
    logs = [list(l) for l in REC_LOGS] if record else None
    shutil.rmtree(d, ignore_errors=True)
    return res, logs, order


# ------------------------------------------------------------------------------------------------
# sismic.testing against the oracle (and, as tcases, against its Coq model)
# ------------------------------------------------------------------------------------------------
def testing_queries(rng, sc, block, interp):
    import sx
    from sismic import testing
    out = []
    bad = []
    names = list(sc.states)
    trans = list(sc.transitions)
    classes = []
    for i, t in enumerate(trans):
        for j in range(i + 1):
            if trans[j] == t:
                classes.append(j)
                break
    ent = {n for m in block for mi in m.steps for n in mi.entered_states}
    exi = {n for m in block for mi in m.steps for n in mi.exited_states}
    sent = [e for m in block for mi in m.steps for e in mi.sent_events]

    def first_event(m):
        for mi in m.steps:
            if mi.event:
                return mi.event
        return None
    consumed = [e for e in (first_event(m) for m in block) if e is not None]
    processed = [mi.transition for m in block for mi in m.steps if mi.transition]

    def pmatch(e, ps):
        for k, v in ps:
            cur = e.name if k == 'name' else (e.data if k == 'data' else e.data.get(k))
            if not (cur == v):
                return False
        return True
    for n in rng.sample(names, min(3, len(names))) + ['nosuch']:
        out.append((('entered', n), testing.state_is_entered(block, n), n in ent))
        out.append((('exited', n), testing.state_is_exited(block, n), n in exi))
    for pool, fn, tag in ((sent, testing.event_is_fired, 'fired'), (consumed, testing.event_is_consumed, 'consumed')):
        qs = [(None, []), (rng.choice(EVENTS), []), ('zz', [])]
        for e in rng.sample(pool, min(2, len(pool))):
            data = [(k, v) for k, v in e.data.items() if isinstance(v, (int, str, bool, type(None)))]
            qs.append((e.name, data))
            qs.append((None, data[:1]))
            if data:
                k, v = data[0]
                qs.append((e.name, [(k, 'no')]))
                qs.append((e.name, [(k, 'no'), ('name', e.name)]))      # every listed parameter must match, not just the last
                qs.append((e.name, [('name', e.name), (k, 'no')]))
                qs.append((None, [(k, 'no')] + data[1:] + [('name', e.name)]))
            qs.append((e.name, [('absent', None)]))
            qs.append((e.name, [('absent', 1)]))
        for n, ps in qs:
            exp = any((n is None or e.name == n) and pmatch(e, ps) for e in pool)
            out.append(((tag, n, ps), fn(block, n, dict(ps)), exp))
    tq = [None] + ([rng.choice(range(len(trans)))] if trans else []) + \
         [next(i for i, t in enumerate(trans) if t is p) for p in processed[:1]]
    for ti in tq:
        if ti is None:
            exp = len(processed) > 0
            got = testing.transition_is_processed(block, None)
        else:
            exp = any(classes[next(i for i, t in enumerate(trans) if t is p)] == classes[ti] for p in processed)
            got = testing.transition_is_processed(block, trans[ti])
        out.append((('processed', ti), got, exp))
    mv = [sx.macro_value(interp, m) for m in block]
    return classes, mv, out


# ------------------------------------------------------------------------------------------------
# one chart = one feature file = one behave run   (executed in a worker process)
# ------------------------------------------------------------------------------------------------
def chart_task_safe(args):
    try:
        return chart_task(args)
    except BaseException:   # noqa
        import traceback
        return dict(seed=args[0], error='worker failed', detail=traceback.format_exc()[-2000:])


def corpus_chart_task_safe(args):
    try:
        return corpus_chart_task(args)
    except BaseException:   # noqa
        import traceback
        return dict(seed=args[2], error='worker failed on corpus chart %s' % args[0], detail=traceback.format_exc()[-2000:])


def chart_task(args):
    seed, n_scen, record = args[:3]
    containers = len(args) > 3 and args[3]      # the container family (module docstring)
    sys.path.insert(0, os.path.dirname(os.path.abspath(__file__)))
    import sx
    rng = random.Random(seed)
    last = 'every candidate chart loops'
    for attempt in range(20):
        cseed = seed * 1000 + attempt
        try:
            sc = make_chart(cseed)
            if containers:
                mutabilize(random.Random(cseed + 3), sc)
            from sismic.interpreter import Interpreter
            try:
                if len(Interpreter(sc).execute(max_steps=LIMIT)) >= LIMIT:
                    continue
            except Exception:   # noqa  a chart that cannot even be initialised exercises nothing
                continue
            scens = gen_feature(random.Random(cseed + 7), sc, n_scen, containers=containers)
            break
        except Looping:
            continue
        except Exception as e:   # noqa   a generator problem, not a finding
            import traceback
            last = traceback.format_exc()
            continue
    else:
        return dict(seed=seed, error='no usable chart', detail=last)
    return run_chart(seed, cseed, sc, scens, rng, record, containers)


CONTAINER_MARK = '# c19-family: containers'


def corpus_chart_task(args):
    """a hand-written chart of the corpus (corpus/C19/*.yaml, events e0 e1 e2) under generated scenarios: same
    pipeline as a generated chart (oracle, behave, Coq model), with a run-length limit that lets one step trigger
    thousands of macro steps."""
    fn, yaml_text, seed, n_scen, record = args
    sys.path.insert(0, os.path.dirname(os.path.abspath(__file__)))
    from sismic.io import import_from_yaml
    last = None
    for attempt in range(5):
        try:
            sc = import_from_yaml(yaml_text)
            scens = gen_feature(random.Random(seed * 1000 + attempt), sc, n_scen, limit=CORPUS_LIMIT, dense=(seed % 4) < 3,
                                containers=CONTAINER_MARK in yaml_text)
            break
        except Looping:
            last = 'a step of every candidate feature needs %d macro steps or more' % CORPUS_LIMIT
        except Exception:   # noqa
            import traceback
            last = traceback.format_exc()
    else:
        return dict(seed=seed, error='corpus chart %s unusable' % fn, detail=last)
    out = run_chart(seed, '%s/%d' % (fn, seed), sc, scens, random.Random(seed), record, CONTAINER_MARK in yaml_text)
    out['corpus_chart'] = fn
    return out


def canon_ops(ops):
    """interpreter operations as comparable text: the values of a queue call by type and content (True is not 1)."""
    out = []
    for o in ops:
        if o[0] == 'queue':
            out.append('queue %s(%s)' % (o[1], ', '.join('%s=%r' % (k, v) for k, v in o[2])))
        elif o[0] == 'advance':
            out.append('advance %s' % Fraction(o[1]))
        else:
            out.append('execute')
    return out


def run_chart(seed, cseed, sc, scens, rng, record, containers=False):
    import sx
    order = list(range(len(scens)))
    rng.shuffle(order)
    text = feature_text('F%s' % cseed, scens, order)
    h0 = len(HISTORY)
    res, logs, names = run_behave(sc, text, record)
    from sismic.io import export_to_yaml
    out = dict(seed=seed, cseed=cseed, text=text, yaml=export_to_yaml(sc), states=list(sc.states), record=record,
               scens=[], behave_error=None if res is not None else names, tests=[], containers=containers)
    if res is None:
        try:
            out['preceding_features'] = [dict(chart_yaml=export_to_yaml(c_), feature_text=t_) for c_, t_ in HISTORY[:h0]]
        except Exception as e:   # noqa
            out['preceding_features'] = [dict(error=repr(e))]
        return out
    res2 = None
    if containers:
        # the same feature once more in the same process: a verdict does not depend on what was run before
        res2, _, names2 = run_behave(sc, text, False)
        if res2 is None:
            out['behave_error'] = 'second run: %s' % (names2,)
            res2 = {}
    log_by_name = {}
    if logs is not None and len(logs) == len(names):
        log_by_name = dict(zip(names, logs))
    for s in scens:
        # macro steps as serialised when they were produced (Oracle.execute), like the recorded interpreter does
        script = [(mv, e[1]) for mv, e in zip(s['script_mv'], s['script'])]
        thens = []
        for td in s['thens']:
            if td is None:
                thens.append(None)
            else:
                thens.append(dict(block=td['block_mv'], fact=td['fact'],
                                  strict=td['strict'], stale=td['stale'], given_between=td['given_between'],
                                  value_kind=td['value_kind'], longest_run=td['longest_run']))
        rl = log_by_name.get(s['name'])
        impl_macros_ok = None
        impl_ops_ok = None
        if rl is not None:
            im = [x[1] for x in rl if x[0] == 'execute']
            om = [x[0] for x in script]
            impl_macros_ok = (im == om)
            impl_ops_ok = canon_ops(rl) == canon_ops(s['ops'])
        out['scens'].append(dict(
            name=s['name'], lines=[dict(kw=l['kw'], ty=l['ty'], text=l['text'], table=l['table'], sem=l['sem'])
                                   for l in s['lines']],
            oracle_status=s['oracle_status'], behave=res.get(s['name']), script=script, thens=thens,
            ops=[(o[0],) + tuple(o[1:]) for o in s['ops']],
            rec_ops=None if rl is None else [(x[0],) if x[0] == 'execute' else x for x in rl],
            tables_reproduced=s['tables_reproduced'],
            impl_macros_ok=impl_macros_ok, impl_ops_ok=impl_ops_ok,
            behave2=None if res2 is None else res2.get(s['name']),
            literal_reuse=literal_reuse(s['lines']) if containers else None))
        # sismic.testing on the last block of this scenario
        blk = next((td['block'] for td in reversed(s['thens']) if td is not None), None)
        if blk:
            classes, mv, qs = testing_queries(rng, sc, blk, s['interp'])
            out['tests'].append(dict(classes=classes, block=mv, queries=qs))
    # a disagreement may depend on what this process ran before (state kept by the step library between runs): the
    # features run earlier by this worker go into the replay, in order
    norm = lambda b: None if b is None else ['Error' if x == 'Undefined' else x for x in b]   # noqa
    if any(norm(s['behave']) != s['oracle_status'] or s['impl_ops_ok'] is False or s['impl_macros_ok'] is False or
           (containers and norm(s['behave2']) != s['oracle_status']) for s in out['scens']):
        try:
            out['preceding_features'] = [dict(chart_yaml=export_to_yaml(c_), feature_text=t_) for c_, t_ in HISTORY[:h0]]
        except Exception as e:   # noqa
            out['preceding_features'] = [dict(error=repr(e))]
    return out


def literal_reuse(lines):
    """coverage: how often each container literal TEXT is written in a scenario (nested steps counted once)."""
    n = {}

    def walk(sem):
        if sem[0] == 'repeat':
            walk(sem[1])
        elif sem[0] in ('send', 'fired'):
            for v in params_of(sem).values():
                if is_container(v):
                    n[lit(v)] = n.get(lit(v), 0) + 1
        elif sem[0] in ('vareq', 'varne') and is_container(sem[2]):
            n[lit(sem[2])] = n.get(lit(sem[2]), 0) + 1
    for l in lines:
        walk(l['sem'])
    return n


# ------------------------------------------------------------------------------------------------
# serialisation to Coq
# ------------------------------------------------------------------------------------------------
def cs(s):
    import extract_steps
    return extract_steps.coq_string(s)


def c_pyval(v):
    if isinstance(v, bool):
        return '(VBool %s)' % cbool(v)
    if isinstance(v, int):
        return '(VInt %s)' % cz(v)
    if v is None:
        return 'VNone'
    return '(VStr %s)' % cs(str(v))


def c_table(tbl):
    return clist(tbl, lambda kv: '(%s, %s)' % (cs(kv[0]), c_pyval(kv[1])))


def c_line(l):
    return '(%s, %s, %s)' % ({'given': 'TyGiven', 'when': 'TyWhen', 'then': 'TyThen'}[l['ty']], cs(l['text']),
                             c_table(l['table']))


def c_macro(m):
    import tocoq
    return '(%s, %s)' % (cz(int(m[0])), clist(m[1], tocoq.c_micro))


def c_snap(s):
    import tocoq
    return '(mkSnap %s %s %s %s)' % (clist(s['config'], cs), cbool(s['final']), tocoq.c_ctx(s['ctx']),
                                     clist(s['evals'], lambda ev: '(%s, %s)' % (cs(ev[0]), copt(ev[1], cbool))))


def c_op(o):
    import sx
    import tocoq
    if o[0] == 'execute':
        return 'OExecute'
    if o[0] == 'advance':
        return '(OAdvance %s)' % cq(o[1])
    return '(OQueue (mkEvent External %s %s))' % (cs(o[1]), clist(o[2], lambda kv: '(%s, %s)' % (cs(kv[0]), c_pyval(kv[1]))))


def c_case(feat_name, states_name, s):
    thens = [td for td in s['thens']]
    tds = clist(thens, lambda td: '(mkTD [] None)' if td is None else
                '(mkTD %s %s)' % (clist(td['block'], c_macro), copt(td['fact'], cbool)))
    script = clist(s['script'], lambda e: '(%s, %s)' % (copt(e[0], lambda ms: clist(ms, c_macro)), c_snap(e[1])))
    beh = clist([('Error' if b == 'Undefined' else b) for b in s['behave']])
    ops = copt(s['rec_ops'] if s['rec_ops'] is not None else s['ops'], lambda l: clist(l, c_op))
    return '(mkCase %s %s %s\n   %s\n   %s\n   %s\n   %s)' % (states_name, feat_name, cs(s['name']), script, tds, beh, ops)


CASE_HEADER = '''Add LoadPath "/verif/coq/gen" as SismicGen.
From Coq Require Import QArith NArith.
From Sismic Require Import Base Chart Interp Bdd BddCorr.
From SismicGen Require Import GeneratedSteps.
From SismicProofs Require Import BddProofs.
Open Scope string_scope.
Open Scope list_scope.
'''
PATS = ['GeneratedSteps.patterns']     # Doc.patterns when the extractor could not read steps.py (fail-soft)


def write_case_file(fn, charts, ci):
    """charts: list of chart results; returns the index list [(chart idx, scenario idx)] of the cases."""
    index = []
    with open(fn, 'w') as f:
        f.write(CASE_HEADER)
        rows = []
        for ci_, ch in charts:
            f.write('Definition st_%d : list name := %s.\n' % (ci_, clist(ch['states'], cs)))
            f.write('Definition ft_%d : list tscenario := [\n%s].\n' % (ci_, ';\n'.join(
                '  (%s, %s)' % (cs(s['name']), clist(s['lines'], c_line)) for s in ch['scens'])))
            for si, s in enumerate(ch['scens']):
                if s['behave'] is None:
                    continue
                rows.append(c_case('ft_%d' % ci_, 'st_%d' % ci_, s))
                index.append((ci_, si))
        f.write('Definition cases : list bcase := [\n%s\n].\n' % ';\n'.join(rows))
        f.write('Eval vm_compute in (check_cases %s %s cases).\n' % (cbool(ci), PATS[0]))
    return index


def c_tquery(q):
    k = q[0]
    ps = lambda l: clist(l, lambda kv: '(%s, %s)' % (cs(kv[0]), c_pyval(kv[1])))   # noqa
    if k == 'entered':
        return '(QEntered %s)' % cs(q[1])
    if k == 'exited':
        return '(QExited %s)' % cs(q[1])
    if k == 'fired':
        return '(QFired %s %s)' % (copt(q[1], cs), ps(q[2]))
    if k == 'consumed':
        return '(QConsumed %s %s)' % (copt(q[1], cs), ps(q[2]))
    return '(QProcessed %s)' % copt(q[1], lambda n: '%d%%nat' % n)


def write_tcase_file(fn, tests):
    index = []
    with open(fn, 'w') as f:
        f.write(CASE_HEADER)
        rows = []
        for ti, t in enumerate(tests):
            f.write('Definition cl_%d : list nat := %s.\n' % (ti, clist(t['classes'], lambda n: '%d%%nat' % n)))
            f.write('Definition bl_%d : list macrostep := %s.\n' % (ti, clist(t['block'], c_macro)))
            for qi, (q, got, exp) in enumerate(t['queries']):
                rows.append('mkT cl_%d bl_%d %s %s' % (ti, ti, c_tquery(q), cbool(got)))
                index.append((ti, qi))
        f.write('Definition cases : list tcase := [\n%s\n].\n' % ';\n'.join(rows))
        f.write('Eval vm_compute in (check_tcases cases).\n')
    return index


# ------------------------------------------------------------------------------------------------
# matcher correspondence: the model's dispatch against behave's registry
# ------------------------------------------------------------------------------------------------
ARGS_PLAIN = ['a', 'n01', 'door open', 'x', 'floorSelected', 'E1', 's_1']
ARGS_TRICKY = ['a is not', 'is', 'x with y=1', 'a=b', '"q"', "'q'", 'a "b" c', 'X equals 3', 'a holds', 'does not', 'A',
               ' a', 'a ', 'no event', 'a is fired', 'state', '1', '{x}', 'a  b', 'seconds', 'times 3 times']
NUMS = ['0', '1', '2', '10', '007', '+5', '-3', ' 4', '0x10', '0b11', '0o7', '1.5', '2.0', '.5', '5.', '1e3', '1E-2',
        'nan', 'NAN', 'NaN', 'inf', '-inf', 'INF', 'abc', '1 2', '--1', '+-1', '1.5.2', '']


def matcher_task(arg):
    """(type, text) -> what behave selects.  Runs in a worker (imports behave's global registry)."""
    import behave.step_registry as sr
    from behave.model import Step
    import sismic.bdd.steps  # noqa  registers the predefined steps
    import extract_steps
    defs, notes = extract_steps.extract()
    try:
        from behave.matchers import ParseMatcher
        ci = not getattr(ParseMatcher, 'CASE_SENSITIVE', False)
    except Exception:   # noqa
        ci = True
    seed, reps = arg
    rng = random.Random(seed)
    texts = []

    def inst(pat, plain):
        import re
        def rep(m):
            spec = m.group(1)
            if ':' in spec:
                return rng.choice(NUMS[:5] if plain else NUMS)
            return rng.choice(ARGS_PLAIN if plain else ARGS_PLAIN + ARGS_TRICKY)
        return re.sub(r'\{([^}]*)\}', rep, pat)
    for ty, pat, fn in defs:
        for _ in range(6 * reps):
            texts.append((ty, inst(pat, True)))
        for _ in range(14 * reps):
            texts.append((ty, inst(pat, False)))
        t = inst(pat, True)
        texts.append((ty, t.upper()))
        texts.append((ty, t.capitalize()))
        texts.append((ty, t + ' '))
        texts.append((ty, ' ' + t))
        texts.append((ty, t.replace(' ', '  ', 1)))
        other = {'given': 'then', 'when': 'then', 'then': 'given'}[ty] if ty in ('given', 'when', 'then') else ty
        texts.append((other, t))
    texts += [('then', 'expression "x == 2" holds'), ('then', 'expression x == 2 holds'),
              ('then', 'expression "x holds" holds'), ('then', 'expression ""a" == "a"" holds'),
              ('when', 'I repeat "I repeat "I send event a" 2 times" 3 times'),
              ('given', 'I repeat "I wait 1 second" 0x2 times'), ('then', 'no event is fired'),
              ('then', 'event no is fired'), ('when', 'I send event a with b=c=d'), ('when', 'I frobnicate')]
    out = []
    for ty, text in texts:
        st = Step('f', 1, ty.capitalize(), ty, text)
        try:
            m = sr.registry.find_match(st)
        except Exception as e:   # noqa  (a type converter may raise)
            out.append((ty, text, ('raise', repr(e))))
            continue
        if m is None:
            out.append((ty, text, None))
        else:
            args = [(a.name, a.original) for a in m.arguments if a.name]
            out.append((ty, text, (m.func.__name__, args)))
    return dict(ci=ci, cases=out, n_defs=len(defs), notes=notes)


def write_mcase_file(fn, mres):
    cases = [c for c in mres['cases'] if not (isinstance(c[2], tuple) and c[2][0] == 'raise')]
    with open(fn, 'w') as f:
        f.write(CASE_HEADER)
        rows = []
        for ty, text, r in cases:
            impl = 'None' if r is None else '(Some (%s, %s))' % (
                cs(r[0]), clist(r[1], lambda kv: '(%s, %s)' % (cs(kv[0]), cs(kv[1]))))
            rows.append('mkM %s %s %s' % (cs(ty), cs(text), impl))
        f.write('Definition cases : list mcase := [\n%s\n].\n' % ';\n'.join(rows))
        f.write('Eval vm_compute in (check_mcases %s %s cases).\n' % (cbool(mres['ci']), PATS[0]))
    return cases


DISPATCH_V = '''Add LoadPath "/verif/coq/gen" as SismicGen.
From Sismic Require Import Base Chart Interp Bdd.
From SismicGen Require Import GeneratedSteps.
From SismicProofs Require Import BddProofs.
(* obligations regenerated on every run: the pattern list extracted from sismic/bdd/steps.py is the
   documented one, and over it every documented spelling is dispatched to the intended step *)
Lemma gen_extractor_ok : GeneratedSteps.extractor_ok = true.
Proof. vm_compute. reflexivity. Qed.
Lemma gen_patterns_ok : GeneratedSteps.patterns = Doc.patterns.
Proof. vm_compute. reflexivity. Qed.
Lemma gen_dispatch_ok : forall ci, Doc.samples_ok ci GeneratedSteps.patterns = true.
Proof. intros [|]; vm_compute; reflexivity. Qed.
'''


# ------------------------------------------------------------------------------------------------
# search for a failing input after a broken dispatch obligation
# ------------------------------------------------------------------------------------------------
SPELLING_YAML = '''statechart:
  name: spelling
  preamble: x = 1
  root state:
    name: root
    initial: a
    states:
      - name: a
        transitions:
          - target: b
            event: go
            action: send('out', v=1)
      - name: b
'''
SPELLING_FALSE = [
    'state b is entered', 'state a is not entered', 'state a is exited', 'state b is not exited', 'state b is active',
    'state a is not active', 'event out is fired', 'event out is fired with v=2', 'event go is not fired',
    'variable x equals 2', 'variable x does not equal 1', 'expression "x == 2" holds', 'expression "x == 1" does not hold',
    'statechart is in a final configuration']


def spelling_search():
    """every documented then-spelling with a FALSE assertion (nothing happened: `When I do nothing` after a
    `Given I send event go` would have moved to b; here no event is sent at all, except for the `is not`
    variants which are made false by sending `go` first).  Returns list of (scenario text) that PASSED."""
    from sismic.io import import_from_yaml
    sc = import_from_yaml(SPELLING_YAML)
    neg_need_go = {'state a is not entered', 'state b is not exited', 'state a is not active', 'event go is not fired'}
    lines = ['Feature: spelling', '']
    for i, t in enumerate(SPELLING_FALSE):
        lines.append('  Scenario: f%d' % i)
        if t in neg_need_go:
            # make the negated assertion false
            fix = {'state a is not entered': 'When I do nothing', 'state b is not exited': None,
                   'state a is not active': 'When I do nothing', 'event go is not fired': None}[t]
            if fix is None:
                continue
            lines.append('    %s' % fix)
        else:
            lines.append('    When I do nothing')
        lines.append('    Then %s' % t)
        lines.append('')
    text = '\n'.join(lines)
    res, _, _ = run_behave(sc, text, False)
    passed = []
    if res:
        for n, sts in res.items():
            if sts and sts[-1] == 'Passed':
                passed.append(n)
    return text, passed, res


# ------------------------------------------------------------------------------------------------
# main
# ------------------------------------------------------------------------------------------------
def replay_obj(ch, s, why, extra=None):
    d = dict(property=PROP, kind='bdd-scenario', why=why, chart_yaml=ch['yaml'], feature_text=ch['text'],
             scenario=s['name'], lines=s['lines'], oracle_status=s['oracle_status'], behave_status=s['behave'],
             thens=[None if td is None else dict(fact=td['fact'], strict_reading=td['strict']) for td in s['thens']],
             oracle_operations=canon_ops(s['ops']), recorded=s['rec_ops'] is not None, run_twice=bool(ch.get('containers')),
             checked_against=('Python oracle and recorded interpreter (list / dict literals are outside the literal reader of '
                              'the Coq model)' if ch.get('containers') else 'Python oracle, recorded interpreter, Coq model'),
             preceding_features=ch.get('preceding_features') or [],
             preceding_features_note='execute_bdd runs of the same worker process before this feature (the replay repeats them '
                                     'first, in the same process)',
             how_to_replay='cd /verif && ./check C19 --replay <this file>')
    if extra:
        d.update(extra)
    return d


def pool_map(fn, tasks):
    from concurrent.futures import ProcessPoolExecutor
    with ProcessPoolExecutor(max_workers=NCPU) as ex:
        return list(ex.map(fn, tasks, chunksize=1))


def load_corpus():
    out = []
    if os.path.isdir(CORPUS):
        for fn in sorted(os.listdir(CORPUS)):
            if fn.endswith('.json'):
                try:
                    out.append((fn, json.load(open(os.path.join(CORPUS, fn)))))
                except Exception as e:   # noqa
                    log('corpus file %s unreadable: %r' % (fn, e))
    return out


def load_corpus_charts():
    out = []
    if os.path.isdir(CORPUS):
        for fn in sorted(os.listdir(CORPUS)):
            if fn.endswith('.yaml'):
                out.append((fn, open(os.path.join(CORPUS, fn)).read()))
    return out


def corpus_task(item):
    """a corpus seed: chart yaml + feature text + expected statuses per scenario."""
    fn, seed = item
    from sismic.io import import_from_yaml
    sc = import_from_yaml(seed['chart_yaml'])
    res, _, names = run_behave(sc, seed['feature_text'], False)
    bad = []
    if res is None:
        return fn, [dict(scenario=None, why='behave did not run: %s' % names)], 0
    n = 0
    for name, exp in seed['expected'].items():
        n += 1
        got = res.get(name)
        if got != exp:
            bad.append(dict(scenario=name, expected=exp, got=got))
    return fn, bad, n


def cli_task(corpus):
    """the sismic-bdd command line (python -m sismic.bdd) on the corpus seeds: same statuses as expected."""
    bad, n = [], 0
    for fn, seed in corpus:
        d = tmpdir()
        yp, fp, op = os.path.join(d, 'c.yaml'), os.path.join(d, 'f.feature'), os.path.join(d, 'o.json')
        open(yp, 'w').write(seed['chart_yaml'])
        open(fp, 'w').write(seed['feature_text'])
        env = dict(os.environ, PYTHONPATH=REPO)
        try:
            subprocess.run([sys.executable, '-m', 'sismic.bdd', yp, '--features', fp, '-f', 'json', '-o', op,
                            '--no-summary', '-q'], env=env, stdout=subprocess.DEVNULL, stderr=subprocess.DEVNULL,
                           timeout=120, cwd=d)
            data = json.load(open(op))
        except Exception as e:   # noqa
            bad.append(dict(file=fn, scenario=None, why='sismic-bdd did not produce output: %r' % e))
            continue
        got = {}
        for feat in data:
            for el in feat.get('elements', []):
                got[el['name']] = [STATUS.get(st.get('result', {}).get('status'), 'Error') for st in el['steps']]
        for name, exp in seed['expected'].items():
            n += 1
            if got.get(name) != exp:
                bad.append(dict(file=fn, scenario=name, expected=exp, got=got.get(name)))
        shutil.rmtree(d, ignore_errors=True)
    return bad, n


def main(tier, seed):
    t0 = time.time()
    v = Verdict(PROP)
    sys.path.insert(0, REPO)
    dev = os.environ.get('C19_DEV') == '1'
    # ---- proof obligations
    if not dev:
        coq_build()
    own = ensure_vo()
    if dev:
        info = dict(build_ok=True, ok=True, dev=True)
    else:
        info = proof_stage(PROP, PROOF_FILES, v)
    info['own_files'] = own
    import extract_steps
    defs, notes = extract_steps.extract()
    extract_steps.write(defs, notes)
    rc, out = run(['timeout', '300', 'coqc', '-Q', 'theories', 'Sismic', '-Q', 'gen', 'SismicGen', 'gen/GeneratedSteps.v'],
                  400, cwd=COQ)
    gen_ok = rc == 0
    fallback = bool(notes)
    if fallback:
        # DESIGN 4.4: an unreadable (refactored) steps.py is no alarm by itself: the behavioural
        # correspondence runs with the documented pattern list instead of the extracted one
        PATS[0] = 'Doc.patterns'
    d = gen_dir(PROP)
    with open(os.path.join(d, 'Dispatch.v'), 'w') as f:
        f.write(DISPATCH_V)
    # ---- generation + behave runs (parallel)
    n_charts = 96 if tier == 'quick' else 960
    n_scen = 12
    tasks = [(seed * 100003 + i, n_scen, (i % 4) != 3) for i in range(n_charts)]
    # the container family (module docstring): not given to the Coq model
    n_cont = 48 if tier == 'quick' else 480
    tasks += [(seed * 100003 + 50000 + i, n_scen, (i % 4) != 3, True) for i in range(n_cont)]
    t1 = time.time()
    corpus = load_corpus()
    cc = load_corpus_charts()
    n_cc = 4 if tier == 'quick' else 16
    ctasks = [(fn, y, seed * 100 + j, 10, j % 2 == 0) for fn, y in cc for j in range(n_cc)]
    from concurrent.futures import ProcessPoolExecutor
    with ProcessPoolExecutor(max_workers=NCPU) as ex:
        fc = [ex.submit(corpus_task, c) for c in corpus]      # the corpus (regression seeds) is replayed first
        fm = ex.submit(matcher_task, (seed, 1 if tier == 'quick' else 6))
        fcli = ex.submit(cli_task, corpus)
        fcc = [ex.submit(corpus_chart_task_safe, t) for t in ctasks]   # long runs: started first
        results = list(ex.map(chart_task_safe, tasks, chunksize=1))
        results += [f.result() for f in fcc]
        try:
            mres = fm.result()
        except BaseException as e:   # noqa  e.g. behave refuses the step definitions (AmbiguousStep)
            mres = dict(ci=False, cases=[], n_defs=0, notes=[], error=repr(e))
        try:
            cli_bad, n_cli = fcli.result()
        except BaseException as e:   # noqa
            cli_bad, n_cli = [dict(file=None, scenario=None, why=repr(e))], 0
        cres = []
        for f, c in zip(fc, corpus):
            try:
                cres.append(f.result())
            except BaseException as e:   # noqa
                cres.append((c[0], [dict(scenario=None, why='corpus seed did not run: %r' % e)], 0))
    t_behave = time.time() - t1
    charts = [(i, r) for i, r in enumerate(results) if r.get('scens')]
    # ---- Coq evaluation
    files = []
    shard = 4 if tier == 'quick' else 8
    idx_of = {}
    gen_charts = [c for c in charts if not c[1].get('corpus_chart') and not c[1].get('containers')]
    for k in range(0, len(gen_charts), shard):
        fn = os.path.join(d, 'cases_%d.v' % (k // shard))
        idx_of[fn] = write_case_file(fn, gen_charts[k:k + shard], mres['ci'])
        files.append(fn)
    for c in charts:
        if c[1].get('corpus_chart') and not c[1].get('containers'):      # a case file of its own (thousands of macro steps per scenario)
            fn = os.path.join(d, 'cases_corpus_%d.v' % c[0])
            idx_of[fn] = write_case_file(fn, [c], mres['ci'])
            files.append(fn)
    tests = [t for _, r in charts for t in r['tests']]
    tfiles = []
    tshard = 120
    for k in range(0, len(tests), tshard):
        fn = os.path.join(d, 'tcases_%d.v' % (k // tshard))
        idx_of[fn] = (k, write_tcase_file(fn, tests[k:k + tshard]))
        tfiles.append(fn)
    mfile = os.path.join(d, 'mcases.v')
    mcases = write_mcase_file(mfile, mres)
    dfile = os.path.join(d, 'Dispatch.v')
    t2 = time.time()
    res = coq_eval_files(PROP, files + tfiles + [mfile] + ([] if fallback else [dfile])) if gen_ok else []
    t_coq = time.time() - t2
    by_file = {fn: (rc, out) for fn, rc, out in res}
    n_viol = 0
    # ---- corpus
    n_corpus = 0
    for fn, bad, n in cres:
        n_corpus += n
        for bi, b in enumerate(bad):
            if bi >= 2:       # one corpus file is one replay: two of its scenarios are written out, all of them are named and counted
                n_viol += 1
                continue
            if bi == 0:
                b = dict(b, all_failing_scenarios_of_this_file=[x.get('scenario') for x in bad])
            v.violation(dict(property=PROP, kind='corpus', file=os.path.join(CORPUS, fn), **b,
                             how_to_replay='cd /verif && ./check C19 --replay %s' % os.path.join(CORPUS, fn)),
                        tag=re.sub(r'[^A-Za-z0-9_]+', '_', 'c_%s_%s' % (fn[:-5], b['scenario'])))
            n_viol += 1
    coq_fail = []
    # ---- (b),(c): model and fact_b against behave
    BIT = {1: 'exact status differs (informational unless another bit is set)', 2: 'model verdict != behave verdict',
           4: 'fact_b != behave verdict', 8: 'fact_b != Python oracle', 16: 'interpreter operations differ',
           32: 'number of execute() calls differs', 64: 'feature text not decodable by the model',
           128: 'monitored trace of the model != oracle block'}
    fine_only = 0
    model_mism = []
    for fn in files:
        rc, out = by_file.get(fn, (1, 'not evaluated'))
        if rc != 0:
            coq_fail.append((fn, out[-1500:]))
            continue
        for i, code in parse_pairs(out):
            ci_, si = idx_of[fn][i]
            if code == 1:
                fine_only += 1
                continue
            model_mism.append((ci_, si, code))
    by_idx = dict(charts)
    for ci_, si, code in model_mism:
        ch, s = by_idx[ci_], by_idx[ci_]['scens'][si]
        why = '; '.join(t for b, t in BIT.items() if code & b)
        genuine = (code & 4) != 0 or s['behave'] != s['oracle_status'] or ((code & 16) != 0 and s['rec_ops'] is not None)
        v.violation(replay_obj(ch, s, 'Coq model / fact_b disagrees with behave: ' + why, dict(mask=code)),
                    tag='m%d_%d' % (ci_, si), no_input=not genuine)
        n_viol += 1
    # ---- (a): Python oracle against behave
    dist = {}
    n_cases = n_then_exec = 0
    nontrivial = set()
    usage = dict(repeat=0, reproduce=0, table=0, inline_param=0, unknown_state=0, hook_error_no_when=0,
                 given_between_whens=0, stale_block=0, stale_block_strict_reading_differs=0,
                 given_between_strict_reading_differs=0, exec_raised=0, intermediate_then=0, skipped_after_failure=0,
                 unquoted_expression=0, failing_action=0, reproduced_steps_with_table=0, raising_expression=0)
    impl_traces = 0
    impl_ops = 0
    deferred = []
    disagreements = dict(statuses=0, statuses_about_a_list_or_dict_assertion=0, false_assertion_passed=0,
                         true_assertion_not_passed=0, operations=0, second_run=0)
    cont = dict(charts=0, scenarios=0, second_runs_compared=0, steps_writing_a_list_or_dict=0,
                scenarios_writing_one_literal_text_more_than_once=0, distinct_literal_texts=set(),
                assertions_writing_a_list_or_dict=dict(true=0, false=0))
    samples = []
    value_kinds = {}
    longest_run = 0
    then_after_long_run = 0
    for ci_, ch in charts:
        cont['charts'] += 1 if ch.get('containers') else 0
        for si, s in enumerate(ch['scens']):
            if s['behave'] is None:
                v.violation(replay_obj(ch, s, 'scenario missing from behave output'), tag='a%d_%d' % (ci_, si), no_input=True)
                n_viol += 1
                continue
            n_cases += 1
            flagged = False
            if ch.get('containers'):
                cont['scenarios'] += 1
                lr = s.get('literal_reuse') or {}
                cont['distinct_literal_texts'].update(lr)
                cont['steps_writing_a_list_or_dict'] += sum(lr.values())
                cont['scenarios_writing_one_literal_text_more_than_once'] += 1 if any(n > 1 for n in lr.values()) else 0
                for l, st in zip(s['lines'], s['oracle_status']):
                    if l['ty'] == 'then':
                        if st in ('Passed', 'Failed') and writes_container(l['sem']):
                            cont['assertions_writing_a_list_or_dict']['true' if st == 'Passed' else 'false'] += 1
            # the operations the steps performed on the interpreter behave drove, with their argument values at the time
            # of the call, against the documented ones (both families; the model compares them too where it reads the feature)
            same_statuses = ['Error' if b == 'Undefined' else b for b in s['behave']] == s['oracle_status']
            if s.get('impl_ops_ok'):
                impl_ops += 1
            elif s.get('impl_ops_ok') is False and same_statuses:      # (different statuses are reported below)
                # (written after the scenarios whose verdicts differ)
                deferred.append((replay_obj(ch, s, 'queue / advance / execute operations performed on the interpreter differ from '
                                            'what the steps of the scenario say (argument values as they were at the call)',
                                            dict(recorded_operations=canon_ops(s['rec_ops']))), 'o%d_%d' % (ci_, si)))
                n_viol += 1
                flagged = True
                disagreements['operations'] += 1
            usage['reproduced_steps_with_table'] += s.get('tables_reproduced', 0)
            if s['impl_macros_ok']:
                impl_traces += 1
            elif s['impl_macros_ok'] is False and (ci_, si) not in [(a, b) for a, b, _ in model_mism] and not flagged \
                    and same_statuses:      # (with different statuses the scenario is reported just below, with its input)
                v.violation(replay_obj(ch, s, 'macro steps of the interpreter driven by behave differ from the oracle run'),
                            tag='t%d_%d' % (ci_, si), no_input=True)
                n_viol += 1
            beh = ['Error' if b == 'Undefined' else b for b in s['behave']]
            if beh != s['oracle_status']:
                if (ci_, si) not in [(a, b) for a, b, _ in model_mism]:
                    v.violation(replay_obj(ch, s, 'behave statuses differ from the Python oracle'), tag='a%d_%d' % (ci_, si))
                    n_viol += 1
                disagreements['statuses'] += 1
                for l, b_, o_ in zip(s['lines'], beh, s['oracle_status']):
                    if b_ != o_:
                        if l['ty'] == 'then':
                            disagreements['statuses_about_a_list_or_dict_assertion'] += 1 if writes_container(l['sem']) else 0
                            disagreements['false_assertion_passed'] += 1 if (b_, o_) == ('Passed', 'Failed') else 0
                            disagreements['true_assertion_not_passed'] += 1 if o_ == 'Passed' else 0
                        break
            # the same feature run a second time in the same process (container family)
            if ch.get('containers'):
                cont['second_runs_compared'] += 1
                beh2 = None if s.get('behave2') is None else ['Error' if b == 'Undefined' else b for b in s['behave2']]
                if beh2 != s['oracle_status'] and beh == s['oracle_status'] and not flagged:
                    v.violation(replay_obj(ch, s, 'statuses of a second execute_bdd run of the same feature in the same process '
                                           'differ from the Python oracle', dict(behave_status_second_run=s.get('behave2'))),
                                tag='r%d_%d' % (ci_, si))
                    n_viol += 1
                    disagreements['second_run'] += 1
            ti = 0
            texts = ' / '.join(l['text'] for l in s['lines'])
            for l, st in zip(s['lines'], s['behave']):
                sem = l['sem']
                for a in ([sem] + ([sem[1]] if sem[0] == 'repeat' else [])):
                    if a[0] in ('repeat', 'reproduce'):
                        usage[a[0]] += 1
                    if a[0] in ('send', 'fired') and a[2]:
                        usage['table'] += 1
                    if a[0] in ('send', 'fired') and a[3] is not None:
                        usage['inline_param'] += 1
                if l['ty'] != 'then':
                    if st in ('Failed', 'Error'):
                        usage['failing_action'] += 1
                    if st == 'HookError':
                        usage['exec_raised'] += 1
                    continue
                td = s['thens'][ti]
                ti += 1
                if st == 'Skipped':
                    usage['skipped_after_failure'] += 1
                    continue
                if st == 'HookError':
                    usage['hook_error_no_when'] += 1
                    continue
                n_then_exec += 1
                if ti < len(s['thens']):
                    usage['intermediate_then'] += 1
                kind = sem[0]
                if kind in ('expr', 'notexpr') and not sem[2]:
                    usage['unquoted_expression'] += 1
                if td is not None and td.get('value_kind'):
                    vk = value_kinds.setdefault(td['value_kind'], dict(true=0, false=0))
                    vk['true' if td['fact'] else 'false'] += 1
                if td is not None:
                    longest_run = max(longest_run, td.get('longest_run', 0))
                    then_after_long_run += 1 if td.get('longest_run', 0) > 1000 else 0
                if td is not None:
                    key = 'true' if td['fact'] is True else ('false' if td['fact'] is False else 'error')
                    if td['fact'] is None and len(sem) > 1 and sem[1] == 'nosuch':
                        usage['unknown_state'] += 1
                    if td['fact'] is None and kind in ('expr', 'notexpr'):
                        usage['raising_expression'] += 1
                    dist.setdefault(kind, dict(true=0, false=0, error=0))[key] += 1
                    if td['given_between']:
                        usage['given_between_whens'] += 1
                        if td['strict'] != td['fact']:
                            usage['given_between_strict_reading_differs'] += 1
                    if td['stale']:
                        usage['stale_block'] += 1
                        if td['strict'] != td['fact']:
                            usage['stale_block_strict_reading_differs'] += 1
                    if td['block']:
                        nontrivial.add((ch['cseed'], texts))
            if len(samples) < 3 and len(s['lines']) >= 3:
                samples.append(dict(chart_seed=ch['cseed'], scenario=[('%s %s' % (l['kw'], l['text']), l['table']) for l in s['lines']],
                                    behave=s['behave'], oracle=s['oracle_status']))
    for obj_, tag_ in deferred:
        v.violation(obj_, tag=tag_)
    # ---- sismic.testing
    n_t = n_t_bad = 0
    for ti, t in enumerate(tests):
        for q, got, exp in t['queries']:
            n_t += 1
            if bool(got) != bool(exp):
                n_t_bad += 1
                v.violation(dict(property=PROP, kind='testing-predicate', query=q, sismic_testing=got, oracle=exp,
                                 block=t['block'], how_to_replay='call the predicate of sismic.testing on the block'),
                            tag='p%d' % n_t)
                n_viol += 1
    t_model_bad = 0
    for fn in tfiles:
        rc, out = by_file.get(fn, (1, 'not evaluated'))
        if rc != 0:
            coq_fail.append((fn, out[-1500:]))
            continue
        base, index = idx_of[fn]
        for i, code in parse_pairs(out):
            t_model_bad += 1
            ti, qi = index[i]
            t = tests[base + ti]
            v.violation(dict(property=PROP, kind='testing-model', query=t['queries'][qi][0], sismic_testing=t['queries'][qi][1],
                             block=t['block'], broken='Coq model of sismic/testing.py disagrees with the implementation'),
                        tag='q%d' % t_model_bad, no_input=True)
            n_viol += 1
    # ---- matcher
    m_bad = []
    rc, out = by_file.get(mfile, (1, 'not evaluated'))
    if rc != 0:
        coq_fail.append((mfile, out[-1500:]))
    else:
        for i, code in parse_pairs(out):
            m_bad.append((mcases[i], code))
    for (ty, text, r), code in m_bad[:3]:
        v.violation(dict(property=PROP, kind='matcher', step_type=ty, text=text, behave_selects=r, mask=code,
                         broken='the model matcher over the extracted patterns selects something else than behave'),
                    tag='x%d' % n_viol, no_input=True)
        n_viol += 1
    if mres.get('error'):
        v.violation(dict(property=PROP, kind='steps-import', broken='the predefined steps cannot be registered with behave',
                         error=mres['error'], how_to_replay="PYTHONPATH=%s /venv/bin/python -c 'import sismic.bdd.steps'" % REPO),
                    tag='import')
        n_viol += 1
    for b in cli_bad:
        v.violation(dict(property=PROP, kind='cli', broken_or_failing='python -m sismic.bdd on a corpus seed', **b),
                    tag=re.sub(r'[^A-Za-z0-9_]+', '_', 'cli_%s' % (b.get('scenario') or 'run')))
        n_viol += 1
    # ---- dispatch obligations
    dispatch_ok = False
    rc, out = by_file.get(dfile, (1, 'not evaluated' if gen_ok else 'GeneratedSteps.v does not compile'))
    if fallback and gen_ok:
        dispatch_ok = None     # not checked: extractor could not read steps.py; see extractor_notes
    elif rc == 0:
        dispatch_ok = True
    else:
        text, passed, sres = spelling_search()
        if passed:
            v.violation(dict(property=PROP, kind='spelling', broken='dispatch obligation (gen/C19/Dispatch.v)', coq_log=out[-1500:],
                             chart_yaml=SPELLING_YAML, feature_text=text, scenarios_that_passed_a_false_assertion=passed,
                             statuses=sres, how_to_replay='cd /verif && ./check C19 --replay <this file>'), tag='dispatch')
        elif n_viol == 0:
            v.violation(dict(property=PROP, broken='dispatch obligation (gen/C19/Dispatch.v) does not check', coq_log=out[-2500:],
                             extractor_notes=notes, searched='%d generated scenarios and the %d documented then-spellings with false '
                             'assertions: none passed' % (n_cases, len(SPELLING_FALSE))), tag='dispatch', no_input=True)
        n_viol += 1
    for fn, out in coq_fail:
        v.violation(dict(property=PROP, broken='correspondence file did not evaluate', file=fn, log=out), tag='coq', no_input=True)
        n_viol += 1
    for r in results:
        if r.get('behave_error') and not r.get('scens'):
            pass
    for r in results:
        if r.get('corpus_chart') is None and str(r.get('error', '')).find('corpus chart') >= 0:
            v.violation(dict(property=PROP, broken=r['error'], detail=r.get('detail')), tag='cgen', no_input=True)
            n_viol += 1
    if len(charts) < max(1, n_charts // 2):
        v.violation(dict(property=PROP, broken='the generator produced too few usable charts (%d of %d)' % (len(charts), n_charts),
                         detail=[r.get('detail') for r in results if r.get('error')][:2]), tag='gen', no_input=True)
        n_viol += 1
    beh_err = [r for r in results if r.get('behave_error')]
    for r in beh_err[:2]:
        v.violation(dict(property=PROP, broken='execute_bdd did not run', error=r['behave_error'], feature_text=r.get('text'),
                         chart_yaml=r.get('yaml'), preceding_features=r.get('preceding_features') or []), tag='behave',
                    no_input=True)
        n_viol += 1
    if not dev and (not info.get('build_ok') or not info.get('ok') or info.get('forbidden_tokens') or own):
        if n_viol == 0:
            v.violation(dict(property=PROP, broken='proof obligations of C19_Props.v do not check', info=info), tag='proof',
                        no_input=True)
            n_viol += 1
    cov = dict(
        obligations=info.get('obligations', 0) + 3, discharged=info.get('discharged', 0) + (3 if dispatch_ok else 0),
        obligations_not_checked=(3 if dispatch_ok is None else 0),
        checker_cmd='cd /verif/coq && make && coqc props/C19_Props.v (Print Assumptions); harness/extract_steps.py; '
                    'coqc gen/GeneratedSteps.v gen/C19/Dispatch.v gen/C19/cases_*.v gen/C19/tcases_*.v gen/C19/mcases.v',
        trusted_base=TRUSTED_BASE + [
            'behave %s (Gherkin parsing, hook invocation, nested execute_steps, JSON formatter) and parse: third party, '
            'exercised end-to-end, not modelled beyond skip-after-failure / first-match / hook order' % _behave_version(),
            'Python eval of literal arguments (modelled by a literal reader on None/True/False/integers/quoted strings; '
            'scenarios that write lists / dicts are compared with the Python oracle and the recorded interpreter only)',
            'Print Assumptions: ' + ('Closed under the global context x%d' % info.get('closed', 0)
                                     if not info.get('axioms') else '; '.join(info['axioms']))],
        theorems=info.get('theorems', []),
        evaluations=n_cases + n_t + len(mcases) + n_corpus + n_cli, cli_scenarios=n_cli, distinct_nontrivial=len(nontrivial),
        rule='one evaluation = one scenario run through execute_bdd and compared step by step (oracle, Coq model, fact_b), or one '
             'sismic.testing call, or one matcher query, or one corpus scenario; non-trivial = scenario whose then step was '
             'executed on a non-empty block of macro steps; distinct = distinct (chart, scenario text)',
        scenarios=n_cases, then_steps_executed=n_then_exec, charts=len(charts), charts_discarded=len(results) - len(charts),
        assertions_by_kind=dist, usage=usage, variable_assertions_by_kind_of_current_value=value_kinds,
        corpus_charts=dict(files=[fn for fn, _ in cc], runs=len(ctasks), usable=sum(1 for _, c in charts if c.get('corpus_chart')),
                           longest_run_of_one_step_in_macro_steps=longest_run, then_steps_after_a_run_over_1000=then_after_long_run,
                           checked_against='Python oracle and Coq model (BddCorr.check_cases), like the generated charts; the '
                                           'charts marked "%s": Python oracle and recorded interpreter' % CONTAINER_MARK),
        traces_validated_against_impl=impl_traces, operations_validated_against_impl_in_python=impl_ops,
        disagreements_with_the_python_oracle=disagreements,
        container_family=dict(
            cont, distinct_literal_texts=sorted(cont['distinct_literal_texts']),
            corpus_charts=[fn for fn, y in cc if CONTAINER_MARK in y],
            what='charts that keep an event parameter in a variable, mutate it in place and send it on; list / dict literals as '
                 'values of send / fired / variable steps (inline and table), a small pool of literal texts written again and '
                 'again in a scenario, across scenarios and across the features one worker process runs',
            checked_against='Python oracle (statuses; every step text denotes a fresh value), recorded interpreter (macro steps '
                            'and queue / advance / execute operations with their values at the time of the call), a second '
                            'execute_bdd run of the same feature in the same process.  NOT the Coq model: py_literal of Bdd.v '
                            'reads None / booleans / integers / strings; a list or dict in a step text is undecodable there'),
        recorded_interpreter_runs=sum(1 for _, c in charts if c['record']), default_interpreter_runs=sum(1 for _, c in charts if not c['record']),
        testing_predicate_calls=n_t, matcher_queries=len(mcases), matcher_case_insensitive=mres['ci'],
        matcher_queries_where_behave_raised=len(mres['cases']) - len(mcases),
        extracted_step_definitions=len(defs), extractor_notes=notes, dispatch_obligations_ok=dispatch_ok,
        pattern_list_used_by_the_model=PATS[0],
        exact_status_differences_informational=fine_only, corpus_scenarios=n_corpus,
        timing=dict(behave_s=round(t_behave, 1), coq_eval_s=round(t_coq, 1)),
        samples=samples,
        corners_where_code_and_a_naive_reading_differ=[
            'block = all when steps since the then step preceding the most recent when step: a given step between two when '
            'steps does not end it (corpus/C19/given_between_whens.json), and `then; given; then` still sees the old block '
            '(corpus/C19/stale_block.json); counted above as given_between_whens / stale_block, with the number of generated '
            'assertions whose verdict would differ under the stricter reading',
            'every repeat/reproduce step performs one more execute() of its own after its nested steps (no observable effect on a quiescent interpreter)'],
        source_blobs=repo_blob_ids(['sismic/bdd/steps.py', 'sismic/bdd/environment.py', 'sismic/bdd/wrappers.py', 'sismic/testing.py']),
        proof_info={k: info.get(k) for k in ('build_ok', 'closed', 'axioms', 'forbidden_tokens', 'own_files')},
    )
    write_evidence(PROP, tier, seed, t0, cov,
                   ['the interpreter is abstract in the theorems (any queue/advance/execute/observers)',
                    'a when step precedes the first then step; asserted state names exist (hypotheses of C19_verdict)',
                    'arguments are plain: no pattern keyword inside an argument (hypothesis of C19_dispatch)',
                    'behave and parse are third party: exercised end-to-end, modelled only as far as stated in Bdd.v',
                    'clock arithmetic over rationals; generated waits are multiples of 0.5 (exact in binary floating point)'],
                   n_viol)
    return v.finish()


def _behave_version():
    try:
        import behave
        return getattr(behave, '__version__', '?')
    except Exception:   # noqa
        return '?'


# ------------------------------------------------------------------------------------------------
# replay
# ------------------------------------------------------------------------------------------------
def replay(path):
    sys.path.insert(0, REPO)
    v = Verdict(PROP)
    obj = json.load(open(path))
    from sismic.io import import_from_yaml
    if 'expected' in obj:                      # corpus seed
        fn, bad, n = corpus_task((os.path.basename(path), obj))
        for b in bad:
            print('scenario %s: expected %s, behave reports %s' % (b.get('scenario'), b.get('expected'), b.get('got')))
            v.violation(dict(property=PROP, kind='corpus', file=path, **b), tag='replay')
        if not bad:
            print('replay: %d scenarios, behave agrees with the expected statuses' % n)
        return v.finish()
    sc = import_from_yaml(obj['chart_yaml'])
    pre = [p for p in (obj.get('preceding_features') or []) if p.get('feature_text')]
    for p in pre:          # what the worker process had run before, in the same process
        run_behave(import_from_yaml(p['chart_yaml']), p['feature_text'], False)
    if pre:
        print('(%d features run first, as in the process that reported this)' % len(pre))
    res, logs, names = run_behave(sc, obj['feature_text'], bool(obj.get('recorded')))
    if res is None:
        print('behave did not run: %s' % names)
        return 2
    if obj.get('kind') == 'spelling':
        passed = [n for n, sts in res.items() if sts and sts[-1] == 'Passed']
        print('scenarios whose (false) assertion passed:', passed)
        if passed:
            v.violation(obj, tag='replay')
        return v.finish()
    # recompute the oracle from the recorded semantics
    feats = {}
    import re
    text = obj['feature_text']
    name = obj['scenario']
    got = res.get(name)
    got = None if got is None else ['Error' if b == 'Undefined' else b for b in got]
    print('scenario %s' % name)
    for l, o, g in zip(obj['lines'], obj['oracle_status'], got or []):
        print('  %-5s %-60s oracle=%-9s behave=%s' % (l['kw'], l['text'], o, g))
    bad = got != obj['oracle_status']
    if obj.get('recorded') and obj.get('oracle_operations') is not None and logs is not None and len(logs) == len(names) \
            and name in names:
        rec = canon_ops(logs[names.index(name)])
        if rec != obj['oracle_operations']:
            bad = True
            print('  operations performed on the interpreter (values at the time of the call):')
            for a, b in zip(rec + [None] * len(obj['oracle_operations']), obj['oracle_operations'] + [None] * len(rec)):
                if a is not None or b is not None:
                    print('    %-50s scenario says %s%s' % (a, b, '' if a == b else '    <-- differs'))
    if obj.get('run_twice'):
        res2, _, names2 = run_behave(sc, obj['feature_text'], False)
        got2 = None if res2 is None or res2.get(name) is None else ['Error' if b == 'Undefined' else b for b in res2[name]]
        if got2 != obj['oracle_status']:
            bad = True
            print('  second run of the feature in this process: %s' % got2)
    if bad:
        v.violation(obj, tag='replay')
    else:
        print('replay: behave agrees with the oracle on this scenario')
    return v.finish()
