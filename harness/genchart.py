"""Random statecharts built through the sismic API.

valid_chart(rng, profile) returns a Statechart that satisfies DESIGN.md section 2 (WF1-WF7), with
Python code fragments over integer context variables:
  x, y      data
  g         guard bits      (guards read bit k of g: every guard valuation is reachable)
  c         contract bits   (conditions read bit k of c: any single condition can be made to fail)
"""
from sismic.model import (BasicState, CompoundState, DeepHistoryState, FinalState, OrthogonalState,
                          ShallowHistoryState, Statechart, Transition)

EVENTS = ['e0', 'e1', 'e2']
NAMES = ['n%02d' % i for i in range(60)]
# state names of other shapes: upper/lower case (code-point order differs from case-insensitive order), digits (string order
# differs from numeric order), unicode (UTF-8 byte order = code-point order), dots / dashes / underscores, long names
VARIED = ['A', 'B', 'Z', 'a', 'b', 'z', 'AA', 'Aa', 'aA', 'a1', 'a10', 'a2', 'a02', '1', '10', '2', '02', 'n7', 'n07', 'n70',
          'Idle', 'idle', 'IDLE', 'idle.sub', 'idle-sub', 'idle_sub', 'Zeta', 'alpha', 'Alpha', '\u00e9tat', 'etat', '\u00c9tat',
          '\u03b1', '\u03a9mega', '\u65e5\u672c', '\u0436', 'x' * 40, 'x' * 41, 'y' * 64, 'on', 'off', 'yes', 'no', 'true', 'null',
          'None', 'state', 'root', 'final', 'history', 'H', 'H*', 'q.r.s', 'v2.0', 'a+b', 'a=b', 'p&q', 'k@home', 'w!']


class Profile:
    def __init__(self, **kw):
        self.max_states = 12
        self.p_orth = 0.25
        self.p_history = 0.25
        self.p_final = 0.1
        self.n_trans = (3, 12)
        self.p_guard = 0.5
        self.p_eventless = 0.2
        self.p_internal = 0.15
        self.p_action = 0.6
        self.p_send = 0.35
        self.p_notify = 0.1            # share of notify(...) among the sending statements
        self.p_contract = 0.3
        self.p_entry_code = 0.4
        self.p_time_guard = 0.1
        self.p_prio = 0.4
        self.same_source_boost = 0.3
        self.p_event_param_guard = 0.05
        self.p_active_guard = 0.12     # guards that also read the configuration through active()
        self.active_in_actions = True  # actions may read the configuration through active()
        self.use_objects = False        # context holds an object, a list and a function defined in the preamble (b, l, ok)
        self.p_failing_code = 0.08     # share of code blocks ending with a statement that raises when a bit of c is set
        self.p_event_probe = True      # entry / exit / action code may probe whether `event` is exposed to it
        self.p_brace_guard = 0.06      # guards whose text contains braces
        self.p_prefix_names = 0.08     # per chart: every state name is a proper prefix of the next one (n, n0, n00, ...)
        self.p_char_names = 0.12       # per chart: three states named by single characters occurring in the other names
        self.p_varied_names = 0.12     # per chart: state names of varied shape (unicode, long, mixed case, digits) instead of nDD
        self.p_large = 0.05            # per chart: a large statechart (up to 40 states, deeper nesting)
        self.p_cross_region = 0.0      # probability of KEEPING a transition that crosses between sibling regions (outside section 2)
        self.p_dup_transition = 0.04   # probability of declaring one transition twice (equal transitions are legal)
        self.use_k = False             # actions may update k, a variable that exists only in the initial context
        self.use_tick = True           # actions may call tick() (a callable of the initial context moving the clock)
        self.shuffle_names = True
        self.events = None            # event alphabet of the transitions (default EVENTS)
        self.p_sibling_target = 0.0   # probability that a target is a sibling of the source (stays in its region)
        self.p_root_orth = 0.15
        self.p_hist_target = 0.0      # probability that a transition targets a history state (from outside its parent)
        self.unique_source_event = False   # at most one transition per (source, event)
        self.alt = None               # (probability, Profile): alternative profile drawn per chart
        self.__dict__.update(kw)


class Gen:
    def __init__(self, rng, profile):
        self.rng = rng
        self.p = profile
        self.k_guard = 0
        self.k_cond = 0
        self.uniq = 100
        self.pool = NAMES[:12]

    def fresh_names(self, n):
        if self.rng.random() < self.p.p_varied_names:
            pool = list(VARIED)
            self.rng.shuffle(pool)
            names = pool[:max(n, 1) + 20]
            while len(names) < n + 20:
                names.append('State_number_%d_with_a_rather_long_descriptive_name' % len(names))
            self.pool = names
            return names
        if self.rng.random() < self.p.p_prefix_names:
            # names that are substrings of one another ('in' on two strings is a substring test)
            names = ['s' + ('0' * i) for i in range(max(n, 1) + 20)]
            self.rng.shuffle(names)
            self.pool = names[:12]
            return names
        names = NAMES[:max(n, 1) + 20]
        if self.p.shuffle_names:
            self.rng.shuffle(names)
        if self.rng.random() < self.p.p_char_names:
            # names that are single characters of the other names (a string is also an iterable of its characters)
            extra = self.rng.sample(['n', '0', '1', '2'], 3)
            for i, e in zip(self.rng.sample(range(min(len(names), max(n, 3))), 3), extra):
                names[i] = e
        self.pool = NAMES[:12]
        return names

    # ---------------------------------------------------------------- code fragments
    def guard(self):
        r = self.rng.random()
        k = self.k_guard % 12
        self.k_guard += 1
        base = '(g >> %d) & 1 == 1' % k
        if r < self.p.p_time_guard:
            return self.rng.choice(['after(%d)', 'idle(%d)']) % self.rng.choice([1, 2, 3, 5])
        if r < self.p.p_time_guard + 0.08:
            return base + ' and ' + self.rng.choice(['after(%d)', 'idle(%d)']) % self.rng.choice([0, 2, 4])
        if r < self.p.p_time_guard + 0.14:
            return base + ' and x %s %d' % (self.rng.choice(['<', '>=', '!=']), self.rng.randint(0, 3))
        if r < self.p.p_time_guard + 0.14 + self.p.p_active_guard:
            return base + self.rng.choice([" and not active('%s')", " and active('%s')", " or active('%s')"]) % self.rng.choice(self.pool)
        if r < self.p.p_time_guard + 0.14 + self.p.p_active_guard + self.p.p_brace_guard:
            # code text containing braces / format-like fields (it ends up inside messages and string templates)
            return self.rng.choice(['(g >> %d) & 1 in {1}', '{0: (g >> %d) & 1}[0] == 1', "'{t1}{}' != '' and (g >> %d) & 1 == 1"]) % k
        return base

    def action(self, allow_send=True):
        parts = []
        n = self.rng.choice([1, 1, 2, 3])
        for _ in range(n):
            r = self.rng.random()
            if allow_send and r < self.p.p_send:
                ev = self.rng.choice(EVENTS)
                k = self.rng.random()
                if k < 0.25:
                    parts.append("send('%s', delay=%d)" % (ev, self.rng.choice([1, 2, 3, 5])))
                elif k < 0.45:
                    # (parameter names of every documented shape: an identifier may begin with an underscore)
                    parts.append(self.rng.choice(["send('%s', v=x)", "send('%s', v=x)", "send('%s', v=x)", "send('%s', _v=x)"]) % ev)
                elif k < 0.45 + self.p.p_notify:
                    parts.append(self.rng.choice(["notify('m%d', w=y)", "notify('m%d', w=y)", "notify('m%d', time=x)", "notify('m%d', event=y, state=x)"]) % self.rng.randint(0, 1))
                else:
                    parts.append("send('%s')" % ev)
            elif r < 0.75 and self.p.use_objects and self.rng.random() < 0.3:
                parts.append(self.rng.choice(['b.v = b.v + 1', 'l.append(x)', 'b.v = x', 'ok()', 'l[0] = l[0] + 1']))
            elif r < 0.75:
                parts.append(self.rng.choice(['x = x + 1', 'y = y + x', 'x = x - 1', 'y = x', 'x = 0', 'y = y + 1'] +
                                             (['k = k + 1', 'k = k + x'] if self.p.use_k else [])))
            elif r < 0.83 and self.p.active_in_actions:
                parts.append("y = y + (1 if active('%s') else 0)" % self.rng.choice(self.pool))
            elif r < 0.86 and self.p.p_event_probe:
                # code that asks whether `event` is exposed to it (documented: to actions, not to entry / exit code)
                parts.append("try:\n    w = event is None\nexcept NameError:\n    w = 2")
            elif r < 0.9:
                parts.append('z%d = time' % self.rng.randint(0, 1))
            elif self.p.use_tick:
                parts.append('tick()')     # a callable of the initial context that moves the clock DURING the step
            else:
                parts.append('y = y + 2')
        if allow_send and self.rng.random() < self.p.p_failing_code:
            # a statement that raises (ZeroDivisionError -> CodeEvaluationError) when bit k of c is set: code can fail in the
            # middle of a block, after it has sent events
            # (placed after the statements that send and before those that change the context: the model treats a block that
            # raises as having no effect on the context, which is true of such a block)
            sends = [q for q in parts if q.startswith(('send(', 'notify('))]
            others = [q for q in parts if not q.startswith(('send(', 'notify('))]
            parts = sends + ['x = x // (1 - ((c >> %d) & 1))' % self.rng.randint(0, 13)] + others
        return '\n'.join(parts)

    def cond(self, kind, with_old=True):
        self.uniq += 1
        u = self.uniq
        k = self.k_cond % 14
        self.k_cond += 1
        base = '(c >> %d) & 1 == 0' % k
        r = self.rng.random()
        if self.p.use_objects and self.rng.random() < 0.2:
            if kind != 'pre' and with_old and self.rng.random() < 0.6:
                return self.rng.choice(['%s and (b.v >= __old__.b.v or b.v < __old__.b.v) and len(l) >= len(__old__.l) and %d == %d',
                                        '%s and (__old__.l[0] <= l[0] or __old__.l[0] > l[0]) and %d == %d']) % (base, u, u)
            return 'ok()'
        if r < 0.5:
            return '%s and %d == %d' % (base, u, u)
        if r < 0.65 and kind != 'pre' and with_old:
            return '%s and (__old__.x >= x or __old__.x < x) and %d == %d' % (base, u, u)
        if r < 0.75 and kind != 'pre':
            d = self.rng.randint(0, 3)
            return '%s and (after(%d) or not after(%d)) and %d == %d' % (base, d, d, u, u)
        if r < 0.85:
            e = self.rng.choice(EVENTS)
            return "%s and (sent('%s') or not sent('%s')) and %d == %d" % (base, e, e, u, u)
        if r < 0.92:
            return "%s and (active('%s') or time >= 0) and %d == %d" % (base, self.rng.choice(self.pool), u, u)
        return 'x >= %d or %d == %d' % (self.rng.randint(-3, 0), u, u)

    def contract_on(self, obj):
        if self.rng.random() < self.p.p_contract:
            for _ in range(self.rng.choice([0, 1, 1, 2])):
                obj.preconditions.append(self.cond('pre'))
            for _ in range(self.rng.choice([0, 1, 1, 2])):
                obj.postconditions.append(self.cond('post'))
            for _ in range(self.rng.choice([0, 1, 1, 2])):
                obj.invariants.append(self.cond('inv'))

    # ---------------------------------------------------------------- structure
    def build(self):
        rng, p = self.rng, self.p
        large = rng.random() < p.p_large
        n_target = rng.randint(25, 40) if large else rng.randint(3, p.max_states)
        max_depth = 7 if large else 4
        names = self.fresh_names(n_target + 4)
        it = iter(names)
        pre = 'x = 0\ny = 0\ng = 4095\nc = 0'
        if p.use_objects:
            pre += '\nclass Box:\n    pass\nb = Box()\nb.v = 0\nl = [0]\ndef ok():\n    return True'
        sc = Statechart('gen', preamble=pre)
        states = {}     # name -> (kind, parent)
        children = {}

        def codes():
            en = self.action() if rng.random() < p.p_entry_code else None
            ex = self.action() if rng.random() < p.p_entry_code else None
            return en, ex

        def add(kind, parent, **kw):
            nm = next(it)
            en, ex = codes()
            if kind == 'compound':
                st = CompoundState(nm, initial=None, on_entry=en, on_exit=ex)
            elif kind == 'orthogonal':
                st = OrthogonalState(nm, on_entry=en, on_exit=ex)
            elif kind == 'basic':
                st = BasicState(nm, on_entry=en, on_exit=ex)
            elif kind == 'final':
                st = FinalState(nm, on_entry=en, on_exit=ex)
            elif kind == 'shallow':
                st = ShallowHistoryState(nm, on_entry=en, on_exit=ex, memory=None)
            else:
                st = DeepHistoryState(nm, on_entry=en, on_exit=ex, memory=None)
            self.contract_on(st)
            states[nm] = (kind, parent, st)
            children[nm] = []
            if parent is not None:
                children[parent].append(nm)
            return nm

        root_kind = 'orthogonal' if rng.random() < p.p_root_orth else 'compound'
        root = add(root_kind, None)
        budget = [n_target - 1]

        def fill(nm, depth):
            kind = states[nm][0]
            if kind == 'compound':
                k = rng.randint(1, 3) if depth < max_depth else 1
                made = []
                for _ in range(k):
                    if budget[0] <= 0 and made:
                        break
                    budget[0] -= 1
                    r = rng.random()
                    if depth < max_depth and budget[0] > 1 and r < p.p_orth:
                        ck = 'orthogonal'
                    elif depth < max_depth and budget[0] > 0 and r < p.p_orth + 0.25:
                        ck = 'compound'
                    elif r > 1 - p.p_final:
                        ck = 'final'
                    else:
                        ck = 'basic'
                    made.append(add(ck, nm))
                if all(states[m][0] == 'final' for m in made):
                    budget[0] -= 1
                    made.append(add('basic', nm))
                # initial child: a non-history child (or, sometimes, the history state itself)
                hist = None
                if rng.random() < p.p_history:
                    hk = rng.choice(['shallow', 'deep'])
                    hist = add(hk, nm)
                    states[hist][2].memory = rng.choice(made)
                    if rng.random() < 0.3:       # a compound state may own both kinds
                        h2 = add('deep' if hk == 'shallow' else 'shallow', nm)
                        states[h2][2].memory = rng.choice(made)
                init = rng.choice(made)
                if hist is not None and rng.random() < 0.15:
                    init = hist
                states[nm][2].initial = init
                for m in made:
                    fill(m, depth + 1)
            elif kind == 'orthogonal':
                k = rng.randint(2, 3) if budget[0] >= 2 else max(1, budget[0])
                k = max(k, 1)
                made = []
                for _ in range(k):
                    budget[0] -= 1
                    r = rng.random()
                    if depth < max_depth and budget[0] > 0 and r < 0.55:
                        ck = 'compound'
                    elif depth < 3 and budget[0] > 1 and r < 0.65:
                        ck = 'orthogonal'
                    else:
                        ck = 'basic'
                    made.append(add(ck, nm))
                for m in made:
                    fill(m, depth + 1)

        fill(root, 1)
        # register states parents-first but siblings in random order (declaration order must not matter)
        order = [root]
        i = 0
        while i < len(order):
            ch = list(children[order[i]])
            rng.shuffle(ch)
            order.extend(ch)
            i += 1
        for nm in order:
            sc.add_state(states[nm][2], states[nm][1])
        self.states, self.children, self.root = states, children, root

        def anc(n):
            out = []
            q = states[n][1]
            while q is not None:
                out.append(q)
                q = states[q][1]
            return out

        def region_of(n, orth):
            path = [n] + anc(n)
            i = path.index(orth)
            return path[i - 1] if i > 0 else None

        def wf7(src, tgt):
            if tgt is None:
                return True
            sa, ta = [src] + anc(src), [tgt] + anc(tgt)
            for o in sa:
                if states[o][0] == 'orthogonal' and o in ta:
                    r1, r2 = region_of(src, o), region_of(tgt, o)
                    if r1 is not None and r2 is not None and r1 != r2:
                        return False
            if states[tgt][0] in ('shallow', 'deep'):
                par = states[tgt][1]
                if par in sa:
                    return False
            return True

        owners = [n for n in order if states[n][0] in ('basic', 'compound', 'orthogonal')]
        nt = rng.randint(*p.n_trans) * (3 if large else 1)
        made_t = []
        tries = 0
        while len(made_t) < nt and tries < 200:
            tries += 1
            if made_t and rng.random() < p.same_source_boost:
                src = rng.choice(made_t).source
            else:
                src = rng.choice(owners)
            hist = [n for n in order if states[n][0] in ('shallow', 'deep')]
            if hist and rng.random() < p.p_hist_target:
                tgt = rng.choice(hist)
                outside = [o for o in owners if wf7(o, tgt)]
                if not outside:
                    continue
                src = rng.choice(outside)
            elif rng.random() < p.p_internal:
                tgt = None
            elif states[src][1] is not None and rng.random() < p.p_sibling_target:
                sibs = [c for c in children[states[src][1]] if states[c][0] not in ('shallow', 'deep')]
                tgt = rng.choice(sibs)
            else:
                tgt = rng.choice(order)
            if not wf7(src, tgt):
                if not (rng.random() < p.p_cross_region and states[tgt][0] not in ('shallow', 'deep')):
                    continue
            ev = None if rng.random() < p.p_eventless else rng.choice(p.events or EVENTS)
            if p.unique_source_event and any(t.source == src and t.event == ev for t in made_t):
                continue
            guard = self.guard() if (rng.random() < p.p_guard or ev is None) else None
            if guard and ev and rng.random() < p.p_event_param_guard:
                guard = guard + ' and event.v >= 0'
            act = self.action() if rng.random() < p.p_action else None
            prio = rng.choice([-5, -1, 1, 2, 'x']) if rng.random() < p.p_prio else None
            prio = None if prio == 'x' else prio
            t = Transition(src, tgt, event=ev, guard=guard, action=act, priority=prio)
            self.contract_on(t)
            made_t.append(t)
        if made_t and rng.random() < p.p_dup_transition:
            t = rng.choice(made_t)
            d = Transition(t.source, t.target, event=t.event, guard=t.guard, action=t.action, priority=t.priority)
            d.preconditions.extend(t.preconditions)
            d.postconditions.extend(t.postconditions)
            d.invariants.extend(t.invariants)
            made_t.append(d)
        rng.shuffle(made_t)
        for t in made_t:
            sc.add_transition(t)
        return sc


def valid_chart(rng, profile=None):
    profile = profile or Profile()
    alts = profile.alt
    if alts is not None:
        if not isinstance(alts, list):
            alts = [alts]
        r = rng.random()
        for prob, alt in alts:
            if r < prob:
                return alt(rng) if callable(alt) else Gen(rng, alt).build()
            r -= prob
    return Gen(rng, profile).build()


def nested_parallel_chart(rng):
    """Hand-shaped family: an orthogonal state P whose regions contain, at different depths, another orthogonal state Q;
    several transitions on ONE event in different regions (staying, leaving their region but not the enclosing one,
    leaving everything), guards on bits.  Satisfies DESIGN.md section 2."""
    names = list(NAMES)
    rng.shuffle(names)
    it = iter(names)
    sc = Statechart('gen', preamble='x = 0\ny = 0\ng = 4095\nc = 0')
    g = Gen(rng, Profile(p_contract=0.1))
    kbit = [0]

    def guard():
        if rng.random() < 0.6:
            return None
        kbit[0] += 1
        return '(g >> %d) & 1 == 1' % (kbit[0] % 12)

    def code():
        return g.action() if rng.random() < 0.4 else None
    top = next(it)
    outside = next(it)
    P = next(it)
    sc.add_state(CompoundState(top, initial=P), None)
    decl = [(BasicState(outside, on_entry=code()), top), (OrthogonalState(P, on_entry=code(), on_exit=code()), top)]
    trans = []
    leaves_by_region = []

    def region(parent, depth, allow_q):
        """a compound region under `parent` with a chain of `depth` nested compounds ending in two basic states"""
        r = next(it)
        decl.append((CompoundState(r, on_exit=code()), parent))
        cur = r
        chain = [r]
        for _ in range(depth):
            n = next(it)
            decl.append((CompoundState(n, on_exit=code()), cur))
            chain.append(n)
            cur_parent = cur
            # a sibling basic state next to the nested compound (target for "leave the inner but stay in the region")
            sib = next(it)
            decl.append((BasicState(sib, on_entry=code()), cur_parent))
            leaves_by_region.append((r, sib, 'sib', cur_parent))
            cur = n
        if allow_q and rng.random() < 0.7:
            q = next(it)
            decl.append((OrthogonalState(q, on_exit=code()), cur))
            extra = next(it)
            decl.append((BasicState(extra), cur))
            for _ in range(rng.choice([2, 2, 3])):
                sub = next(it)
                decl.append((CompoundState(sub, on_exit=code()), q))
                a, b = next(it), next(it)
                decl.append((BasicState(a, on_exit=code()), sub))
                decl.append((BasicState(b, on_entry=code()), sub))
                trans.append((a, b))                       # stays in its region of Q
                if rng.random() < 0.7:
                    trans.append((b, a))                   # ... and back, so that the region keeps reacting
                if rng.random() < 0.7:
                    trans.append((a, extra))               # leaves Q but stays inside the region of P
                if rng.random() < 0.3:
                    trans.append((sub, b))
                if rng.random() < 0.7:
                    trans.append((extra, b))               # from outside Q into a state nested in ONE region of Q
            inits.append((cur, q))
        else:
            a, b = next(it), next(it)
            decl.append((BasicState(a, on_exit=code()), cur))
            decl.append((BasicState(b, on_entry=code()), cur))
            trans.append((a, b))
            if rng.random() < 0.7:
                trans.append((b, a))
            if rng.random() < 0.3:
                trans.append((a, outside))                 # leaves P altogether
            inits.append((cur, a))
            if rng.random() < 0.7:
                # a compound sibling with a history state, entered through the history state from outside it
                box, h, c1, c2 = next(it), next(it), next(it), next(it)
                decl.append((CompoundState(box, on_exit=code()), cur))
                decl.append((rng.choice([ShallowHistoryState, DeepHistoryState])(h, memory=c1), box))
                decl.append((BasicState(c1), box))
                decl.append((BasicState(c2, on_entry=code()), box))
                inits.append((box, c1))
                trans.extend([(a, h), (b, h), (c1, c2), (box, a)])
        for up, down in zip(chain, chain[1:]):
            inits.append((up, down))
        return r
    inits = []
    nreg = rng.choice([2, 2, 3])
    qpos = rng.randrange(nreg)
    for i in range(nreg):
        region(P, rng.choice([0, 0, 1]) if i == qpos else rng.choice([0, 1, 2, 3, 4]), i == qpos)
    by_parent = {}
    for st, parent in decl:
        by_parent.setdefault(parent, []).append(st)
    sc_states = {st.name: st for st, _ in decl}
    for cpd, ini in inits:
        if isinstance(sc_states[cpd], CompoundState) and sc_states[cpd].initial is None:
            sc_states[cpd].initial = ini
    order = [top]
    i = 0
    seen_parent = {top: None}
    while i < len(order):
        ch = list(by_parent.get(order[i], []))
        rng.shuffle(ch)
        for st in ch:
            sc.add_state(st, order[i])
            order.append(st.name)
        i += 1
    rng.shuffle(trans)
    for a, b in trans:
        t = Transition(a, b, event='e0', guard=guard(), action=code(),
                       priority=rng.choice([None, None, 1, -1]))
        sc.add_transition(t)
    sc.add_transition(Transition(outside, P, event='e1'))
    return sc


def parallel_profile(**kw):


    """Charts in which several transitions fire in ONE macro step: orthogonal-heavy, one event name, targets mostly
    inside the source's own region, few guards."""
    d = dict(p_orth=0.55, p_root_orth=0.5, max_states=14, n_trans=(6, 16), events=['e0'], p_sibling_target=0.8,
             p_guard=0.25, p_eventless=0.03, p_internal=0.2, p_history=0.15, p_final=0.03, p_contract=0.1,
             same_source_boost=0.1, p_prio=0.3, unique_source_event=True)
    d.update({k: v for k, v in kw.items()})
    d.update(kw)
    return Profile(**d)


# ------------------------------------------------------------------------------------------------------------------
# bounded-exhaustive family (DESIGN.md section 4.2): every tree shape with up to `max_states` states and every assignment of
# kinds allowed by section 2, each with a random palette of transitions.  Supports the search, is not the proof.
# ------------------------------------------------------------------------------------------------------------------
def _shapes(n):
    """all rooted ordered trees with n nodes, as nested tuples of children"""
    if n == 1:
        return [()]
    out = []

    def forests(k):
        # all ordered forests with k nodes in total
        if k == 0:
            return [()]
        res = []
        for first in range(1, k + 1):
            for t in _shapes(first):
                for rest in forests(k - first):
                    res.append((t,) + rest)
        return res
    for f in forests(n - 1):
        out.append(f)
    return out


def _kinded(shape, is_root=True, parent_kind=None):
    """all assignments of kinds to a shape that satisfy section 2; yields nested (kind, [children])"""
    kids = list(shape)
    if not kids:
        opts = ['basic']
        if not is_root and parent_kind == 'compound':
            opts += ['final', 'shallow', 'deep']
        for k in opts:
            yield (k, [])
        return
    for k in ('compound', 'orthogonal'):
        def rec(i):
            if i == len(kids):
                yield []
                return
            for c in _kinded(kids[i], False, k):
                for rest in rec(i + 1):
                    yield [c] + rest
        for cs in rec(0):
            kinds = [c[0] for c in cs]
            if k == 'orthogonal' and any(x in ('final', 'shallow', 'deep') for x in kinds):
                continue
            if k == 'compound' and all(x in ('final', 'shallow', 'deep') for x in kinds):
                continue
            if k == 'compound' and sum(1 for x in kinds if x in ('shallow', 'deep')) > 1 and len(kids) > 3:
                continue
            yield (k, cs)


def small_charts(rng, max_states=4, per_shape=2, limit=None):
    """-> list of Statecharts: every kinded shape with 2..max_states states, `per_shape` random transition palettes each"""
    trees = []
    for n in range(2, max_states + 1):
        for sh in _shapes(n):
            trees.extend(_kinded(sh))
    if limit is not None and len(trees) > limit:
        trees = rng.sample(trees, limit)
    out = []
    for tree in trees:
        for _ in range(per_shape):
            names = list(NAMES[:12])
            rng.shuffle(names)
            it = iter(names)
            sc = Statechart('gen', preamble='x = 0\ny = 0\ng = 4095\nc = 0')
            g = Gen(rng, Profile(p_contract=0.1))
            nodes = []      # (name, kind, parent)

            def build(node, parent):
                kind, kids = node
                nm = next(it)
                code = lambda: g.action() if rng.random() < 0.4 else None
                st = {'basic': BasicState, 'final': FinalState, 'orthogonal': OrthogonalState}.get(kind)
                if kind == 'compound':
                    obj = CompoundState(nm, on_entry=code(), on_exit=code())
                elif kind in ('shallow', 'deep'):
                    obj = (ShallowHistoryState if kind == 'shallow' else DeepHistoryState)(nm)
                else:
                    obj = st(nm, on_entry=code(), on_exit=code())
                sc.add_state(obj, parent)
                nodes.append((nm, kind, parent))
                names_k = [build(k_, nm) for k_ in kids]
                if kind == 'compound':
                    real = [n_ for n_, k_ in names_k if k_ not in ('shallow', 'deep')]
                    hist = [n_ for n_, k_ in names_k if k_ in ('shallow', 'deep')]
                    obj.initial = rng.choice(real + hist) if rng.random() < 0.2 and hist else rng.choice(real)
                    for h in hist:
                        sc.state_for(h).memory = rng.choice(real)
                return nm, kind
            build(tree, None)
            parent = {n_: p_ for n_, _, p_ in nodes}
            kind = {n_: k_ for n_, k_, _ in nodes}

            def anc(n_):
                res = []
                while parent[n_] is not None:
                    n_ = parent[n_]
                    res.append(n_)
                return res

            def ok(src, tgt):
                if tgt is None:
                    return True
                sa, ta = [src] + anc(src), [tgt] + anc(tgt)
                for o in sa:
                    if kind[o] == 'orthogonal' and o in ta:
                        i, j = sa.index(o), ta.index(o)
                        if i > 0 and j > 0 and sa[i - 1] != ta[j - 1]:
                            return False
                if kind[tgt] in ('shallow', 'deep') and parent[tgt] in sa:
                    return False
                return True
            owners = [n_ for n_, k_, _ in nodes if k_ in ('basic', 'compound', 'orthogonal')]
            for _k in range(rng.randint(2, 6)):
                src = rng.choice(owners)
                tgt = rng.choice([None] + [n_ for n_, _, _ in nodes])
                if not ok(src, tgt):
                    continue
                ev = rng.choice([None, 'e0', 'e0', 'e1'])
                guard = '(g >> %d) & 1 == 1' % rng.randint(0, 5) if (ev is None or rng.random() < 0.4) else None
                sc.add_transition(Transition(src, tgt, event=ev, guard=guard, action=g.action() if rng.random() < 0.4 else None,
                                             priority=rng.choice([None, None, 1, -1])))
            out.append(sc)
    return out
