"""Serialisation of captured sismic data to Coq terms of the model (Chart.v, Interp.v, World.v, Corr.v)."""
from common import cbool, clist, copt, cstr, cz


def cnat(n):
    return '%d%%nat' % int(n)


def c_value(v):
    t = v[0]
    if t == 'i':
        return '(VInt %s)' % cz(v[1])
    if t == 'b':
        return '(VBool %s)' % cbool(v[1])
    if t == 'n':
        return 'VNone'
    return '(VStr %s)' % cstr(v[1])


def c_data(d):
    return clist(d, lambda kv: '(%s, %s)' % (cstr(kv[0]), c_value(kv[1])))


def c_event(e):
    kind = {'I': 'Internal', 'E': 'External', 'M': 'Meta'}[e[0]]
    return '(mkEvent %s %s %s)' % (kind, cstr(e[1]), c_data(e[2]))


def c_oevent(e):
    return copt(e, c_event)


def c_ostr(s):
    return copt(s, cstr)


CODE_IDS = {}


def c_code(s):
    """Code fragments are opaque to the interpreter model: replace them by short stable tags."""
    if s not in CODE_IDS:
        CODE_IDS[s] = 'k%d' % len(CODE_IDS)
    return cstr(CODE_IDS[s])


def c_ocode(s):
    return copt(s, c_code)


def c_codes(l):
    return clist(l, c_code)


def c_strs(l):
    return clist(l, cstr)


def c_state(s):
    return '(mkState %s %s %s %s %s %s %s %s %s)' % (
        cstr(s['name']), s['kind'], c_ostr(s['initial']), c_ostr(s['memory']), c_ocode(s['on_entry']),
        c_ocode(s['on_exit']), c_codes(s['pre']), c_codes(s['post']), c_codes(s['inv']))


def c_trans(t):
    return '(mkTrans %s %s %s %s %s %s %s %s %s)' % (
        cstr(t['source']), c_ostr(t['target']), c_ostr(t['event']), c_ocode(t['guard']), c_ocode(t['action']),
        cz(t['priority']), c_codes(t['pre']), c_codes(t['post']), c_codes(t['inv']))


def c_chart(c):
    return '(mkChart %s %s %s\n  %s\n  %s\n  %s\n  %s)' % (
        cstr(c['name']), c_ostr(c['description']), c_ocode(c['preamble']),
        clist(c['states'], lambda kv: '(%s, %s)' % (cstr(kv[0]), c_state(kv[1]))),
        clist(c['parent'], lambda kv: '(%s, %s)' % (cstr(kv[0]), c_ostr(kv[1]))),
        clist(c['children'], lambda kv: '(%s, %s)' % (c_ostr(kv[0]), c_strs(kv[1]))),
        clist(c['transitions'], c_trans))


def c_owner(o):
    return '(OState %s)' % cstr(o[1]) if o[0] == 'S' else '(OTrans %s)' % cnat(o[1])


def c_ctx(ctx):
    return clist(ctx, lambda kv: '(%s, %s)' % (cstr(kv[0]), c_value(kv[1])))


KIND = dict(entry='CEntry', exit='CExit', action='CAction', guard='CGuard', pre='CPre', inv='CInv', post='CPost')


def c_oz(x):
    return copt(x if isinstance(x, int) else None, cz)


def c_call(s):
    return '(mkCall %s %s %s %s %s %s %s %s %s %s %s %s)' % (
        cnat(s['interp']), KIND[s['kind']], c_owner(s['owner']), cnat(s['idx']), c_ocode(s['code']),
        c_oevent(s['event']), cz(s['time']), c_strs(s['config'] or ()), c_oz(s['entry']), c_oz(s['idle']),
        c_strs(s['sent'] or ()), copt(s['old'], c_ctx))


def c_obs(c):
    if c['op'] == 'exec':
        r = c['result']
        return '(ObExec %s %s)' % (c_call(c['sig']), copt(r, lambda x: clist(x[1], c_event)))
    return '(ObEval %s %s)' % (c_call(c['sig']), copt(c['result'], cbool))


def c_table_entry(c):
    if c['op'] == 'exec':
        r = c['result']
        res = '(RExec %s)' % copt(r, lambda x: '(%s, %s)' % (c_ctx(x[0]), clist(x[1], c_event)))
    else:
        res = '(REval %s)' % copt(c['result'], cbool)
    return '(%s, %s, %s)' % (c_call(c['sig']), c_ctx(c['ctx']), res)


def c_queue(q):
    return clist(q, lambda te: '(%s, %s)' % (cz(te[0]), c_event(te[1])))


def c_istate(s):
    return '(mkIState %s %s %s %s %s %s %s %s %s %s %s %s %s)' % (
        cnat(s['id']), cbool(s['initialized']), cz(s['time']),
        clist(s['memory'], lambda kv: '(%s, %s)' % (cstr(kv[0]), c_strs(kv[1]))),
        c_strs(s['config']),
        clist(s['entry'], lambda kv: '(%s, %s)' % (cstr(kv[0]), cz(kv[1]))),
        clist(s['idle'], lambda kv: '(%s, %s)' % (cstr(kv[0]), cz(kv[1]))),
        clist(s['sent'], c_event), c_queue(s['iq']), c_queue(s['eq']), cbool(s['ignore']),
        c_ctx(s['ctx']),
        clist(s['old'], lambda kv: '(%s, %s)' % (c_owner(kv[0]), c_ctx(kv[1]))))


def c_meta(m):
    k = m[0]
    if k == 'StepStarted':
        return '(MStepStarted %s)' % cz(m[1])
    if k == 'StepEnded':
        return 'MStepEnded'
    if k in ('Consumed', 'Sent', 'DelayedSent'):
        return '(M%s %s)' % (k, c_event(m[1]))
    if k in ('Exited', 'Entered'):
        return '(M%s %s)' % (k, cstr(m[1]))
    if k == 'Processed':
        return '(MProcessed %s %s %s)' % (cstr(m[1]), c_ostr(m[2]), c_oevent(m[3]))
    return '(MUser %s %s)' % (cstr(m[1]), c_data(m[2]))


LK = dict(rec='LRec', callable='LCallable', interp='LInterp', prop='LProp')


def c_world(w, prop_chart_names):
    return '(mkWorld %s %s %s %s %s [] %s)' % (
        clist(w['listeners'], lambda kl: '(%s %s)' % (LK[kl[0]], cnat(kl[1]))),
        clist(sorted(w['logs'].items()), lambda kv: '(%s, %s)' % (cnat(kv[0]), clist(kv[1], c_meta))),
        clist(sorted(w['calls'].items()), lambda kv: '(%s, %s)' % (cnat(kv[0]), clist(kv[1], c_event))),
        clist(sorted(w['bound'].items()), lambda kv: '(%s, %s)' % (cnat(kv[0]), c_istate(kv[1]))),
        clist(sorted(w['props'].items()),
              lambda kv: '(%s, (%s, %s))' % (cnat(kv[0]), prop_chart_names[kv[1][0]], c_istate(kv[1][1]))),
        cnat(w['fuel']))


def c_micro(s):
    return '(mkMicro %s %s %s %s %s)' % (c_oevent(s['event']), copt(s['trans'], cnat), c_strs(s['entered']),
                                         c_strs(s['exited']), clist(s['sent'], c_event))


def c_err(e):
    k = e[0]
    if k in ('ENonDeterminism', 'EConflict', 'EStatechart', 'EKey', 'EAssert'):
        return k
    if k == 'EContract':
        return '(EContract %s %s %s)' % (KIND[e[1]], c_owner(e[2]), cnat(max(e[3], 0)))
    if k == 'ECode':
        return '(ECode %s %s %s)' % (KIND[e[1]], c_owner(e[2]), cnat(e[3]))
    if k == 'EProperty':
        return '(EProperty %s)' % cnat(e[1])
    return 'EFuel'   # an exception the model cannot produce: always a mismatch


def c_outcome(o):
    if o[0] == 'none':
        return 'OutNone'
    if o[0] == 'err':
        return '(OutErr %s)' % c_err(o[1])
    m = o[1]
    if m is None:
        return '(OutMacro None)'
    return '(OutMacro (Some (%s, %s)))' % (cz(m[0]), clist(m[1], c_micro))


def c_op(op):
    if op[0] == 'exec':
        return '(OpExecOnce %s)' % cz(op[1])
    return '(OpQueue %s)' % c_event(op[1])


def c_icase(case, chart_name, prop_chart_names):
    return '(mkICase %s\n %s\n %s\n %s\n %s\n %s\n %s\n %s\n %s\n %s)' % (
        chart_name, c_istate(case['pre']), c_world(case['wpre'], prop_chart_names), c_op(case['op']),
        clist(case['calls'], c_table_entry), c_outcome(case['out']), c_istate(case['post']),
        c_world(case['wpost'], prop_chart_names),
        copt(case.get('selected'), lambda l: clist(l, cnat)),
        copt(case.get('seq'), lambda l: clist(l, lambda x: copt(x, c_meta))))


CASE_HEADER = '''From Sismic Require Import Base Chart Interp World Corr.
Open Scope string_scope.
Open Scope list_scope.
'''
