"""C01 -- interpreter-family check (see icheck.py, ifam.py)."""
import os

import genchart
import icheck
import ifam

PROP = 'C01'
PROOF_FILES = [f for f in ['theories/Base.v', 'theories/Chart.v', 'theories/Interp.v', 'proofs/SortLib.v', 'proofs/C01Proofs.v'] if os.path.exists(os.path.join('/verif/coq', f))]


def main(tier, seed):
    return icheck.run(PROP, tier, seed, genchart.Profile(p_varied_names=0.3, p_guard=0.6, p_prio=0.6, same_source_boost=0.45, p_eventless=0.25, p_contract=0.1, n_trans=(5, 14), alt=[(0.2, genchart.parallel_profile(p_guard=0.6, p_prio=0.7, same_source_boost=0.45, unique_source_event=False)), (0.1, genchart.nested_parallel_chart)]), ifam.ScenarioSpec(p_queue=0.4, p_bits=0.25), icheck.interest_c01, PROOF_FILES, assumptions=['tree hypothesis Hanc (ancestors have smaller depth); guards are pure (WF8)'])


replay = icheck.replay
