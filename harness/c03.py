"""C03 -- interpreter-family check (see icheck.py, ifam.py)."""
import os

import genchart
import icheck
import ifam

PROP = 'C03'
PROOF_FILES = [f for f in ['proofs/TraceProofs.v', 'proofs/SortLib.v', 'proofs/C03Proofs.v'] if os.path.exists(os.path.join('/verif/coq', f))]


def main(tier, seed):
    return icheck.run(PROP, tier, seed, genchart.Profile(use_objects=True, p_orth=0.35, p_entry_code=0.7, p_action=0.8, p_contract=0.15, alt=[(0.3, genchart.parallel_profile(p_entry_code=0.7, p_action=0.8)), (0.3, genchart.nested_parallel_chart)]), ifam.ScenarioSpec(p_queue=0.4, p_fail_bit=0.15, p_continue=0.6), icheck.interest_c03, PROOF_FILES, assumptions=['code fragments are observed through the recording evaluator'])


replay = icheck.replay
