"""C16 -- structural editing: correspondence of Edit.v with sismic/model/statechart.py."""
import copy
import os
import random
import time

import genchart
import sx
import tocoq
from common import (COQ, Verdict, clist, coq_eval_files, copt, cstr, gen_dir, parse_pairs, proof_stage,
                    repo_blob_ids, write_evidence, TRUSTED_BASE)

PROP = 'C16'
PROOF_FILES = [f for f in ['theories/Edit.v', 'theories/EditCorr.v', 'proofs/EditProofs.v', 'proofs/EditTraceProofs.v'] if os.path.exists(os.path.join(COQ, f))]

HEADER = '''From Sismic Require Import Base Chart Edit EditCorr.
Open Scope string_scope.
Open Scope list_scope.
'''


def new_state(rng, name):
    from sismic.model import (BasicState, CompoundState, DeepHistoryState, FinalState, OrthogonalState,
                              ShallowHistoryState)
    k = rng.choice(['basic', 'basic', 'compound', 'orthogonal', 'final', 'shallow', 'deep'])
    if k == 'basic':
        return BasicState(name)
    if k == 'compound':
        return CompoundState(name)
    if k == 'orthogonal':
        return OrthogonalState(name)
    if k == 'final':
        return FinalState(name)
    if k == 'shallow':
        return ShallowHistoryState(name)
    return DeepHistoryState(name)


def state_value(s):
    return dict(name=s.name, kind=kind_of(s),
                initial=getattr(s, 'initial', None), memory=getattr(s, 'memory', None),
                on_entry=getattr(s, 'on_entry', None), on_exit=getattr(s, 'on_exit', None),
                pre=list(s.preconditions), post=list(s.postconditions), inv=list(s.invariants))


def kind_of(s):
    from sismic.model import (CompoundState, DeepHistoryState, FinalState, OrthogonalState, ShallowHistoryState)
    exact = {'ShallowHistoryState': 'KShallow', 'DeepHistoryState': 'KDeep', 'FinalState': 'KFinal',
             'OrthogonalState': 'KOrthogonal', 'CompoundState': 'KCompound', 'BasicState': 'KBasic'}.get(type(s).__name__)
    if exact:
        return exact
    if isinstance(s, DeepHistoryState):
        return 'KDeep'
    if isinstance(s, ShallowHistoryState):
        return 'KShallow'
    if isinstance(s, FinalState):
        return 'KFinal'
    if isinstance(s, OrthogonalState):
        return 'KOrthogonal'
    if isinstance(s, CompoundState):
        return 'KCompound'
    return 'KBasic'


def trans_value(t):
    return dict(source=t.source, target=t.target, event=t.event, guard=t.guard, action=t.action,
                priority=t.priority, pre=list(t.preconditions), post=list(t.postconditions), inv=list(t.invariants))


FREED = []
RETAINED = []


def lookalike(rng, t0):
    """a new transition equal to t0 in everything but one respect (its contract, guard, action or priority) - or in nothing"""
    from sismic.model import Transition
    t = Transition(t0.source, t0.target, event=t0.event, guard=t0.guard, action=t0.action, priority=t0.priority)
    t.preconditions[:] = list(t0.preconditions)
    t.postconditions[:] = list(t0.postconditions)
    t.invariants[:] = list(t0.invariants)
    k = rng.randrange(7)
    if k == 0:
        t.preconditions.append('x >= %d' % rng.randint(0, 3))
    elif k == 1:
        t.postconditions.append('y >= 0')
    elif k == 2:
        t.invariants.append('True')
    elif k == 3:
        t._guard = (t.guard or 'True') + ' and True' if hasattr(t, '_guard') else t.guard
        if not hasattr(t, '_guard'):
            t = Transition(t0.source, t0.target, event=t0.event, guard=(t0.guard or 'True') + ' and True', action=t0.action, priority=t0.priority)
    elif k == 4:
        t = Transition(t0.source, t0.target, event=t0.event, guard=t0.guard, action=(t0.action or '') + '\nx = 1', priority=t0.priority)
    elif k == 5:
        t = Transition(t0.source, t0.target, event=t0.event, guard=t0.guard, action=t0.action, priority=(t0.priority or 0) + 1)
    return t          # k == 6: an exact twin


def own_subtree(sc, n):
    """n and the states below it, read from the parent map alone"""
    if n not in sc._states:
        return []
    out, todo = [], [n]
    while todo and len(out) < 10000:
        x = todo.pop(0)
        out.append(x)
        todo.extend(c for c, p in sc._parent.items() if p == x and c not in out and c not in todo)
    return out


def random_op(rng, sc, uniq):
    """-> (description for Coq, thunk performing it on sc)"""
    from sismic.model import Transition
    names = list(sc._states.keys())
    pick = lambda: rng.choice(names) if names and rng.random() < 0.85 else 'ghost%d' % rng.randint(0, 3)
    r = rng.random()
    if r < 0.2:
        gone = [x for x in FREED if x not in sc._states]
        nm = rng.choice(gone) if gone and rng.random() < 0.25 else ('new%d' % next(uniq) if rng.random() < 0.8 else pick())
        st = new_state(rng, nm)
        kept = [o for o in RETAINED if o.name not in sc._states]
        if kept and rng.random() < 0.35:
            st = rng.choice(kept)          # cut and paste: the very object that was removed earlier is added again
        pr = rng.random()
        parent = pick() if pr < 0.8 else (None if pr < 0.93 else '')
        return ('(EAddState %s %s)' % (tocoq.c_state(state_value(st)), copt(parent, cstr)),
                lambda: sc.add_state(st, parent), 'add_state')
    if r < 0.35:
        n = pick()
        sub = own_subtree(sc, n)          # the harness's own traversal: its bookkeeping does not go through the queries under test
        FREED.extend(sub or [n])
        RETAINED.extend(sc._states[x] for x in sub if x in sc._states)
        return ('(ERemoveState %s)' % cstr(n), lambda: sc.remove_state(n), 'remove_state')
    if r < 0.5:
        o = pick()
        k = rng.random()
        gone = [x for x in FREED if x not in sc._states]
        if k < 0.3 and gone:
            n = rng.choice(gone)          # a name that existed earlier and was renamed away / removed
        else:
            n = 'ren%d' % next(uniq) if k < 0.8 else pick()
        if o in sc._states:
            FREED.append(o)
        return ('(ERenameState %s %s)' % (cstr(o), cstr(n)), lambda: sc.rename_state(o, n), 'rename_state')
    if r < 0.65:
        n, p = pick(), pick()
        return ('(EMoveState %s %s)' % (cstr(n), cstr(p)), lambda: sc.move_state(n, p), 'move_state')
    if r < 0.78:
        tg = rng.random()
        t = Transition(pick(), pick() if tg < 0.75 else (None if tg < 0.93 else ''), event=rng.choice(['e0', 'e1', None]),
                       priority=rng.choice([None, 1, -1]))
        if sc._transitions and rng.random() < 0.3:
            t = lookalike(rng, rng.choice(sc._transitions))
        return ('(EAddTransition %s)' % tocoq.c_trans(trans_value(t)), lambda: sc.add_transition(t), 'add_transition')
    if r < 0.88:
        if sc._transitions and rng.random() < 0.75:
            t = rng.choice(sc._transitions)
            if rng.random() < 0.2:
                t = lookalike(rng, t)      # an unregistered transition that differs from a registered one in a single respect
        else:
            t = Transition(pick(), None, event='unregistered%d' % next(uniq))
        return ('(ERemoveTransition %s)' % tocoq.c_trans(trans_value(t)), lambda: sc.remove_transition(t),
                'remove_transition')
    # rotate
    if sc._transitions and rng.random() < 0.85:
        i = rng.randrange(len(sc._transitions))
        t = sc._transitions[i]
    else:
        i = None
        t = Transition(pick(), None, event='unregistered%d' % next(uniq))
    k = rng.random()
    ns = pick() if k < 0.6 else ''
    k2 = rng.random()
    nt = pick() if k2 < 0.45 else (None if k2 < 0.6 else '')
    coq = '(ERotate %s %s %s)' % (copt(i, tocoq.cnat), copt(None if ns == '' else ns, cstr),
                                  'None' if nt == '' else '(Some %s)' % copt(nt, cstr))
    return (coq, lambda: sc.rotate_transition(t, new_source=ns, new_target=nt), 'rotate_transition')


from common import Timeout, time_limit  # noqa: E402


def queries(sc):
    """depth_for / ancestors_for / descendants_for of every state (... and after it)"""
    out = []
    for n in list(sc._states.keys()):
        try:
            out.append((n, sc.depth_for(n), list(sc.ancestors_for(n)), list(sc.descendants_for(n))))
        except Exception:  # noqa
            return []
    return out


def c_queries(qs):
    return clist(qs, lambda q: '(%s, (%s, (%s, %s)))' % (cstr(q[0]), tocoq.cz(q[1]) if hasattr(tocoq, 'cz') else '%d%%Z' % q[1],
                                                       clist(q[2], cstr), clist(q[3], cstr)))


def classify(e):
    from sismic.exceptions import StatechartError
    if isinstance(e, StatechartError):
        return 'EStatechartError'
    if isinstance(e, ValueError):
        return 'EValueError'
    if isinstance(e, KeyError):
        return 'EKeyError'
    return 'EOther:%r' % (e,)


def count(start=0):
    i = start
    while True:
        yield i
        i += 1


def main(tier, seed):
    t0 = time.time()
    v = Verdict(PROP)
    have_props = os.path.exists(os.path.join(COQ, 'props', '%s_Props.v' % PROP))
    info = proof_stage(PROP, PROOF_FILES, v) if have_props else dict(build_ok=True, ok=True, note='no property file')
    rng = random.Random(seed * 7907 + 16)
    target = 2000 if tier == 'quick' else 30000
    cases = []
    opmix, resmix = {}, {}
    uniq = count()
    while len(cases) < target:
        sc = genchart.valid_chart(rng, genchart.Profile(max_states=9, p_contract=0.05, p_entry_code=0.1, p_action=0.1,
                                                        p_guard=0.1))
        del FREED[:]
        del RETAINED[:]
        for _ in range(rng.randint(4, 14)):
            pre = sx.chart_value(sc)
            queries(sc)       # (as a client would: traversal queries before the edit ...)
            coq, thunk, kind = random_op(rng, sc, uniq)
            doomed = []
            if kind == 'remove_state':
                m = __import__('re').search(r'ERemoveState (.*)\)$', coq)
                nm = next((x for x in sc._states if cstr(x) == m.group(1)), None) if m else None
                if nm is not None:
                    try:
                        doomed = [sc._states[x] for x in [nm] + list(sc.descendants_for(nm))]
                    except Exception:  # noqa
                        doomed = []
            try:
                with time_limit(10):
                    thunk()
                res = 'EOk'
            except Exception as e:  # noqa
                res = classify(e)
            post = sx.chart_value(sc)
            try:
                with time_limit(10):
                    qs = queries(sc) if res in ('EOk', 'EStatechartError', 'EValueError') else []
            except Timeout:
                qs = []
                res = 'EOther:traversal of the resulting statechart does not terminate (after %s)' % res
            cases.append(dict(pre=pre, op=coq, res=res, post=post, kind=kind, queries=qs,
                              removed=[state_value(o) for o in doomed] if res == 'EOk' else []))
            opmix[kind] = opmix.get(kind, 0) + 1
            resmix[res.split(':')[0]] = resmix.get(res.split(':')[0], 0) + 1
            if res.startswith('EKey') or res.startswith('EOther'):
                break      # the chart is corrupted, start a new one
    d = gen_dir(PROP)
    files = []
    shard = 130
    for s in range(0, len(cases), shard):
        fn = '%s/cases_%d.v' % (d, s // shard)
        with open(fn, 'w') as f:
            f.write(HEADER)
            f.write('Definition cases : list ecase := [\n')
            f.write(';\n'.join('(mkECase %s\n %s %s\n %s\n %s\n %s)' % (
                tocoq.c_chart(c['pre']), c['op'], c['res'] if not c['res'].startswith('EOther') else 'EKeyError',
                tocoq.c_chart(c['post']), clist(c['removed'], tocoq.c_state), c_queries(c['queries'])) for c in cases[s:s + shard]))
            f.write('\n].\nEval vm_compute in (check_ecases cases).\n')
        files.append(fn)
    res = coq_eval_files(PROP, files)
    n_viol = 0
    clauses = {}
    for k, (fn, rc, out) in enumerate(res):
        if rc != 0:
            v.violation(dict(property=PROP, broken='correspondence file did not evaluate', file=fn, log=out[-2000:]),
                        tag='coq', no_input=True)
            n_viol += 1
            continue
        for i, m in parse_pairs(out):
            c = cases[k * shard + i]
            if c['res'].startswith('EOther'):
                m |= 1
            clause = []
            if m & 8:
                clause.append('the edit raised %s but changed the statechart (C16_atomic)' % c['res'])
            if m & 4:
                clause.append('a successful edit of a sound statechart left it unsound (C16_preserve)')
            if m & 32:
                clause.append('remove_state left the removed state objects with other initial/memory values than the documented recursion (children first, each removal resets the references to the removed state) (C16_effect_remove_state)')
            if m & 16:
                clause.append('depth_for/ancestors_for/descendants_for after the edit are not those of the resulting statechart (C16_effect)')
            if m & 3 and not clause:
                clause.append('outcome or resulting statechart differs from the documented effect (C16_effect): '
                              'result %s' % c['res'])
            cl = '; '.join(clause)
            clauses[cl.split(':')[0]] = clauses.get(cl.split(':')[0], 0) + 1
            v.violation(dict(property=PROP, clause=cl, operation=c['op'], kind=c['kind'], implementation_result=c['res'],
                             chart_before=c['pre'], chart_after=c['post'], mismatch_bits=m,
                             how_to_replay='./check C16 --replay <this file>'), tag=str(k * shard + i))
            n_viol += 1
    if not info.get('build_ok') or not info.get('ok') or info.get('forbidden_tokens'):
        if n_viol == 0:
            v.violation(dict(property=PROP, broken='proof obligations do not check', info=info), tag='proof', no_input=True)
            n_viol += 1
    distinct = len({(repr(c['pre']), c['op']) for c in cases})
    cov = dict(
        obligations=info.get('obligations', 0), discharged=info.get('discharged', 0),
        checker_cmd='cd /verif/coq && make && coqc props/C16_Props.v (Print Assumptions); coqc gen/C16/cases_*.v',
        trusted_base=TRUSTED_BASE + ['Print Assumptions: ' + (
            'Closed under the global context x%d' % info.get('closed', 0) if not info.get('axioms') else '; '.join(info['axioms']))],
        theorems=info.get('theorems', []),
        evaluations=len(cases), distinct_nontrivial=distinct,
        rule='random edit sequences (valid and invalid arguments) on generated charts; each case is one call, the '
             'complete statechart (dictionary orders included) is compared with the model after the call; soundness and '
             'atomicity checkers run on the implementation\'s result; distinct = distinct (chart, operation)',
        traces_validated_against_impl=len(cases), op_mix=opmix, result_mix=resmix,
        mismatch_clauses=clauses,
        samples=[dict(operation=c['op'], result=c['res'], states_before=[n for n, _ in c['pre']['states']],
                      states_after=[n for n, _ in c['post']['states']]) for c in cases[:3]],
        source_blobs=repo_blob_ids(['sismic/model/statechart.py', 'sismic/model/elements.py']),
        proof_info={k: info.get(k) for k in ('build_ok', 'ok', 'closed', 'axioms', 'forbidden_tokens', 'note', 'coqchk')})
    write_evidence(PROP, tier, seed, t0, cov,
                   ['transitions are referred to by index (identity of equal-but-distinct Transition objects is not modelled)',
                    'state names are strings (name None not modelled)'], n_viol)
    return v.finish()


def replay(path):
    import json
    import icheck
    return icheck.replay(path)
