"""C08 -- interpreter-family check (see icheck.py, ifam.py)."""
import os

import genchart
import icheck
import ifam

PROP = 'C08'
PROOF_FILES = [f for f in ['proofs/TraceProofs.v'] if os.path.exists(os.path.join('/verif/coq', f))]


def main(tier, seed):
    return icheck.run(PROP, tier, seed, genchart.Profile(p_contract=0.7, p_entry_code=0.5, use_objects=True), ifam.ScenarioSpec(p_queue=0.4, p_bits=0.3, p_fail_bit=0.5), icheck.interest_c08, PROOF_FILES, assumptions=['conditions are side-effect free (WF8)'])


replay = icheck.replay
