"""Metamorphic machinery on the real implementation: rebuilding a chart in another declaration order /
under a renaming, and running several interpreters in lock-step on the same inputs."""
import sx


def rebuild(cv, rng=None, rho=None, shuffle=True):
    """Build a Statechart through the API from a chart value; siblings and transitions are declared in a
    shuffled order; rho (dict) renames states."""
    from sismic.model import (BasicState, CompoundState, DeepHistoryState, FinalState, OrthogonalState,
                              ShallowHistoryState, Statechart, Transition)
    r = (lambda n: n if n is None else rho.get(n, n)) if rho else (lambda n: n)
    sc = Statechart(cv['name'], description=cv['description'], preamble=cv['preamble'])
    states = dict(cv['states'])
    parent = dict(cv['parent'])
    children = {}
    root = None
    for n, p in cv['parent']:
        if p is None:
            root = n
        else:
            children.setdefault(p, []).append(n)
    order = [root]
    i = 0
    while i < len(order):
        ch = list(children.get(order[i], []))
        if shuffle and rng is not None:
            rng.shuffle(ch)
        order.extend(ch)
        i += 1
    klass = dict(KBasic=BasicState, KCompound=CompoundState, KOrthogonal=OrthogonalState, KFinal=FinalState,
                 KShallow=ShallowHistoryState, KDeep=DeepHistoryState)
    for n in order:
        s = states[n]
        k = s['kind']
        if k == 'KCompound':
            st = CompoundState(r(n), initial=r(s['initial']), on_entry=s['on_entry'], on_exit=s['on_exit'])
        elif k in ('KShallow', 'KDeep'):
            st = klass[k](r(n), on_entry=s['on_entry'], on_exit=s['on_exit'], memory=r(s['memory']))
        else:
            st = klass[k](r(n), on_entry=s['on_entry'], on_exit=s['on_exit'])
        st.preconditions.extend(s['pre'])
        st.postconditions.extend(s['post'])
        st.invariants.extend(s['inv'])
        sc.add_state(st, r(parent[n]))
    ts = list(cv['transitions'])
    if shuffle and rng is not None:
        rng.shuffle(ts)
    for t in ts:
        tr = Transition(r(t['source']), r(t['target']), event=t['event'], guard=t['guard'], action=t['action'],
                        priority=t['priority'])
        tr.preconditions.extend(t['pre'])
        tr.postconditions.extend(t['post'])
        tr.invariants.extend(t['inv'])
        sc.add_transition(tr)
    return sc


def trans_record(scn, idx, inv=None):
    t = scn.interp._statechart._transitions[idx]
    f = (lambda n: n if n is None else inv.get(n, n)) if inv else (lambda n: n)
    return (f(t.source), f(t.target), t.event, t.guard, t.action, t.priority, tuple(t.preconditions),
            tuple(t.postconditions), tuple(t.invariants))


def norm_case(scn, case, inv=None):
    """Outcome + observable state of one execute_once, independent of declaration order; names are mapped back
    through inv (new name -> old name) when the chart was renamed."""
    f = (lambda n: inv.get(n, n)) if inv else (lambda n: n)
    o = case['out']
    if o[0] == 'err':
        e = o[1]
        if e[0] == 'ECode' and e[1] == 'guard':
            # WHICH of several erring guards of one state errs first follows the declaration order (C07_guard_error_owner_refuted:
            # proved of the model, accepted by the property: "the same kind of error at the same step")
            out = ('err', e[0], e[1])
        elif e[0] in ('EContract', 'ECode'):
            owner = e[2]
            owner = ('S', f(owner[1])) if owner[0] == 'S' else ('T', trans_record(scn, owner[1], inv) if owner[1] >= 0 else None)
            out = ('err', e[0], e[1], owner, e[3])
        else:
            out = ('err', e[0])
    elif o[0] == 'macro' and o[1] is not None:
        out = ('macro', o[1][0], tuple(
            (s['event'], None if s['trans'] is None else trans_record(scn, s['trans'], inv),
             tuple(f(n) for n in s['entered']), tuple(f(n) for n in s['exited']), s['sent']) for s in o[1][1]))
    else:
        out = o
    post = case['post']
    return (out, tuple(sorted(f(n) for n in post['config'])), post['ctx'], post['iq'], post['eq'],
            tuple(sorted((f(k), tuple(sorted(f(x) for x in v))) for k, v in post['memory'])), post['time'])


def apply_op(scn, op):
    """op: ('clock', d) | ('bits', g) | ('cbits', c) | ('queue', name, data) | ('exec',) -> case or None"""
    from sismic.model import Event
    k = op[0]
    if k == 'clock':
        scn.clock.time += op[1]
    elif k == 'bits':
        scn.interp._evaluator._context['g'] = op[1]
    elif k == 'cbits':
        scn.interp._evaluator._context['c'] = op[1]
    elif k == 'queue':
        scn.interp.queue(Event(op[1], **dict(op[2])))
    elif k in ('carry_on', 'swap'):
        pass          # corpus script operations about listeners: no effect where there are none
    else:
        return scn.step_case(('exec',))
    return None


def random_op(rng, fail_bits=False, names=None):
    import ifam
    r = rng.random()
    if r < 0.15:
        return ('clock', rng.choice([1, 2, 3, 5]))
    if r < 0.28:
        return ('bits', rng.getrandbits(12))
    if fail_bits and r < 0.33:
        return ('cbits', rng.choice([0, 0, 1 << rng.randint(0, 13)]))
    if r < 0.6:
        e = ifam.make_event(rng, names)
        return ('queue', e.name, tuple(sorted(e.data.items())))
    return ('exec',)


def lockstep(scenarios, invs, rng, n_ops, fail_bits=False):
    """Run all scenarios on the same random script. Returns None or a description of the first difference."""
    script = []
    for k in range(n_ops):
        op = random_op(rng, fail_bits)
        script.append(op)
        res = [apply_op(s, op) for s in scenarios]
        if res[0] is None:
            continue
        norms = [norm_case(s, c, inv) for s, c, inv in zip(scenarios, res, invs)]
        for j in range(1, len(norms)):
            if norms[j] != norms[0]:
                return dict(script=script, at=k, variant=j, reference=norms[0], other=norms[j])
        if res[0]['out'][0] == 'err':
            break
    return None
