"""Fail-soft AST extractor for sismic/bdd/steps.py  (DESIGN.md section 4.4).

Reads the step decorators of every top-level function of /repo/sismic/bdd/steps.py and writes
/verif/coq/gen/GeneratedSteps.v with the list of (step_type, pattern text, function name) in
REGISTRATION order: functions top to bottom, the decorators of one function bottom-up (the
decorator closest to the `def` is applied -- hence registered -- first).

Fail-soft: anything the extractor does not understand is reported in `notes` and makes
`extractor_ok = false`; it never raises.  The behavioural correspondence of c19.py does not depend
on it (the matcher correspondence does: it falls back to what it could extract).
"""
import ast
import os

STEPS_PY = os.path.join(os.environ.get('VERIF_REPO', '/repo'), 'sismic/bdd/steps.py')
OUT = '/verif/coq/gen/GeneratedSteps.v'
DECORATORS = ('given', 'when', 'then', 'step')


def coq_string(s):
    """Coq string literal; non printable / non ASCII bytes via Base.bs."""
    b = s.encode('utf-8')
    if all(32 <= c < 127 for c in b):
        return '"%s"' % s.replace('"', '""')
    return '(bs [%s]%%N)' % ';'.join(str(c) for c in b)


def extract(path=STEPS_PY):
    """Returns (defs, notes); defs = [(step_type, pattern, function name)] in registration order."""
    defs, notes = [], []
    try:
        tree = ast.parse(open(path, encoding='utf-8').read())
    except Exception as e:   # noqa
        return [], ['cannot parse %s: %r' % (path, e)]
    aliases = {d: d for d in DECORATORS}
    for node in tree.body:
        if isinstance(node, ast.ImportFrom) and node.module and node.module.split('.')[0] == 'behave':
            for a in node.names:
                if a.name in DECORATORS:
                    aliases[a.asname or a.name] = a.name
        if not isinstance(node, (ast.FunctionDef, ast.AsyncFunctionDef)):
            if isinstance(node, (ast.For, ast.While, ast.If, ast.With, ast.Try)):
                notes.append('line %d: top-level control flow is not analysed' % node.lineno)
            continue
        for dec in reversed(node.decorator_list):
            try:
                if not isinstance(dec, ast.Call):
                    notes.append('line %d: decorator is not a call' % dec.lineno)
                    continue
                f = dec.func
                nm = f.id if isinstance(f, ast.Name) else (f.attr if isinstance(f, ast.Attribute) else None)
                nm = aliases.get(nm)
                if nm is None:
                    notes.append('line %d: unknown decorator' % dec.lineno)
                    continue
                if len(dec.args) != 1 or dec.keywords or not isinstance(dec.args[0], ast.Constant) \
                        or not isinstance(dec.args[0].value, str):
                    notes.append('line %d: pattern is not a single string literal' % dec.lineno)
                    continue
                defs.append((nm, dec.args[0].value, node.name))
            except Exception as e:   # noqa
                notes.append('line %d: %r' % (getattr(dec, 'lineno', 0), e))
    if not defs:
        notes.append('no step definition found')
    return defs, notes


def write(defs, notes, out=OUT):
    os.makedirs(os.path.dirname(out), exist_ok=True)
    lines = ['(* GENERATED on every run by harness/extract_steps.py from %s -- do not edit *)' % STEPS_PY,
             'From Sismic Require Import Base Bdd.', 'Open Scope string_scope.', 'Open Scope list_scope.', '',
             'Definition extractor_ok : bool := %s.' % ('false' if notes else 'true'), '']
    for n in notes:
        lines.append('(* note: %s *)' % n.replace('*)', '* )'))
    lines.append('Definition patterns : list stepdef := [')
    lines.append(';\n'.join('  (%s, %s, %s)' % (coq_string(t), coq_string(p), coq_string(f)) for t, p, f in defs))
    lines.append('].')
    tmp = out + '.tmp%d' % os.getpid()
    with open(tmp, 'w') as f:
        f.write('\n'.join(lines) + '\n')
    os.replace(tmp, out)
    return out


def main():
    defs, notes = extract()
    p = write(defs, notes)
    print(p, len(defs), 'definitions', 'notes:', notes)


if __name__ == '__main__':
    main()
