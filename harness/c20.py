"""C20 -- AsyncRunner: schedules replayed on REAL threads of the real AsyncRunner/Interpreter, compared
with the two-thread LTS of coq/theories/Runner.v (vm_compute), Pb_C20 evaluated on the implementation's
history, known-finding attribution for the stale-bisect-index race of _queue_event.

Nothing in /repo is touched: gating is done by subclasses created in this process (hook methods,
threading.Event / Thread / SimulatedClock subclasses put in place of the runner's own objects) and by a
sys.settrace line gate on the `queue.insert(` line of Interpreter._queue_event (located by searching the
source text at run time); fallback when the line gate cannot be installed: a list subclass whose insert()
is gated.

Pacing (`interval` > 0): the names through which the module of AsyncRunner reaches the wall clock (the `time`
module, or time()/monotonic()/perf_counter()/sleep() imported by name) are rebound IN THIS PROCESS to scripted
ones that act on a virtual wall clock when called on a gated runner thread (and are the real ones anywhere
else): a case may carry `interval` (strictly positive values included) and `costs` (durations spent, in
turn, by before_execute / execute_once / after_execute on the runner thread: slow hooks, slow actions), so
that cycles which overrun the interval are replayed deterministically and without any real waiting.  The
scripted sleep() refuses what the real one refuses (it hands every non-positive / non-finite / non-numeric
argument to the real time.sleep).  The wall clock is thread-local to the runner and is not part of the LTS:
the model trace required of a paced case is the one of the same case with interval 0.  A runner thread that
ends with an exception is recorded and reported as such (events left unconsumed, after_run not run, thread
dead although the statechart is not final show up in the failing clauses)."""
import inspect
import itertools
import json
import math
import os
import random
import re
import subprocess
import sys
import threading
import time

from common import (COQ, COQ_FLAGS, REPO, TRUSTED_BASE, Verdict, cbool, clist, coq_eval_files, copt, cz, gen_dir,
                    load_known_findings, log, parse_pairs, proof_stage, repo_blob_ids, run, write_evidence)

PROP = 'C20'
PROOF_FILES = ['theories/Runner.v', 'proofs/RunnerProofs.v']
KNOWN_ID = 'C20-stale-bisect-index'
CORPUS = '/verif/corpus/C20'

R, C = 'R', 'C'          # thread ids of the schedule (runner, client 0)
_REAL_TIME = time
CHARTS = ('plain', 'fin', 'initfinal')


# ------------------------------------------------------------------------------------------------
# statechart family
# ------------------------------------------------------------------------------------------------
def make_chart(kind):
    from sismic.model import Statechart, CompoundState, BasicState, FinalState, Transition
    sc = Statechart('c20_' + kind)
    if kind == 'initfinal':
        sc.add_state(CompoundState('root', initial='f'), None)
        sc.add_state(FinalState('f'), 'root')
    else:
        sc.add_state(CompoundState('root', initial='s'), None)
        sc.add_state(BasicState('s'), 'root')
        if kind == 'fin':
            sc.add_state(FinalState('f'), 'root')
            sc.add_transition(Transition('s', 'f', event='fin'))
    return sc


# ------------------------------------------------------------------------------------------------
# thread control: one thread runs at a time, from one gate to the next
# ------------------------------------------------------------------------------------------------
class Stuck(Exception):
    pass


class TState:
    def __init__(self):
        self.status = 'new'      # new | running | parked | inprim | exiting | dead
        self.kind = None
        self.sem = threading.Semaphore(0)
        self.released = None     # for inprim: callable -> True when the primitive will return
        self.thread = None


class Wall:
    """virtual wall clock of one runner thread (only that thread touches it)."""
    READ = 2.0 ** -16        # a reading of the clock is not free

    def __init__(self, interval, costs, real):
        self.interval = interval
        self.costs = list(costs or [])
        self.k = 0
        self.now = 1000.0
        self.real = real         # True: no scripted time functions in place, durations are really slept (scaled)
        self.scale = 1.0
        self.cycle_start = None
        self.cycles = 0
        self.overruns = 0        # cycles (before_execute .. after_execute) longer than the interval
        self.sleeps = 0

    def spend(self):
        if not self.costs:
            return
        c = self.costs[self.k % len(self.costs)]
        self.k += 1
        self.now += c
        if self.real and c > 0:
            _REAL_TIME.sleep(c * self.scale)

    def begin_cycle(self):
        self.cycle_start = self.now
        self.cycles += 1

    def end_cycle(self):
        if self.cycle_start is not None and self.interval > 0 and self.now - self.cycle_start >= self.interval:
            self.overruns += 1
        self.cycle_start = None


class Ctl:
    def __init__(self, stuck_timeout=10.0):
        self.wall = None
        self.runner_exception = None
        self.cv = threading.Condition()
        self.th = {R: TState(), C: TState()}
        self.by_ident = {}
        self.log = []            # raw history entries, in global order
        self.free = False        # True: gates are open (cleanup / ungated runs)
        self.stuck_timeout = stuck_timeout
        self.pending_call = None
        self.blocked_checks = 0  # number of times a thread was found blocked in a real primitive

    # -- called by controlled threads --------------------------------------------------------
    def me(self):
        return self.by_ident.get(threading.get_ident())

    def register(self, tid):
        self.by_ident[threading.get_ident()] = tid

    def gate(self, kind):
        tid = self.me()
        if tid is None or self.free:
            return
        st = self.th[tid]
        with self.cv:
            st.status = 'parked'
            st.kind = kind
            self.cv.notify_all()
        st.sem.acquire()

    def enter_prim(self, released):
        tid = self.me()
        if tid is None:
            return
        st = self.th[tid]
        with self.cv:
            st.released = released
            st.status = 'inprim'
            self.cv.notify_all()

    def exit_prim(self):
        tid = self.me()
        if tid is None:
            return
        with self.cv:
            self.th[tid].status = 'running'

    def rlog(self, *entry):
        """history entry of the current thread; a client entry is preceded by the deferred `call`."""
        tid = self.me()
        if tid == C and self.pending_call is not None:
            self.log.append((C, 'call', self.pending_call))
            self.pending_call = None
        self.log.append((tid,) + entry)

    # -- called by the scheduler (main thread) -------------------------------------------------
    def quiescent(self):
        """wait until every controlled thread is parked at a gate, blocked in a real primitive that
        cannot return now, or has ended."""
        deadline = time.time() + self.stuck_timeout
        with self.cv:
            while True:
                ok = True
                for tid, st in self.th.items():
                    if st.status in ('running', 'exiting'):
                        if st.status == 'exiting' and st.thread is not None and \
                                not threading.Thread.is_alive(st.thread):
                            st.status = 'dead'
                        else:
                            ok = False
                    elif st.status == 'inprim':
                        if st.released():
                            ok = False       # it is about to come back
                if ok:
                    return
                if time.time() > deadline:
                    raise Stuck('threads did not become quiescent: ' +
                                repr({t: (s.status, s.kind) for t, s in self.th.items()}))
                self.cv.wait(0.0005)

    def enabled(self, tid):
        return self.th[tid].status == 'parked'

    def turn(self, tid):
        st = self.th[tid]
        if st.status != 'parked':
            if st.status == 'inprim':
                self.blocked_checks += 1
            self.log.append(('skip', tid))
            return False
        with self.cv:
            st.status = 'running'
        st.sem.release()
        self.quiescent()
        return True

    def open_gates(self):
        self.free = True
        for st in self.th.values():
            for _ in range(50):
                st.sem.release()


def make_classes():
    """Subclasses of the real classes (built lazily so that /repo is imported from PYTHONPATH)."""
    from sismic.interpreter import Interpreter
    from sismic.runner import AsyncRunner
    from sismic.clock import SimulatedClock

    class GEvent(threading.Event):
        def __init__(self, ctl, name):
            super().__init__()
            self.ctl, self.name = ctl, name

        def wait(self, timeout=None):
            ctl = self.ctl
            if ctl.me() is None or ctl.free:
                return super().wait(timeout)
            ctl.gate(self.name + '.wait')
            ctl.rlog(self.name + '.wait', threading.Event.is_set(self))
            ctl.enter_prim(lambda: threading.Event.is_set(self) or ctl.free)
            try:
                return super().wait(timeout)
            finally:
                ctl.exit_prim()

        def is_set(self):
            ctl = self.ctl
            if ctl.me() is None or ctl.free:
                return super().is_set()
            ctl.gate(self.name + '.is_set')
            b = super().is_set()
            ctl.rlog(self.name + '.is_set', b)
            return b

        def set(self):
            ctl = self.ctl
            if ctl.me() is not None and not ctl.free:
                ctl.gate(self.name + '.set')
                ctl.rlog(self.name + '.set')
            super().set()

        def clear(self):
            ctl = self.ctl
            if ctl.me() is not None and not ctl.free:
                ctl.gate(self.name + '.clear')
                ctl.rlog(self.name + '.clear')
            super().clear()

    class GThread(threading.Thread):
        def __init__(self, ctl, **kw):
            super().__init__(**kw)
            self.ctl = ctl
            self.daemon = True

        def run(self):
            ctl = self.ctl
            ctl.register(R)
            try:
                super().run()
            except Exception as e:      # the runner thread ends here, as it would with the default excepthook
                ctl.runner_exception = repr(e)
                ctl.log.append(('exc', R, repr(e)))
            finally:
                with ctl.cv:
                    ctl.th[R].status = 'exiting'
                    ctl.cv.notify_all()

        def is_alive(self):
            ctl = self.ctl
            if ctl.me() is None or ctl.free:
                return super().is_alive()
            ctl.gate('thread.is_alive')
            b = super().is_alive()
            ctl.rlog('thread.is_alive', b)
            return b

        def start(self):
            ctl = self.ctl
            if ctl.me() is None or ctl.free:
                return super().start()
            ctl.gate('thread.start')
            st = ctl.th[R]
            old = st.status
            try:
                with ctl.cv:
                    st.status = 'running'
                    st.thread = self
                super().start()
            except RuntimeError:
                with ctl.cv:
                    st.status = old
                ctl.rlog('thread.start', False)
                raise
            ctl.rlog('thread.start', True)

        def join(self, timeout=None):
            ctl = self.ctl
            if ctl.me() is None or ctl.free:
                return super().join(timeout)
            ctl.gate('thread.join')
            ctl.rlog('thread.join', not threading.Thread.is_alive(self))
            ctl.enter_prim(lambda: (not threading.Thread.is_alive(self)) or ctl.free)
            try:
                return super().join(timeout)
            finally:
                ctl.exit_prim()

    class GClock(SimulatedClock):
        def __init__(self, ctl):
            super().__init__()
            self.ctl = ctl

        @property
        def time(self):
            ctl = self.ctl
            if ctl.me() == R and not ctl.free:
                ctl.gate('clock.read')
                v = SimulatedClock.time.fget(self)
                ctl.rlog('clock.read', v)
                return v
            return SimulatedClock.time.fget(self)

        @time.setter
        def time(self, v):
            SimulatedClock.time.fset(self, v)

    class GList(list):
        """fallback gate: _external_queue as a list subclass with a gated insert()."""
        ctl = None

        def insert(self, i, x):
            ctl = self.ctl
            if ctl is not None and ctl.me() == C and not ctl.free:
                ctl.rlog('A1', uid_of(x[1]), x[0], i)
                ctl.gate('A2')
                ctl.rlog('A2', uid_of(x[1]), x[0], i)
            list.insert(self, i, x)

    class GInterp(Interpreter):
        def __init__(self, ctl, sc):
            self.ctl = ctl
            self._peeked = None
            self.steps_seen = {}      # id(MacroStep) -> descriptor
            self.keep = []            # keeps the MacroStep objects alive (ids stay unique)
            super().__init__(sc, clock=GClock(ctl))

        @property
        def final(self):
            ctl = self.ctl
            if ctl.me() == R and not ctl.free:
                ctl.gate('final')
                b = Interpreter.final.fget(self)
                ctl.rlog('final', b)
                return b
            return Interpreter.final.fget(self)

        def execute_once(self):
            ctl = self.ctl
            self._last_peek = self._last_pop = 'none'
            if ctl.me() == R and ctl.wall is not None:
                ctl.wall.spend()          # a slow action
            r = super().execute_once()
            if ctl.me() == R:
                if r is None:
                    d = None
                elif r.event is None:
                    d = ('init',) if self._last_peek == 'init' else ('eventless',)
                else:
                    d = ('ev', uid_of(r.event), self._last_pop)
                if r is not None:
                    self.steps_seen[id(r)] = d
                    self.keep.append(r)
                ctl.rlog('exec_ret', d)
            return r

        def _compute_steps(self):
            ctl = self.ctl
            if ctl.me() == R:
                ctl.gate('peek')
                was_init = self._initialized
                self._peeked = None
                r = super()._compute_steps()
                self._last_peek = 'init' if not was_init else uid_of(self._peeked)
                ctl.rlog('peek', self._last_peek)
                return r
            return super()._compute_steps()

        def _select_event(self, *, consume=False):
            ctl = self.ctl
            if ctl.me() == R and consume:
                ctl.gate('pop')
                r = super()._select_event(consume=True)
                self._last_pop = uid_of(r)
                ctl.rlog('pop', self._last_pop)
                return r
            r = super()._select_event(consume=consume)
            self._peeked = r
            return r

        def _queue_event(self, event):
            ctl = self.ctl
            if ctl.me() == C:
                ctl.gate('A1')
            return super()._queue_event(event)

    class GRunner(AsyncRunner):
        def __init__(self, ctl, interp, execute_all, interval=0):
            # "one per cycle unless execute_all is set": when it is not asked for, the constructor's default is used
            if execute_all:
                super().__init__(interp, interval=interval, execute_all=True)
            else:
                super().__init__(interp, interval=interval)
            self.ctl = ctl
            self._unpaused = GEvent(ctl, 'unp')
            self._stop = GEvent(ctl, 'stop')
            self._thread = GThread(ctl, target=self._run)

        def before_run(self):
            self.ctl.gate('before_run')
            self.ctl.rlog('before_run')
            super().before_run()

        def after_run(self):
            self.ctl.gate('after_run')
            self.ctl.rlog('after_run')
            super().after_run()

        def before_execute(self):
            self.ctl.gate('before_execute')
            self.ctl.rlog('before_execute')
            w = self.ctl.wall
            if w is not None:
                w.begin_cycle()
                w.spend()                 # a slow hook
            super().before_execute()

        def after_execute(self, steps):
            self.ctl.gate('after_execute')
            seen = self.interpreter.steps_seen
            self.ctl.rlog('after_execute', [seen.get(id(s), ('unknown',)) for s in steps])
            super().after_execute(steps)
            w = self.ctl.wall
            if w is not None:
                w.spend()                 # a slow hook
                w.end_cycle()

        def execute(self):
            return super().execute()     # the real execute(); not re-implemented

        def __del__(self):               # __del__ -> stop() is not modelled
            pass

    install_scripted_time(AsyncRunner)
    return dict(GEvent=GEvent, GThread=GThread, GClock=GClock, GList=GList, GInterp=GInterp, GRunner=GRunner)


# ------------------------------------------------------------------------------------------------
# scripted wall clock in place of the one the module of AsyncRunner uses (this process only)
# ------------------------------------------------------------------------------------------------
_TIME_PATCH = None


def _wall():
    """(ctl, virtual wall clock) of the calling thread when it is a gated runner thread, else (None, None)."""
    ctl = getattr(threading.current_thread(), 'ctl', None)
    w = getattr(ctl, 'wall', None)
    if w is None or w.real:
        return None, None
    return ctl, w


def _scripted_clock(realf, ns=False):
    def f():
        ctl, w = _wall()
        if w is None:
            return realf()
        v = w.now
        w.now += Wall.READ
        ctl.log.append(('time', R, realf.__name__, v))
        return int(v * 10 ** 9) if ns else v
    f.__name__ = realf.__name__
    return f


def _scripted_sleep(secs):
    ctl, w = _wall()
    if w is None:
        return _REAL_TIME.sleep(secs)
    try:
        if secs > 0 and secs != math.inf:
            _REAL_TIME.sleep(0)
        else:
            _REAL_TIME.sleep(secs)      # 0: returns at once; negative, NaN, inf, not a number: raises as the real one
    except BaseException as e:
        ctl.log.append(('time', R, 'sleep', secs, 'raised %r' % (e,)))
        raise
    ctl.log.append(('time', R, 'sleep', secs, 'returned'))
    w.sleeps += 1
    w.now += secs


class ScriptedTime:
    """stands for the `time` module: everything but the clocks and sleep is the real module's."""

    def __init__(self):
        for n in ('time', 'monotonic', 'perf_counter'):
            setattr(self, n, _scripted_clock(getattr(_REAL_TIME, n)))
            setattr(self, n + '_ns', _scripted_clock(getattr(_REAL_TIME, n + '_ns'), ns=True))
        self.sleep = _scripted_sleep

    def __getattr__(self, name):
        return getattr(_REAL_TIME, name)


def install_scripted_time(runner_class):
    """Rebind, in the globals of the functions of AsyncRunner (and of its bases), the names bound to the time
    module or to its clock / sleep functions.  Returns the list of rebound names (empty: nothing found, the
    paced cases then really sleep, scaled down)."""
    global _TIME_PATCH
    if _TIME_PATCH is not None:
        return _TIME_PATCH
    fake = ScriptedTime()
    by_id = {id(_REAL_TIME): fake, id(_REAL_TIME.sleep): fake.sleep}
    for n in ('time', 'monotonic', 'perf_counter'):
        by_id[id(getattr(_REAL_TIME, n))] = getattr(fake, n)
        by_id[id(getattr(_REAL_TIME, n + '_ns'))] = getattr(fake, n + '_ns')
    globs, names = [], []
    try:
        for klass in runner_class.__mro__:
            for v in list(vars(klass).values()):
                f = v.fget if isinstance(v, property) else getattr(v, '__func__', v)
                g = getattr(f, '__globals__', None)
                if isinstance(g, dict) and str(g.get('__name__', '')).startswith('sismic') and \
                        all(g is not x for x in globs):
                    globs.append(g)
        for g in globs:
            for name, val in list(g.items()):
                if id(val) in by_id:
                    g[name] = by_id[id(val)]
                    names.append('%s.%s' % (g.get('__name__'), name))
    except Exception as e:   # fail-soft: the paced cases fall back to real (scaled) sleeping
        names = []
        log('C20: scripted time not installed: %r' % (e,))
    _TIME_PATCH = dict(names=names)
    return _TIME_PATCH


def uid_of(event):
    if event is None:
        return None
    return getattr(event, 'uid', -1)


_CLASSES = None


def classes():
    global _CLASSES
    if _CLASSES is None:
        sys.path.insert(0, REPO)
        _CLASSES = make_classes()
    return _CLASSES


# ------------------------------------------------------------------------------------------------
# line gate on `queue.insert(` of Interpreter._queue_event (sys.settrace in the client thread)
# ------------------------------------------------------------------------------------------------
_LINEGATE = None


def find_insert_line():
    """(code object, absolute line number of the `queue.insert(` statement) or (None, reason)."""
    global _LINEGATE
    if _LINEGATE is not None:
        return _LINEGATE
    try:
        from sismic.interpreter import Interpreter
        fn = Interpreter._queue_event
        src, first = inspect.getsourcelines(fn)
        hits = [k for k, l in enumerate(src) if '.insert(' in l and not l.strip().startswith('#')]
        bis = [k for k, l in enumerate(src) if 'bisect' in l]
        m = re.search(r'\.insert\(\s*(\w+)\s*,\s*\(\s*(\w+)\s*,\s*(\w+)\s*\)\s*\)', src[hits[0]]) \
            if len(hits) == 1 else None
        if len(hits) != 1 or not bis or bis[0] >= hits[0]:
            _LINEGATE = (None, 'cannot locate a unique `.insert(` after `bisect` in _queue_event')
        elif not m:
            _LINEGATE = (None, 'the `.insert(` statement is not of the form insert(<index>, (<time>, <event>))')
        else:
            _LINEGATE = (fn.__code__, first + hits[0], m.groups())
    except Exception as e:   # fail-soft
        _LINEGATE = (None, 'inspect failed: %r' % (e,))
    return _LINEGATE


def make_tracer(ctl):
    lg = find_insert_line()
    code, line = lg[0], lg[1]
    if code is None:
        return None
    n_idx, n_time, n_ev = lg[2]      # names of the local variables, read from the source line

    def local(frame, event, arg):
        if event == 'line' and frame.f_lineno == line and not ctl.free:
            loc = frame.f_locals
            ev = loc.get(n_ev)
            ctl.rlog('A1', uid_of(ev), loc.get(n_time), loc.get(n_idx))
            ctl.gate('A2')
            ctl.rlog('A2', uid_of(ev), loc.get(n_time), loc.get(n_idx))
        return local

    def tracer(frame, event, arg):
        if event == 'call' and frame.f_code is code:
            return local
        return None

    return tracer


# ------------------------------------------------------------------------------------------------
# replay of one schedule on real threads
# ------------------------------------------------------------------------------------------------
def ev_name(e):
    return 'fin' if e['fin'] else 'e%d' % e['id']


def run_real(case, use_linegate=True, max_completion=400):
    """case: dict(chart, all, script=[op...], sched=[R|C...]).  op = ('start',) ('queue', {id,fin,delay})
    ('pause',) ('unpause',) ('stop',) ('clock', t).
    Returns dict(sched=complete schedule, log=raw history, final=final state, complete, gate, error)."""
    cl = classes()
    from sismic.model import Event
    ctl = Ctl()
    interval = case.get('interval') or 0
    real_time = not _TIME_PATCH['names']
    ctl.wall = Wall(interval, case.get('costs'), real_time)
    if real_time and interval > 0:       # no scripted clock in place: really sleep, scaled down
        ctl.wall.scale = min(interval, 0.002) / interval
        interval = min(interval, 0.002)
    interp = cl['GInterp'](ctl, make_chart(case['chart']))
    gate_kind = 'linegate'
    tracer = make_tracer(ctl) if use_linegate else None
    if tracer is None:
        gate_kind = 'listproxy'
        q = cl['GList'](interp._external_queue)
        q.ctl = ctl
        interp._external_queue = q
    runner = cl['GRunner'](ctl, interp, case['all'], interval)
    ctl.th[R].thread = runner._thread
    err = []

    def client():
        ctl.register(C)
        if tracer is not None:
            sys.settrace(tracer)
        try:
            for op in case['script']:
                ctl.pending_call = op
                out = 'OK'
                try:
                    k = op[0]
                    if k == 'start':
                        runner.start()
                    elif k == 'queue':
                        e = op[1]
                        kw = dict(uid=e['id'])
                        if e['delay'] != 0:
                            kw['delay'] = e['delay']
                        interp.queue(Event(ev_name(e), **kw))
                    elif k == 'pause':
                        runner.pause()
                    elif k == 'unpause':
                        runner.unpause()
                    elif k == 'stop':
                        runner.stop()
                    elif k == 'clock':
                        ctl.gate('clock.set')
                        try:
                            interp.clock.time = op[1]
                            ctl.rlog('clock.set', op[1], True)
                        except ValueError:
                            ctl.rlog('clock.set', op[1], False)
                            raise
                except RuntimeError:
                    out = 'ErrRuntime'
                except ValueError:
                    out = 'ErrValue'
                ctl.rlog('ret', op, out)
        except BaseException as e:   # anything else: recorded, makes the case untranslatable
            err.append(repr(e))
            ctl.log.append((C, 'exception', repr(e)))
        finally:
            sys.settrace(None)
            with ctl.cv:
                ctl.th[C].status = 'exiting'
                ctl.cv.notify_all()

    ct = threading.Thread(target=client, daemon=True)
    ctl.th[C].thread = ct
    ctl.th[C].status = 'running'
    ctl.th[R].status = 'dead0'      # not started: no enabled action
    sched = []
    complete = False
    final = None
    error = None
    try:
        ct.start()
        ctl.quiescent()
        for t in case['sched']:
            ctl.turn(t)
            sched.append(t)
        # completion under a fair schedule: alternate until both threads have ended
        n = 0
        idle_rounds = 0
        while n < max_completion:
            cdead = ctl.th[C].status == 'dead'
            rdead = ctl.th[R].status in ('dead', 'dead0')
            if cdead and rdead:
                complete = True
                break
            progressed = False
            for t in (R, C):
                progressed |= ctl.turn(t)
                sched.append(t)
                n += 1
            idle_rounds = 0 if progressed else idle_rounds + 1
            if idle_rounds >= 2:
                break      # deadlock: nobody can move
        if complete:
            final = dict(unp=threading.Event.is_set(runner._unpaused), stop=threading.Event.is_set(runner._stop),
                         alive=threading.Thread.is_alive(runner._thread), clock=interp.clock.time,
                         itime=interp._time, queue=[(k, uid_of(e)) for k, e in interp._external_queue],
                         init=interp._initialized, fin=bool(type(interp).__mro__[1].final.fget(interp)))
    except Stuck as e:
        error = str(e)
    finally:
        # release whatever is still parked or blocked (never on a complete run)
        ctl.open_gates()
        threading.Event.set(runner._stop)
        threading.Event.set(runner._unpaused)
        ct.join(2.0)
        if threading.Thread.is_alive(runner._thread):
            threading.Thread.join(runner._thread, 2.0)
    w = ctl.wall
    return dict(sched=sched, log=list(ctl.log), final=final, complete=complete, gate=gate_kind,
                error=error or (err[0] if err else None), blocked_checks=ctl.blocked_checks,
                runner_exception=ctl.runner_exception,
                pace=dict(interval=w.interval, cycles=w.cycles, overruns=w.overruns, sleeps=w.sleeps,
                          scripted=not w.real))


# ------------------------------------------------------------------------------------------------
# raw history -> Coq trace items
# ------------------------------------------------------------------------------------------------
def c_ev(e):
    return '(mk_ev %d %s %s)' % (e['id'], cbool(e['fin']), cz(e['delay']))


def c_call(op):
    k = op[0]
    if k == 'queue':
        return '(CQueue %s)' % c_ev(op[1])
    if k == 'clock':
        return '(CClock %s)' % cz(op[1])
    return {'start': 'CStart', 'pause': 'CPause', 'unpause': 'CUnpause', 'stop': 'CStop'}[k]


def c_tid(t):
    return 'TRun' if t == R else '(TCli 0)'


def c_mstep(d, evs):
    if d == ('init',):
        return 'MInit'
    if d[0] == 'ev' and d[1] in evs and (d[2] is None or d[2] in evs):
        return '(MEv %s %s)' % (c_ev(evs[d[1]]), copt(d[2], lambda u: c_ev(evs[u])))
    raise KeyError(d)


def translate(rawlog, script):
    """Returns (list of Coq titem strings, list of untranslatable entries)."""
    evs = {op[1]['id']: op[1] for op in script if op[0] == 'queue'}
    items, bad = [], []
    cur = None           # current client call
    peeked = None
    expect = None        # expected exec_ret descriptor
    for ent in rawlog:
        try:
            if ent[0] == 'skip':
                items.append('TSkip %s' % c_tid(ent[1]))
                continue
            if ent[0] in ('time', 'exc'):
                continue     # the runner's own wall clock (thread-local) / the record of its death: no LTS action
            t, k = ent[0], ent[1]
            if t == C:
                ck = cur[0] if cur else None
                if k == 'call':
                    cur = ent[2]
                    items.append('TCall 0 %s' % c_call(cur))
                elif k == 'ret':
                    items.append('TRet 0 %s %s' % (c_call(ent[2]), ent[3]))
                    cur = None
                elif k == 'stop.is_set' and ck == 'start':
                    items.append('TC 0 (AStartIsStop %s)' % cbool(ent[2]))
                elif k == 'thread.is_alive' and ck == 'start':
                    items.append('TC 0 (AStartAlive %s)' % cbool(ent[2]))
                elif k == 'thread.is_alive' and ck == 'stop':
                    items.append('TC 0 (AStopAlive %s)' % cbool(ent[2]))
                elif k == 'unp.set' and ck in ('start', 'unpause', 'stop'):
                    items.append('TC 0 %s' % {'start': 'AStartSet', 'unpause': 'AUnpauseSet',
                                              'stop': 'AStopSetUnp'}[ck])
                elif k == 'thread.start' and ck == 'start':
                    items.append('TC 0 (AStartThread %s)' % cbool(ent[2]))
                elif k in ('A1', 'A2') and ck == 'queue' and ent[2] == cur[1]['id']:
                    items.append('TC 0 (%s %s %s %d)' % ('AQIdx' if k == 'A1' else 'AQIns',
                                                         c_ev(evs[ent[2]]), cz(ent[3]), ent[4]))
                elif k == 'unp.clear' and ck == 'pause':
                    items.append('TC 0 APauseClear')
                elif k == 'stop.set' and ck == 'stop':
                    items.append('TC 0 AStopSetStop')
                elif k == 'thread.join' and ck == 'stop':
                    items.append('TC 0 (AStopJoin %s)' % cbool(ent[2]))
                elif k == 'clock.set' and ck == 'clock':
                    items.append('TC 0 (AClockSet %s %s)' % (cz(ent[2]), cbool(ent[3])))
                else:
                    bad.append(ent)
            elif t == R:
                if k == 'before_run':
                    items.append('TR ABeforeRun')
                elif k == 'after_run':
                    items.append('TR AAfterRun')
                elif k == 'before_execute':
                    items.append('TR ABeforeExec')
                elif k == 'unp.wait':
                    items.append('TR (AWait %s)' % cbool(ent[2]))
                elif k == 'final':
                    items.append('TR (ATestFinal %s)' % cbool(ent[2]))
                elif k == 'stop.is_set':
                    items.append('TR (ATestStop %s)' % cbool(ent[2]))
                elif k == 'stop.set':
                    items.append('TR AStopSet')
                elif k == 'clock.read':
                    items.append('TR (AExTime %s)' % cz(ent[2]))
                elif k == 'peek':
                    if expect is not None:
                        bad.append(('missing exec_ret before', ent))
                    if ent[2] == 'init':
                        items.append('TR (AExPeek PkInit)')
                        expect = (('init',),)
                    elif ent[2] is None:
                        items.append('TR (AExPeek PkNone)')
                        expect = (None,)
                    else:
                        peeked = ent[2]
                        items.append('TR (AExPeek (PkSome %s))' % c_ev(evs[peeked]))
                        expect = 'pop'
                elif k == 'pop':
                    if expect != 'pop':
                        bad.append(('pop without peek', ent))
                    items.append('TR (AExPop %s %s)' % (c_ev(evs[peeked]),
                                                         copt(ent[2], lambda u: c_ev(evs[u]))))
                    expect = (('ev', peeked, ent[2]),)
                elif k == 'exec_ret':
                    if expect is None or expect == 'pop' or expect[0] != ent[2]:
                        bad.append(('execute_once returned something else than computed', expect, ent))
                    expect = None
                elif k == 'after_execute':
                    items.append('TR (AAfterExec %s)' % clist([c_mstep(d, evs) for d in ent[2]]))
                else:
                    bad.append(ent)
            else:
                bad.append(ent)
        except (KeyError, IndexError, TypeError) as e:
            bad.append(('untranslatable', repr(e), ent))
    return items, bad


def c_fstate(f, script):
    evs = {op[1]['id']: op[1] for op in script if op[0] == 'queue'}
    q = clist(['(%s, %s)' % (cz(k), c_ev(evs[u])) for k, u in f['queue']])
    return '(mk_fstate %s %s %s %s %s %s %s %s)' % (cbool(f['unp']), cbool(f['stop']), cbool(f['alive']),
                                                    cz(f['clock']), cz(f['itime']), q, cbool(f['init']),
                                                    cbool(f['fin']))


C_CHART = {'plain': 'ChPlain', 'fin': 'ChFin', 'initfinal': 'ChInitFinal'}
CASE_HEADER = '''From Coq Require Import List ZArith NArith Bool.
From Sismic Require Import Runner RunnerCorr.
Import ListNotations.
'''
DUMMY_FSTATE = '(mk_fstate false false false 0%Z 0%Z [] false false)'


def c_case(case, res):
    items, bad = translate(res['log'], case['script'])
    try:
        fs = c_fstate(res['final'], case['script']) if res['final'] else DUMMY_FSTATE
    except KeyError:
        fs = DUMMY_FSTATE
        bad.append(('final queue holds an unknown event', res['final']))
    term = 'mk_rcase %s %s %s %s %s\n    %s\n    %s' % (
        C_CHART[case['chart']], cbool(case['all']), clist([c_call(o) for o in case['script']]),
        clist([c_tid(t) for t in res['sched']]), cbool(res['complete']), clist(items), fs)
    return term, bad


# ------------------------------------------------------------------------------------------------
# Coq files of this check (compiled here while they are not registered in _CoqProject)
# ------------------------------------------------------------------------------------------------
def ensure_compiled():
    msgs = []
    for rel in ('theories/Runner.v', 'theories/RunnerCorr.v', 'proofs/RunnerProofs.v'):
        v = os.path.join(COQ, rel)
        if not os.path.exists(v):
            continue
        vo = v + 'o'
        if not os.path.exists(vo) or os.path.getmtime(vo) < os.path.getmtime(v):
            rc, out = run(['timeout', '900', 'coqc'] + COQ_FLAGS + [rel], 1000, cwd=COQ)
            msgs.append((rel, rc, out[-1500:]))
            if rc != 0:
                return False, msgs
    return True, msgs


# ------------------------------------------------------------------------------------------------
# generators
# ------------------------------------------------------------------------------------------------
def E(i, fin=False, delay=0):
    return dict(id=i, fin=fin, delay=delay)


def norm_case(c):
    c = dict(c)
    c['script'] = [tuple(op) for op in c['script']]
    c['sched'] = list(c['sched'])
    return c


def load_corpus():
    out = []
    if os.path.isdir(CORPUS):
        for fn in sorted(os.listdir(CORPUS)):
            if fn.endswith('.json'):
                w = json.load(open(os.path.join(CORPUS, fn)))
                w = norm_case(w)
                w['origin'] = 'corpus:' + fn
                out.append(w)
    return out


ENUM_SCRIPTS = [
    ('plain', False, [('start',), ('queue', E(1)), ('queue', E(2)), ('stop',)]),
    ('plain', False, [('queue', E(1)), ('start',), ('pause',), ('queue', E(2)), ('unpause',), ('stop',)]),
    ('fin', False, [('start',), ('queue', E(1, fin=True)), ('queue', E(2)), ('stop',)]),
    ('plain', True, [('queue', E(1)), ('queue', E(2)), ('start',), ('queue', E(3)), ('stop',)]),
    ('plain', False, [('queue', E(1)), ('queue', E(2, delay=5)), ('start',), ('queue', E(3)), ('clock', 5), ('stop',)]),
    ('initfinal', False, [('start',), ('queue', E(1)), ('stop',)]),
    ('plain', False, [('start',), ('start',), ('stop',), ('start',)]),
    ('plain', False, [('pause',), ('start',), ('queue', E(1)), ('unpause',), ('stop',)]),
    ('fin', True, [('queue', E(1)), ('queue', E(2, fin=True)), ('start',), ('pause',), ('unpause',), ('stop',)]),
    ('plain', False, [('stop',), ('start',), ('queue', E(1)), ('stop',)]),
]


def n_client_actions(script):
    return sum({'start': 4, 'queue': 2, 'stop': 4}.get(op[0], 1) for op in script)


def enum_cases(limit, rng):
    """schedules C^i R^j C^k R^l (then the fair completion) of the scripts above."""
    allc = []
    for chart, ea, script in ENUM_SCRIPTS:
        nc = n_client_actions(script)
        for i in range(0, nc + 1):
            for j in range(0, 19):
                for k in range(0, 4):
                    for l in (0, 1, 2, 7):
                        if k == 0 and l != 0:
                            continue
                        allc.append(dict(chart=chart, all=ea, script=list(script),
                                         sched=[C] * i + [R] * j + [C] * k + [R] * l,
                                         origin='enum'))
    if limit is not None and len(allc) > limit:
        allc = rng.sample(allc, limit)
    return allc


def random_case(rng):
    chart = rng.choice(CHARTS)
    ea = rng.random() < 0.35
    n = rng.randint(2, 7)
    script = []
    nid = 1
    clk = 0
    started = False
    for _ in range(n):
        x = rng.random()
        if x < 0.40:
            script.append(('queue', E(nid, fin=rng.random() < 0.2, delay=rng.choice([0, 0, 0, 0, 2, 5]))))
            nid += 1
        elif x < 0.55 or (not started and x < 0.7):
            script.append(('start',))
            started = True
        elif x < 0.68:
            script.append(('pause',))
        elif x < 0.80:
            script.append(('unpause',))
        elif x < 0.92:
            clk = clk + rng.choice([0, 1, 2, 5]) if rng.random() < 0.9 else clk - 1
            script.append(('clock', clk))
            clk = max(clk, 0)
        else:
            script.append(('stop',))
    if not started:
        script.insert(rng.randint(0, len(script)), ('start',))
    script.append(('stop',))
    m = rng.randint(0, 70)
    sched = []
    cur = rng.choice([R, C])
    while len(sched) < m:
        run_len = rng.choice([1, 1, 1, 2, 3, 5, 8])
        sched += [cur] * run_len
        cur = C if cur == R else R
    return dict(chart=chart, all=ea, script=script, sched=sched[:m], origin='random')


# pacing: (interval, durations spent in turn by before_execute / execute_once / after_execute on the runner thread)
PACES = [
    (0.1, []),                         # default interval, cycles of (almost) no duration
    (0.1, [0.25]),                     # every hook / step slower than the interval
    (0.1, [0, 0, 0.3]),                # one slow call in three
    (0.05, [0.01, 0.02]),              # busy, most cycles within the interval
    (1, [0.5, 0.5, 0.5]),              # no single call overruns, the cycle does
    (0.001, [0.002, 0]),
    (2.5, [0, 0, 0, 0, 0, 0, 7]),      # a rare very slow call
    (0.1, [0.05, 0, 0.05]),            # cycles of just about the interval
]
PACED_SCRIPTS = [
    ('plain', False, [('queue', E(1)), ('queue', E(2)), ('queue', E(3)), ('start',), ('stop',)]),
    ('plain', True, [('queue', E(1)), ('queue', E(2)), ('start',), ('queue', E(3)), ('stop',)]),
    ('fin', False, [('start',), ('queue', E(1)), ('queue', E(2, fin=True)), ('stop',)]),
    ('plain', False, [('queue', E(1)), ('start',), ('pause',), ('queue', E(2)), ('unpause',), ('stop',)]),
    ('fin', True, [('queue', E(1)), ('queue', E(2, fin=True)), ('queue', E(3)), ('start',), ('stop',)]),
    ('initfinal', False, [('start',), ('queue', E(1)), ('stop',)]),
    ('plain', False, [('queue', E(1)), ('queue', E(2, delay=5)), ('start',), ('clock', 5), ('queue', E(3)), ('stop',)]),
]


def paced_cases():
    """every script above under every pacing, on four schedules (each followed by the fair completion): the client
    up to (not including) its last call, stop(), then the runner for 12 / 45 actions; the client up to the return
    of start(), then three / seven runner actions for each client action."""
    out = []
    for chart, ea, script in PACED_SCRIPTS:
        nc = n_client_actions(script[:-1])
        ns = n_client_actions(script[:script.index(('start',)) + 1])
        for interval, costs in PACES:
            for sched in ([C] * nc + [R] * 12, [C] * nc + [R] * 45, [C] * ns + ([R] * 3 + [C]) * 20,
                          [C] * ns + ([R] * 7 + [C]) * 12):
                out.append(dict(chart=chart, all=ea, script=list(script), sched=list(sched), interval=interval,
                                costs=list(costs), origin='paced'))
    return out


def random_pace(rng):
    interval = rng.choice([0.1, 0.1, 0.05, 0.01, 0.001, 1, 2.5])
    costs = [rng.choice([0, 0, 0, interval / 4, interval / 2, interval, 2 * interval, 10 * interval])
             for _ in range(rng.randint(0, 5))]
    return interval, costs


def _worker(case):
    try:
        return run_real(case)
    except Exception as e:      # harness failure: reported, never silently dropped
        return dict(sched=list(case['sched']), log=[], final=None, complete=False, gate='?',
                    error='harness exception %r' % (e,), blocked_checks=0, runner_exception=None, pace=None)


def run_all(cases, nproc):
    if nproc <= 1 or len(cases) < 8:
        return [_worker(c) for c in cases]
    import multiprocessing as mp
    ctx = mp.get_context('fork')
    with ctx.Pool(nproc) as pool:
        return pool.map(_worker, cases, chunksize=8)


# ------------------------------------------------------------------------------------------------
# ungated stress run (thorough tier): history checked by Pb_C20 only
# ------------------------------------------------------------------------------------------------
def stress_run(seed, chart, ea, n_events, wait_final, pace=(0, [])):
    cl = classes()
    from sismic.model import Event
    rng = random.Random(seed)
    ctl = Ctl()
    ctl.free = True
    interval, costs = pace
    if not _TIME_PATCH['names']:
        interval, costs = min(interval, 0.0005), []      # no scripted clock in place: real, short sleeps
    ctl.wall = Wall(interval, costs, not _TIME_PATCH['names'])
    interp = cl['GInterp'](ctl, make_chart(chart))
    runner = cl['GRunner'](ctl, interp, ea, interval)
    script = []
    lg = ctl.log

    def do(op, f):
        script.append(op)
        lg.append((C, 'call', op))
        out = 'OK'
        try:
            f()
        except RuntimeError:
            out = 'ErrRuntime'
        lg.append((C, 'ret', op, out))

    do(('start',), runner.start)
    fin_at = rng.randint(n_events // 2, n_events) if chart == 'fin' else None
    for i in range(1, n_events + 1):
        e = E(i, fin=(i == fin_at))
        do(('queue', e), lambda: interp.queue(Event(ev_name(e), uid=e['id'])))
        x = rng.random()
        if x < 0.08:
            do(('pause',), runner.pause)
            if rng.random() < 0.5:
                time.sleep(0.0003)
            do(('unpause',), runner.unpause)
        elif x < 0.3:
            time.sleep(rng.choice([0, 0.0001, 0.0005]))
    drained = False
    if wait_final and chart == 'fin':
        t0 = time.time()
        while threading.Thread.is_alive(runner._thread) and time.time() - t0 < 10:
            time.sleep(0.001)          # the runner must stop by itself
    else:
        t0 = time.time()
        while interp._external_queue and time.time() - t0 < 10 and threading.Thread.is_alive(runner._thread):
            time.sleep(0.0005)
        drained = not interp._external_queue
    do(('stop',), runner.stop)
    threading.Thread.join(runner._thread, 5.0)
    hung = threading.Thread.is_alive(runner._thread)
    items, bad = translate(list(lg), script)
    if hung:
        bad.append('runner thread still alive after stop()')
    if ctl.runner_exception:
        bad.append('the runner thread ended with an exception: ' + ctl.runner_exception)
    return dict(chart=chart, all=ea, drained=drained and chart != 'fin', items=items, bad=bad,
                n_events=n_events, script_len=len(script), interval=interval, costs=costs,
                overruns=ctl.wall.overruns)


# ------------------------------------------------------------------------------------------------
# evaluation
# ------------------------------------------------------------------------------------------------
PB_BITS = [(1, 'report: lists handed to after_execute <> macro steps executed (in order, each once; one per cycle)'),
           (2, 'hooks: before_run/after_run not exactly once / not first and last'),
           (4, 'pause: more than one cycle begun between the return of pause() and the next unpause()'),
           (8, 'stop: the runner thread acted after stop() returned'),
           (16, 'final: a cycle began although the statechart was final'),
           (32, 'events: a queued event consumed twice / a due event not consumable (hidden behind a later one) / '
                'processed event <> consumed event'),
           (64, 'liveness: stop() did not return / the runner did not end under the fair completion')]
KNOWN_TEXT = ('due events are not consumed in FIFO order / as soon as due when queue() races with the runner: '
              '_queue_event computes the index (bisect) and inserts (list.insert) non-atomically with the '
              'runner thread\'s queue.pop(0) [%s]' % KNOWN_ID)


def clauses(mask):
    return [t for b, t in PB_BITS if mask & b]


def known_listed():
    fs = load_known_findings()
    alt = os.environ.get('C20_KNOWN_FINDINGS_FILE')      # test hook while the entry is being added
    if alt and os.path.exists(alt):
        fs = fs + json.load(open(alt)).get('findings', [])
    return any(f.get('id') == KNOWN_ID for f in fs)


def evaluate(cases, results, d, tag='cases', shard=150):
    """Write case files, let Coq evaluate; returns (masks per case index, bads, coq failures)."""
    files = []
    bads = {}
    for s in range(0, len(cases), shard):
        fn = '%s/%s_%d.v' % (d, tag, s // shard)
        rows = []
        for k in range(s, min(len(cases), s + shard)):
            term, bad = c_case(cases[k], results[k])
            if bad:
                bads[k] = bad
            rows.append('  ' + term)
        with open(fn, 'w') as f:
            f.write(CASE_HEADER)
            f.write('Definition cases : list rcase := [\n' + ';\n'.join(rows) + '\n].\n')
            f.write('Eval vm_compute in (check_cases cases).\n')
        files.append(fn)
    res = coq_eval_files(PROP, files)
    masks = {}
    fails = []
    for k, (fn, rc, out) in enumerate(res):
        if rc != 0:
            fails.append((fn, out[-1500:]))
            continue
        for i, m in parse_pairs(out):
            masks[k * shard + i] = m
    return masks, bads, fails


def jsonable_case(c):
    return dict(chart=c['chart'], all=c['all'], script=[list(o) for o in c['script']], sched=c['sched'],
                interval=c.get('interval') or 0, costs=list(c.get('costs') or []), origin=c.get('origin'))


def classify(cases, results, masks, bads, v, known_ok, stats):
    n_viol = 0
    for k, (c, r) in enumerate(zip(cases, results)):
        m = masks.get(k, 0)
        corr, pi, pa, pm = m & 3, (m >> 4) & 0xFF, (m >> 12) & 0xFF, (m >> 20) & 0xFF
        problem = None
        if r.get('error'):
            problem = 'replay failed: ' + str(r['error'])
        elif r.get('runner_exception'):
            problem = ('the runner thread ended with an exception: %s (whatever it had left to do is not done: '
                       'see the failing clauses and the final state)' % r['runner_exception'])
        elif k in bads:
            problem = 'the implementation performed accesses the model has no action for: %r' % (bads[k][:3],)
        elif not r['complete']:
            problem = 'threads did not end under the fair completion (stop() does not return)'
        elif corr:
            problem = ('model and implementation differ on this schedule (%s)' %
                       ' and '.join(x for x, b in (('trace', 1), ('final state', 2)) if corr & b))
        if problem is None and pi:
            if pi == 32 and pa == 0 and pm == pi and known_ok:
                v.known_finding(KNOWN_TEXT)
                stats['known_finding_cases'] += 1
                continue
            problem = 'Pb_C20 false on the implementation history'
        if problem is None:
            continue
        n_viol += 1
        v.violation(dict(property=PROP, kind='schedule', case=jsonable_case(c), complete_schedule=r['sched'],
                         problem=problem, failing_clauses=clauses(pi),
                         clauses_failing_with_atomic_insert=clauses(pa), mask=m,
                         implementation_history=[repr(e) for e in r['log']],
                         implementation_final_state=r['final'], gate=r.get('gate'),
                         runner_exception=r.get('runner_exception'), pacing=r.get('pace'),
                         known_finding_listed=known_ok,
                         how_to_replay='cd /verif && ./check C20 --replay <this file>'),
                    tag=str(k), no_input=(pi == 0))
    return n_viol


def own_forbidden():
    from common import FORBIDDEN, strip_comments
    bad = []
    for rel in ('theories/Runner.v', 'theories/RunnerCorr.v', 'proofs/RunnerProofs.v', 'props/C20_Props.v'):
        p = os.path.join(COQ, rel)
        if not os.path.exists(p):
            continue
        depth = 0
        for ln, line in enumerate(strip_comments(open(p).read()).splitlines(), 1):
            s = line.strip()
            if s.startswith('Section '):
                depth += 1
            if s.startswith('End ') and depth > 0:
                depth -= 1
            for mm in FORBIDDEN.finditer(line):
                if mm.group(0) in ('Variable', 'Variables', 'Hypothesis') and depth > 0:
                    continue
                bad.append('%s:%d: %s' % (rel, ln, mm.group(0)))
    return bad


def main(tier, seed):
    t0 = time.time()
    v = Verdict(PROP)
    sys.path.insert(0, REPO)
    ok_c, cmsgs = ensure_compiled()
    info = proof_stage(PROP, PROOF_FILES, v) if os.path.exists(os.path.join(COQ, 'props', 'C20_Props.v')) \
        else dict(build_ok=False, build_log_tail='props/C20_Props.v missing')
    info['own_forbidden_tokens'] = own_forbidden()
    rng = random.Random(seed * 7919 + 20)
    quick = tier == 'quick'
    cases = load_corpus()
    n_corpus = len(cases)
    cases += enum_cases(320 if quick else 6000, rng)
    cases += [random_case(rng) for _ in range(200 if quick else 3000)]
    # pacing: own generator (the schedules drawn above do not depend on it); about half of the enumerated and of the
    # random cases run with a strictly positive interval and scripted durations, the others as before (interval 0)
    prng = random.Random(seed * 7919 + 21)
    for c in cases[n_corpus:]:
        if prng.random() < 0.5:
            c['interval'], c['costs'] = random_pace(prng)
    cases += paced_cases()
    lg = find_insert_line()
    code, line = lg[0], lg[1]
    gate_note = ('sys.settrace line gate on default.py:%d (`queue.insert(` of _queue_event)' % line) if code \
        else 'line gate NOT installed (%s); fallback: gated list subclass for _external_queue' % line
    nproc = min(8, os.cpu_count() or 2)
    t1 = time.time()
    results = run_all(cases, nproc)
    t_replay = time.time() - t1
    # a few schedules again through the fallback gate, so that both gates stay exercised
    extra = [dict(c, origin='fallback-gate:' + str(c.get('origin'))) for c in cases[:n_corpus + 20]]
    extra_res = [run_real(c, use_linegate=False) for c in extra]
    cases_all = cases + extra
    results_all = results + extra_res
    d = gen_dir(PROP)
    t1 = time.time()
    masks, bads, fails = evaluate(cases_all, results_all, d)
    t_coq = time.time() - t1
    known_ok = known_listed()
    stats = dict(known_finding_cases=0)
    n_viol = classify(cases_all, results_all, masks, bads, v, known_ok, stats)
    for fn, out in fails:
        v.violation(dict(property=PROP, broken='correspondence file did not evaluate', file=fn, log=out),
                    tag='coq', no_input=True)
        n_viol += 1
    # corpus expectations: the witnesses of the known finding must still show it
    corpus_status = []
    for k in range(n_corpus):
        m = masks.get(k, 0)
        corpus_status.append(dict(seed=cases[k]['origin'], expect=cases[k].get('expect'), mask=m,
                                  impl_clauses=clauses((m >> 4) & 0xFF)))
    # ungated stress runs
    stress = []
    if not quick:
        hs = []
        srng = random.Random(seed + 2020)
        for i in range(24):
            chart = ['plain', 'plain', 'fin'][i % 3]
            hs.append(stress_run(srng.randint(0, 10 ** 9), chart, i % 2 == 1, 150 + 50 * (i % 4), i % 6 == 2,
                                 pace=PACES[(i // 2) % len(PACES)] if i % 2 == 0 or i % 8 == 1 else (0, [])))
        fn = '%s/stress_0.v' % d
        with open(fn, 'w') as f:
            f.write(CASE_HEADER)
            f.write('Definition hs : list hcase := [\n' + ';\n'.join(
                '  mk_hcase %s %s %s %s' % (C_CHART[h['chart']], cbool(h['all']), cbool(h['drained']),
                                            clist(h['items'])) for h in hs) + '\n].\n')
            f.write('Eval vm_compute in (hcheck_cases hs).\n')
        (fn_, rc, out), = coq_eval_files(PROP, [fn])
        hm = dict(parse_pairs(out)) if rc == 0 else {}
        for i, h in enumerate(hs):
            st = dict(chart=h['chart'], execute_all=h['all'], events=h['n_events'], items=len(h['items']),
                      drained=h['drained'], mask=hm.get(i, 0), untranslatable=len(h['bad']),
                      interval=h['interval'], costs=h['costs'], cycles_overrunning_the_interval=h['overruns'])
            stress.append(st)
            if rc != 0 or hm.get(i, 0) or h['bad']:
                n_viol += 1
                v.violation(dict(property=PROP, kind='ungated stress history', run=st, coq_rc=rc,
                                 failing_clauses=clauses(hm.get(i, 0)), untranslatable=[repr(b) for b in h['bad'][:5]],
                                 history_tail=h['items'][-60:], coq_log=out[-800:] if rc != 0 else None),
                            tag='stress%d' % i)
    coqchk = None
    if not quick:
        try:
            rc_k, out_k = run(['timeout', '900', 'coqchk', '-silent', '-o'] + COQ_FLAGS + ['SismicProps.C20_Props'],
                              1000, cwd=COQ)
            coqchk = dict(rc=rc_k, axioms_none='* Axioms: <none>' in out_k, tail=out_k[-400:])
            if rc_k != 0 or not coqchk['axioms_none']:
                info['ok'] = False
                info['props_log_tail'] = 'coqchk: ' + out_k[-1500:]
        except Exception as e:   # fail-soft: recorded
            coqchk = dict(error=repr(e))
    proof_ok = bool(info.get('build_ok') and info.get('ok') and not info.get('forbidden_tokens')
                    and not info.get('axioms') and not info['own_forbidden_tokens'] and ok_c)
    if not proof_ok and n_viol == 0:
        v.violation(dict(property=PROP, broken='proof obligations of C20_Props.v do not check', info=info,
                         compile=cmsgs), tag='proof', no_input=True)
        n_viol += 1
    # measured distribution
    def switches(s):
        return sum(1 for a, b in zip(s, s[1:]) if a != b)
    nontrivial = set()
    blocked = 0
    opmix = {}
    for c, r in zip(cases_all, results_all):
        steps = sum(1 for e in r['log'] if e[0] == R and e[1] == 'exec_ret' and e[2] is not None)
        inter = switches([e[0] for e in r['log'] if e[0] in (R, C)])
        if steps >= 1 and inter >= 2:
            nontrivial.add(json.dumps([c['chart'], c['all'], c['script'], r['sched']], default=str))
        blocked += 1 if r.get('blocked_checks') else 0
        for op in c['script']:
            opmix[op[0]] = opmix.get(op[0], 0) + 1
    sample_ix = [0, n_corpus] if len(cases) > n_corpus else [0]
    cov = dict(
        obligations=info.get('obligations', 0), discharged=info.get('discharged', 0),
        checker_cmd='cd /verif/coq && make && coqc props/C20_Props.v (Print Assumptions) ; coqc gen/C20/cases_*.v',
        trusted_base=TRUSTED_BASE + [
            'thread gating of the harness (subclasses of threading.Event/Thread, SimulatedClock, hook methods; '
            'sys.settrace line gate); atomicity grain = one action per Python-level access to shared state '
            '(assumption about CPython)',
            'Print Assumptions: ' + ('Closed under the global context x%d' % info.get('closed', 0)
                                     if not info.get('axioms') else '; '.join(info['axioms']))],
        theorems=info.get('theorems', []),
        evaluations=len(cases_all), distinct_nontrivial=len(nontrivial),
        rule='one evaluation = one schedule (prefix + fair completion) replayed on real threads of the real '
             'AsyncRunner/Interpreter, compared label by label and on the final state with Runner.run_schedule '
             '(vm_compute), Pb_C20 evaluated on the implementation history; non-trivial = at least one macro '
             'step executed and at least two switches between runner and client actions; distinct = distinct '
             '(chart, execute_all, script, complete schedule)',
        traces_validated_against_impl=len(cases_all) - len(bads) - sum(1 for m in masks.values() if m & 3),
        samples=[dict(case=jsonable_case(cases_all[i]), complete_schedule=results_all[i]['sched'],
                      history=[repr(e) for e in results_all[i]['log']][:80]) for i in sample_ix],
        generators=dict(corpus=n_corpus, enumerated=sum(1 for c in cases if c.get('origin') == 'enum'),
                        random=sum(1 for c in cases if c.get('origin') == 'random'),
                        paced=sum(1 for c in cases if c.get('origin') == 'paced'), fallback_gate=len(extra)),
        pacing=dict(
            wall_clock=('scripted (virtual) clock and sleep bound in place of: ' + ', '.join(_TIME_PATCH['names']))
            if _TIME_PATCH['names'] else 'NO name bound to the time module or its functions found in the module of '
                                         'AsyncRunner: paced cases really sleep (interval scaled to <= 2 ms)',
            schedules_with_positive_interval=sum(1 for c in cases_all if (c.get('interval') or 0) > 0),
            schedules_with_a_cycle_longer_than_the_interval=sum(1 for r in results_all
                                                                if r.get('pace') and r['pace']['overruns']),
            cycles=sum(r['pace']['cycles'] for r in results_all if r.get('pace')),
            cycles_longer_than_the_interval=sum(r['pace']['overruns'] for r in results_all if r.get('pace')),
            sleeps_returned=sum(r['pace']['sleeps'] for r in results_all if r.get('pace')),
            execute_all_with_positive_interval=sum(1 for c in cases_all if c['all'] and (c.get('interval') or 0) > 0),
            runner_threads_ended_by_an_exception=sum(1 for r in results_all if r.get('runner_exception'))),
        gate=gate_note, op_mix=opmix, schedules_with_a_thread_blocked_in_wait_or_join=blocked,
        known_finding_listed=known_ok, known_finding_cases=stats['known_finding_cases'],
        corpus=corpus_status, stress_runs=stress, mismatching_cases=len(masks),
        timings=dict(replay_s=round(t_replay, 1), coq_s=round(t_coq, 1)),
        source_blobs=repo_blob_ids(['sismic/runner/runner.py', 'sismic/interpreter/default.py']),
        coqchk=coqchk,
        proof_info={k: info.get(k) for k in ('build_ok', 'ok', 'closed', 'axioms', 'forbidden_tokens',
                                             'own_forbidden_tokens', 'build_log_tail', 'props_log_tail')},
    )
    write_evidence(PROP, tier, seed, t0, cov,
                   ['atomicity grain (one atomic action per Python-level access to shared state) is an assumption '
                    'about CPython, not a theorem',
                    'real preemption, threading.Event internals beyond set/clear/wait-with-wakeup, and '
                    'AsyncRunner.__del__ are not modelled; the wall clock of the runner thread (time.time / '
                    'time.sleep as reached from the module of AsyncRunner) is replaced by a scripted virtual one '
                    '(strictly positive intervals, cycles longer than the interval) and is not part of the LTS: '
                    'the model trace required is independent of interval and durations; how long the runner '
                    'sleeps is recorded, not judged',
                    'interpreter abstracted to external queue, _time, clock, _initialized, final; chart family '
                    '{plain, fin, initfinal}; one client thread',
                    'C20_events proved for zero-delay events with one client; delayed events: C20_events_refuted '
                    '(known finding %s)' % KNOWN_ID],
                   n_viol)
    return v.finish()


def replay(path):
    sys.path.insert(0, REPO)
    obj = json.load(open(path))
    c = norm_case(obj['case'] if 'case' in obj else obj)
    ensure_compiled()
    v = Verdict(PROP)
    r = run_real(c)
    d = os.path.join(COQ, 'gen', PROP + '_replay')
    os.makedirs(d, exist_ok=True)
    masks, bads, fails = evaluate([c], [r], d, tag='replay')
    for e in r['log']:
        print('  impl:', e)
    print('  complete schedule:', ''.join(r['sched']))
    print('  final state:', r['final'], 'error:', r['error'])
    print('  runner exception:', r.get('runner_exception'), ' pacing:', r.get('pace'))
    m = masks.get(0, 0)
    print('  mask=%d  correspondence=%d  Pb(impl)=%s  Pb(model, atomic insert)=%s' %
          (m, m & 3, clauses((m >> 4) & 0xFF), clauses((m >> 12) & 0xFF)))
    stats = dict(known_finding_cases=0)
    n = classify([c], [r], masks, bads, v, known_listed(), stats)
    for fn, out in fails:
        print(out)
        n += 1
    rcx = v.finish()
    return 1 if (n or rcx) else 0
