"""C04 -- interpreter-family check (see icheck.py, ifam.py)."""
import os

import genchart
import icheck
import ifam

PROP = 'C04'
PROOF_FILES = [f for f in ['proofs/C04Proofs.v'] if os.path.exists(os.path.join('/verif/coq', f))]


def main(tier, seed):
    return icheck.run(PROP, tier, seed, genchart.Profile(p_orth=0.45, same_source_boost=0.5, p_guard=0.3, p_contract=0.05, n_trans=(6, 16), p_eventless=0.1, alt=[(0.3, genchart.parallel_profile(p_sibling_target=0.6)), (0.4, genchart.nested_parallel_chart)]), ifam.ScenarioSpec(p_queue=0.45, p_bits=0.15, guard_init='all'), icheck.interest_c04, PROOF_FILES, assumptions=['which error wins when both kinds of offending pairs exist is not fixed by the property'])


replay = icheck.replay
