"""C02 -- interpreter-family check (see icheck.py, ifam.py)."""
import os

import genchart
import icheck
import ifam

PROP = 'C02'
PROOF_FILES = [f for f in ['theories/Spec.v', 'proofs/C02Proofs.v'] if os.path.exists(os.path.join('/verif/coq', f))]


def main(tier, seed):
    return icheck.run(PROP, tier, seed, genchart.Profile(p_hist_target=0.1, p_orth=0.4, p_history=0.35, p_contract=0.05, max_states=14, alt=[(0.2, genchart.parallel_profile(p_history=0.3, p_sibling_target=0.5)), (0.1, genchart.nested_parallel_chart)]), ifam.ScenarioSpec(p_queue=0.4, p_bits=0.2), icheck.interest_c02, PROOF_FILES, assumptions=['DESIGN.md section 2 well-formedness'])


replay = icheck.replay
