#!/bin/bash
# usage: allchecks.sh <seed> <tier> [parallelism]   runs every check once; prints exit codes and VIOLATION lines
seed=${1:-1}; tier=${2:-quick}; par=${3:-5}
out=/tmp/allchecks_${seed}_${tier}; rm -rf $out; mkdir -p $out
for i in $(seq -w 1 20); do echo C$i; done | xargs -P $par -I{} bash -c "VERIF_SEED=$seed /usr/bin/time -f '{} %es' /verif/check {} --tier $tier > $out/{}.out 2> $out/{}.err; echo {} exit=\$? \$(tail -1 $out/{}.err)"
grep -h "VIOLATION" $out/*.out | head -40
