"""C13 -- interpreter-family check (see icheck.py, ifam.py)."""
import os

import genchart
import icheck
import ifam

PROP = 'C13'
PROOF_FILES = [f for f in ['proofs/MetaProofs.v'] if os.path.exists(os.path.join('/verif/coq', f))]


def main(tier, seed):
    return icheck.run(PROP, tier, seed, genchart.Profile(p_time_guard=0.4, p_contract=0.3, p_orth=0.35, p_cross_region=0.5), ifam.ScenarioSpec(p_clock=0.35, p_queue=0.3, p_bits=0.25, p_fail_bit=0.4, twin=0.3, clock_offset=0.1), icheck.interest_c13, PROOF_FILES, assumptions=['integer clock values; float rounding not modelled', 'C13 quantifies over EVERY statechart: charts with transitions crossing between sibling regions (outside DESIGN.md section 2) are generated too'])


replay = icheck.replay
