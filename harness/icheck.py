"""Generic check of an interpreter-family property: proofs + correspondence + Pb on implementation outputs."""
import os
import time

import genchart
import ifam
import sx
from ifam import B
from common import (COQ, Verdict, log, proof_stage, repo_blob_ids, write_evidence, TRUSTED_BASE,
                    load_known_findings)


def expected_event(case):
    """select_event of the documentation applied to the recorded pre-state (time = step time)."""
    if case['op'][0] != 'exec':
        return None
    now = case['op'][1]
    for q in (case['pre']['iq'], case['pre']['eq']):
        if q:
            t, e = q[0]
            if t <= now:
                return e
    return None


def considered_event_ok(case):
    """The event the implementation exposed to guards / consumed is the documented next event."""
    exp = expected_event(case)
    for c in case['calls']:
        if c['sig']['interp'] == 0 and c['sig']['kind'] == 'guard' and c['sig']['event'] is not None:
            if c['sig']['event'] != exp:
                return False
    if case['out'][0] == 'macro' and case['out'][1] is not None:
        for s in case['out'][1][1]:
            if s['event'] is not None and s['event'] != exp:
                return False
    return True


def both_due(case):
    if case['op'][0] != 'exec':
        return False
    now = case['op'][1]
    iq, eq = case['pre']['iq'], case['pre']['eq']
    return bool(iq) and bool(eq) and iq[0][0] <= now and eq[0][0] <= now and iq[0][1][1:] != eq[0][1][1:]


def reveals(case):
    """some observable tells which event the implementation considered"""
    for c in case['calls']:
        if c['sig']['interp'] == 0 and c['sig']['kind'] == 'guard' and c['sig']['event'] is not None:
            return True
    if case['out'][0] == 'macro' and case['out'][1] is not None:
        return any(s['event'] is not None for s in case['out'][1][1])
    return False


def premise_ok(case):
    """The pending-event situation is the documented one as far as it can be observed."""
    return considered_event_ok(case) and (not both_due(case) or reveals(case))


EXEC = ('entry', 'exit', 'action')
UNDOCUMENTED = ('EAssert', 'EKey', 'EOther', 'EStatechart')
CONTRACT = ('pre', 'inv', 'post')


def fd_in(fdk, kinds):
    return fdk is not None and all(k is None or k in kinds for k in fdk)


def fd_any(fdk, kinds):
    return fdk is not None and any(k in kinds for k in fdk)


def run(prop, tier, seed, profile, spec, interest, proof_files, n_quick=2200, n_thorough=22000,
        assumptions=(), rule_extra='', extra_cases=None, chart_hook=None, level='proof', post=None, consts=False):
    """interest(mask, fdk, mcode, case) -> None or a short clause name (a violation of THIS property)."""
    t0 = time.time()
    v = Verdict(prop)
    have_props = os.path.exists(os.path.join(COQ, 'props', '%s_Props.v' % prop))
    info = proof_stage(prop, proof_files, v) if have_props else dict(build_ok=True, ok=True, note='no property file')
    charts, cases, stats = ifam.generate(prop, tier, seed, profile, spec, n_quick, n_thorough, chart_hook=chart_hook)
    if extra_cases:
        extra_cases(charts, cases, stats)
    masks, fails = ifam.emit_and_check(prop, charts, cases)
    n_viol = 0
    other = 0
    unattributed = 0
    other_kinds = {}
    clauses = {}
    for idx, case in enumerate(cases):
        # every case goes through the property's predicate: the clauses that look only at what the implementation
        # produced (Pb in Python) apply also when model and implementation agree (mask 0)
        m = masks.get(idx, 0)
        mask, fdk, mcode = ifam.decode(m) if m else (0, None, ifam.impl_outcome(case))
        clause = interest(mask, fdk, mcode, case)
        if clause is None and case.get('leaks'):
            clause = ('a code block that sends nothing returned the events %r: events sent by another block (one that raised after '
                      'sending, or one of another step) surface in a block that did not send them' % (case['leaks'][0],))
        if clause is None and (mask & B.OUTCOME) and ifam.impl_outcome(case) in UNDOCUMENTED and mcode not in UNDOCUMENTED:
            # whatever the property says about this step, the step did not take place: the call ended with an exception that is
            # none of the documented ones (NonDeterminismError, ConflictingTransitionsError, ContractError,
            # CodeEvaluationError, PropertyStatechartError) where the documented semantics gives a normal outcome
            clause = 'the call raised an undocumented exception (%s) where the documented semantics gives %s: the step did not take place' % (
                case['out'][1], mcode)
        if clause is None and (mask & MODEL_BITS) and not claimed_by_family(interest, mask, fdk, mcode, case):
            # model and implementation differ on this input and NO property of the family recognises the difference as its own:
            # the correspondence that carries the theorems to the code no longer checks
            unattributed += 1
            if unattributed <= 3:
                rep = ifam.describe_case(case, charts)
                rep.update(property=prop, broken='correspondence of the interpreter model with the implementation: they differ on this '
                           'input (%s; implementation: %s, model: %s) and the difference is not recognised as the violation of a particular '
                           'property' % ('+'.join(ifam.bits_names(mask & MODEL_BITS)), ifam.impl_outcome(case), mcode),
                           differing_components=ifam.bits_names(mask), first_differing_evaluator_call=fdk, model_outcome=mcode)
                v.violation(rep, tag='corr%d' % idx, no_input=True)
                n_viol += 1
        if clause is None:
            other += 1 if m else 0
            if m:
                k = '+'.join(ifam.bits_names(mask)) + ' impl=%s model=%s' % (ifam.impl_outcome(case), mcode)
                other_kinds[k] = other_kinds.get(k, 0) + 1
            continue
        clauses[clause] = clauses.get(clause, 0) + 1
        rep = ifam.describe_case(case, charts)
        rep.update(property=prop, clause=clause, differing_components=ifam.bits_names(mask),
                   first_differing_evaluator_call=fdk, model_outcome=mcode,
                   how_to_replay='./check %s --replay <this file>' % prop)
        v.violation(rep, tag=str(idx))
        n_viol += 1
    for fn, out in fails:
        v.violation(dict(property=prop, broken='correspondence lemma file did not evaluate', file=fn, log=out),
                    tag='coq', no_input=True)
        n_viol += 1
    if not info.get('build_ok') or not info.get('ok') or info.get('forbidden_tokens'):
        if n_viol == 0:
            v.violation(dict(property=prop, broken='proof obligations do not check', info=info), tag='proof',
                        no_input=True)
            n_viol += 1
    extra_cov = {}
    if consts:
        import extract_consts
        ci = extract_consts.write_and_check(prop)
        extra_cov['regenerated_constants'] = dict(obligations=ci['obligations'], ok=ci['ok'], notes=ci['notes'], extracted=ci['extracted'])
        if ci['ok'] is False and n_viol == 0:
            v.violation(dict(property=prop, broken='constants regenerated from the source no longer equal those the model and the '
                                                   'theorems were written against, and no run of this check misbehaved',
                             obligations=ci['obligations'], extracted=ci['extracted'], log=ci['log']), tag='consts', no_input=True)
            n_viol += 1
    if post:
        r = post(v, charts, cases, masks)
        if isinstance(r, tuple):
            n_viol += r[0]
            extra_cov = r[1]
        else:
            n_viol += r or 0
    dist = ifam.distribution(cases)
    fps = {ifam.case_fingerprint(c) for c in cases if ifam.nontrivial(c)}
    samples = []
    for c in cases[:400]:
        if c['out'][0] == 'macro' and c['out'][1] is not None and len(c['out'][1][1]) >= 2:
            samples.append(dict(operation=c['op'], pre_configuration=c['pre']['config'],
                                pre_queues=[c['pre']['iq'], c['pre']['eq']], outcome=c['out']))
            if len(samples) >= 2:
                break
    if not samples and cases:
        samples.append(dict(operation=cases[0]['op'], outcome=cases[0]['out']))
    cov = dict(
        obligations=info.get('obligations', 0), discharged=info.get('discharged', 0),
        checker_cmd='cd /verif/coq && make && coqc props/%s_Props.v (Print Assumptions); coqc gen/%s/cases_*.v' % (prop, prop),
        trusted_base=TRUSTED_BASE + ['Print Assumptions: ' + (
            'Closed under the global context x%d' % info.get('closed', 0) if not info.get('axioms') else '; '.join(info['axioms']))],
        theorems=info.get('theorems', []),
        evaluations=len(cases), distinct_nontrivial=len(fps),
        rule='random well-formed charts (DESIGN.md section 2) driven by random queue/clock/guard-bit/execute_once '
             'operations; each case is ONE operation from the implementation\'s own pre-state, the model is run on it by '
             'vm_compute and compared component-wise; Pb checkers run on the implementation\'s output. non-trivial = '
             'the operation queued an event, produced micro steps or raised; distinct = distinct (chart, op, '
             'pre-configuration, queues, context, time, outcome). ' + rule_extra,
        traces_validated_against_impl=len(cases), charts=stats['charts'], errors_hit=stats['errors'],
        input_distribution=dist, mismatches_attributed_to_this_property=clauses,
        hypotheses_on_the_charts_that_were_run=dict(ifam.HYP, note='number of generated charts (counted once per case file) passing the decidable '
                                                   'forms of DESIGN.md section 2 (C02Proofs.wf_chart_b), of the tree hypotheses (C03Proofs.tree_okb) and of duplicate-free dictionaries (WFProofs.dict_okb): the hypotheses of the theorems hold of what was run'),
        mismatches_not_about_this_property=other, mismatches_not_about_this_property_by_kind=other_kinds,
        mismatches_claimed_by_no_property=unattributed, samples=samples,
        source_blobs=repo_blob_ids(['sismic/interpreter/default.py', 'sismic/code/python.py', 'sismic/utilities.py',
                                    'sismic/model/statechart.py', 'sismic/interpreter/listener.py']),
        proof_info={k: info.get(k) for k in ('build_ok', 'ok', 'closed', 'axioms', 'forbidden_tokens', 'note', 'coqchk')},
    )
    cov.update(extra_cov)
    write_evidence(prop, tier, seed, t0, cov, list(assumptions), n_viol, level=level)
    return v.finish()


# ---------------------------------------------------------------------------------------------
# interest predicates: which mismatches are violations of which property
# ---------------------------------------------------------------------------------------------
def sel_agree(mask):
    return not (mask & (B.SELECTED | B.OUTCOME))


def interest_c01(mask, fdk, mcode, case):
    bad = eval_results_ok(case, ('guard',))
    if bad:
        return bad + ' (C01: a transition competes iff its guard holds)'
    if not premise_ok(case):
        return None                      # the premise "the next pending event" is broken: C05's business
    if mask & B.SELECTED:
        return 'fired transitions differ from the documented selection (C01_selection)'
    if fd_any(fdk, ('guard',)):
        return 'guards evaluated differ: which guard, in which order class, or the event it sees (C01_guard_view)'
    if (mask & B.EVENT) and not (mask & B.OUTCOME):
        return 'consumed event differs although the same transitions fire (C01_consumption)'
    return None


def interest_c02(mask, fdk, mcode, case):
    if 'config' in case.get('discontinuity', []):
        return 'the active configuration changed although no execute_once ran since the previous operation (C02_run)'
    pub = case['post'].get('public_config')
    if pub is not None and case['out'][0] != 'err' and sorted(pub) != sorted(case['post']['config']):
        return 'Interpreter.configuration (the public view) is not the active configuration after execute_once returned (C02_step)'
    if mask & B.PB_LEGAL:
        return 'configuration after a normal return is neither empty nor legal and stable (C02_step)'
    return None


def interest_c03(mask, fdk, mcode, case):
    if mask & B.PB_REPLAY:
        return 'replaying exited/entered lists of the MacroStep does not give the configuration (C03_trace_truth)'
    if not sent_order_ok(case):
        return 'the sent-event list of a micro step is not in the order in which its code sent the events (C03_trace_truth)'
    # the model runs on the recorded answers of the evaluator: when the implementation executes code in another order the
    # model asks a question that was never recorded and stops with ECode -- that is a divergence of the trace, not of the outcome
    oracle_miss = mcode == 'ECode' and ifam.impl_outcome(case) != 'ECode'
    if mask & (B.SELECTED | B.EVENT) or not premise_ok(case):
        return None
    if mask & B.OUTCOME and not oracle_miss:
        return None
    if fd_in(fdk, EXEC):
        return 'code fragments executed differ in order or content from the documented order (C03_trace_truth/C03_atomic)'
    if mask & B.MICRO and fdk is None:
        return 'micro steps (order of transitions, exit/entry order, sent events) differ (C03_atomic/C03_exit_order)'
    return None


def interest_c04(mask, fdk, mcode, case):
    impl = ifam.impl_outcome(case)
    bad = eval_results_ok(case, ('guard',))
    if bad and impl not in ('ENonDeterminism', 'EConflict'):
        # (the model only sees the evaluator's answers: a guard answered wrongly changes which transitions are "selected",
        # so that a choice or a conflict the documented semantics would report is resolved without a word)
        return bad + ' (C04: the transitions selected are those whose guards hold; none is dropped silently)'
    if not premise_ok(case) or fd_any(fdk, ('guard',)) or (mask & B.SELECTED):
        return None
    fam = ('ENonDeterminism', 'EConflict')
    if impl in fam and mcode not in fam and case.get('selected') is None:
        return None     # the implementation's selection is not observable: cannot tell C01 from C04
    if mask & B.OUTCOME and (impl in fam or mcode in fam):
        return 'implementation: %s, documented: %s (C04_nd/C04_conflict/C04_ok)' % (impl, mcode)
    if impl in fam and mcode == impl and mask & (B.CONFIG | B.QUEUES | B.MEMORY | B.CTX | B.OLD | B.TRACE | B.LOGS):
        return 'something happened although %s was raised (C04_nothing_happened)' % impl
    return None


def interest_c05(mask, fdk, mcode, case):
    if mask & B.PB_QINV:
        return 'queue not sorted by due time / internal and external mixed (Q_inv)'
    if case['op'][0] == 'queue' and mask & (B.QUEUES | B.CONFIG | B.CTX | B.TIMES | B.MEMORY):
        return 'queue() did not insert the event at the documented position or changed something else (C05_insert)'
    if not considered_event_ok(case):
        return 'the event considered is not the head of the internal queue if due, else of the external queue (C05_which)'
    if case['op'][0] == 'exec' and case['out'][0] == 'macro' and case['out'][1] is None and expected_event(case) is not None:
        return 'an event is due (head of a queue with due time <= step time) but execute_once returned None: not consumable as soon as due (C05_delay)'
    if mask & B.QUEUES and not (mask & (B.SELECTED | B.OUTCOME | B.MICRO)):
        return 'queues after the step differ although the same micro steps ran (C05_one/C05_conservation)'
    if mask & B.EVENT and not (mask & (B.SELECTED | B.OUTCOME)) and not fd_any(fdk, ('guard',)):
        return 'consumed event differs (C05_consumed_when)'
    return None


def interest_c06(mask, fdk, mcode, case):
    if mask & B.PB_HIST:
        return 'history memory / states entered for a history state differ from the replay of the macro step (C06_record/C06_restore)'
    return None


def has_history_step(case):
    kinds = dict((n, s['kind']) for n, s in ifam.sx.chart_value(case['scenario'].sc)['states'])
    if case['out'][0] != 'macro' or case['out'][1] is None:
        return False
    for s in case['out'][1][1]:
        for n in list(s['entered']) + list(s['exited']):
            if kinds.get(n) in ('KShallow', 'KDeep'):
                return True
    return False


def interest_c08(mask, fdk, mcode, case):
    bad = eval_results_ok(case, ('pre', 'inv', 'post'))
    if bad:
        return bad + ' (C08_points / C08_first_failure: the verdict of a contract is the value of its condition)'
    if mask & B.PB_SLOTS:
        return 'code executed / conditions evaluated are not exactly the documented points of the returned macro step (C08_points)'
    if mask & B.PB_FAIL:
        return 'a false or erring evaluation is not the last one, or is not what the raised error carries (C08_first_failure)'
    if mask & (B.SELECTED | B.MICRO | B.CONFIG | B.EVENT | B.TIMES | B.PB_TIMES | B.PB_LEGAL) or not premise_ok(case) \
            or fd_any(fdk, ('guard',) + EXEC):
        return None
    if mask & B.OUTCOME and 'EContract' not in (ifam.impl_outcome(case), mcode):
        return None
    if fd_in(fdk, CONTRACT) and case['out'][0] == 'err':
        return 'contract conditions evaluated before the failure differ: which, order, or what they see (C08_points/C08_old)'
    if fd_in(fdk, CONTRACT):
        return 'what a contract condition sees differs (event, __old__, after/idle base, sent) (C08_old)'
    if mask & B.OLD and not (mask & B.OUTCOME):
        return '__old__ store differs (C08_old)'
    return None


MODEL_BITS = (B.OUTCOME | B.SELECTED | B.EVENT | B.MICRO | B.CONFIG | B.QUEUES | B.MEMORY | B.TIMES | B.TRACE | B.CTX | B.LOGS
              | B.BOUND | B.PROPS | B.OLD | B.INTERLEAVE)


def claimed_by_family(own, mask, fdk, mcode, case):
    """does the predicate of some OTHER property of the interpreter family recognise this difference?"""
    for f in (interest_c01, interest_c02, interest_c03, interest_c04, interest_c05, interest_c06, interest_c08, interest_c10,
              interest_c13, interest_c15):
        if f is own:
            continue
        try:
            if f(mask, fdk, mcode, case):
                return True
        except Exception:  # noqa
            return True
    return False


def report_unattributed(prop, v, masks, cases, charts, limit=2):
    """for the checks that evaluate their reference runs against the model on the side (C07, C18): a difference between model
    and implementation that no property of the family recognises as its own breaks the correspondence the theorems rest on"""
    n = 0
    for idx in sorted(masks):
        mask, fdk, mcode = ifam.decode(masks[idx])
        if (mask & MODEL_BITS) and not claimed_by_family(None, mask, fdk, mcode, cases[idx]):
            n += 1
            if n <= limit:
                rep = ifam.describe_case(cases[idx], charts)
                rep.update(property=prop, broken='correspondence of the interpreter model with the implementation: they differ on this '
                           'input (%s; implementation: %s, model: %s) and the difference is not recognised as the violation of a particular '
                           'property' % ('+'.join(ifam.bits_names(mask & MODEL_BITS)), ifam.impl_outcome(cases[idx]), mcode),
                           differing_components=ifam.bits_names(mask), first_differing_evaluator_call=fdk, model_outcome=mcode)
                v.violation(rep, tag='corr%d' % idx, no_input=True)
    return n


class _NS:
    def __init__(self, d):
        self.__dict__.update(d)


def _pyval(v):
    return {'i': lambda: v[1], 'b': lambda: v[1], 's': lambda: v[1], 'n': lambda: None}[v[0]]()


def eval_results_ok(case, kinds):
    """Independent re-evaluation of guards / contract conditions: the harness evaluates the condition TEXT itself with Python,
    in an environment rebuilt from what the evaluator exposed at that call (context variables, time, the configuration seen by
    active(), the bases of after()/idle(), sent(), received(), the event, __old__), and compares with the result the
    evaluator produced.  Conditions using names that cannot be rebuilt (objects, callables of the context) are skipped.
    -> None or a description of the first disagreement."""
    for c in case['calls']:
        sig = c['sig']
        if c['op'] != 'eval' or sig['kind'] not in kinds or sig['interp'] != 0 or c.get('result') is None:
            continue
        code = sig['code']
        env = {}
        skip = False
        for k, v in c['ctx']:
            if v[0] == 's' and (v[1].startswith('object:') or v[1][:1] in '[{('):
                skip = skip or (k in code)
                continue
            env[k] = _pyval(v)
        if skip or 'tick' in code:
            continue
        t = sig['time']
        env['time'] = t
        cfg = set(sig['config'] or ())
        env['active'] = lambda n, cfg=cfg: n in cfg
        if sig['kind'] in ('guard', 'inv', 'post'):
            def mk(base):
                if base is None or isinstance(base, tuple):
                    return None
                return lambda d, base=base, t=t: t - d >= base
            fa, fi = mk(sig['entry']), mk(sig['idle'])
            if ('after(' in code and fa is None) or ('idle(' in code and fi is None):
                continue
            env['after'], env['idle'] = fa, fi
        if sig['sent'] is not None:
            env['sent'] = lambda n, l=sig['sent']: n in l
        ev = sig['event']
        if ev is not None:
            env['event'] = _NS(dict([('name', ev[1])] + [(k, _pyval(v)) for k, v in ev[2] if '.' not in k]))
            env['received'] = lambda n, ev=ev: n == ev[1]
        else:
            env['event'] = None
            env['received'] = lambda n: False
        if sig['old'] is not None:
            env['__old__'] = _NS({k: _pyval(v) for k, v in sig['old'] if not (v[0] == 's' and (v[1].startswith('object:') or v[1][:1] in '[{('))})
        env['ok'] = lambda: True
        try:
            want = bool(eval(code, {'__builtins__': {'len': len}}, env))
        except Exception:  # noqa
            continue      # the harness cannot evaluate it (missing name, raising condition): no verdict
        if want != bool(c['result']):
            return 'the %s %r of %s evaluated to %r although it is %r of what it could observe' % (
                sig['kind'], code, sig['owner'], c['result'], want)
    return None


def sent_order_ok(case):
    """The events a straight-line code block sent are reported in the order in which the block called send()/notify():
    compared with the TEXT of the block (kinds and names), independently of what the evaluator returns."""
    import re
    for c in case['calls']:
        if c['op'] != 'exec' or not c['sig']['code'] or c.get('result') is None:
            continue
        code = c['sig']['code']
        if re.search(r'^\s*(if|for|while|try|def)\b', code, re.M):
            continue
        want = [('I' if m.group(1) == 'send' else 'M', m.group(2)) for m in re.finditer(r"\b(send|notify)\('(\w+)'", code)]
        got = [(e[0], e[1]) for e in c['result'][1]]
        if want != got:
            return False
    return True


def failfast_ok(case):
    """C10_failfast on the implementation's own log: when execute_once raised PropertyStatechartError for property
    statechart L, no code of the MONITORED statechart was executed or evaluated after the last evaluator call of L's
    interpreter (i.e. after the delivery during which L became final)."""
    o = case['out']
    if o[0] != 'err' or o[1][0] != 'EProperty':
        return True
    try:
        pid = case['wpost']['props'][o[1][1]][1]['id']
    except Exception:  # noqa
        return True
    last = None
    for i, c in enumerate(case['calls']):
        if c['sig']['interp'] == pid:
            last = i
    if last is None:
        return True
    return not any(c['sig']['interp'] == 0 for c in case['calls'][last + 1:])


def interest_c10(mask, fdk, mcode, case):
    impl = ifam.impl_outcome(case)
    if not failfast_ok(case):
        return 'code of the monitored statechart ran after a property statechart had become final (C10_failfast)'
    if not sent_order_ok(case):
        return 'the events sent by one code block are not reported in the order in which the block sent them (C10_complete: in the order the things happened)'
    if mask & B.PB_META:
        return 'a listener did not receive exactly the documented meta-events of the returned macro step (C10_complete)'
    if mask & B.INTERLEAVE and not (mask & (B.TRACE | B.SELECTED | B.EVENT | B.LOGS)) and premise_ok(case):
        return 'meta-events are not emitted at the documented points between the code of the monitored statechart: same code, same meta-events, another interleaving (C10_complete: in the order the things happened / C10_failfast)'
    if mask & (B.SELECTED | B.EVENT) or not premise_ok(case) or fdk is not None:
        return None
    if mask & B.OUTCOME and 'EProperty' in (impl, mcode):
        return 'implementation: %s, documented: %s (C10_failfast)' % (case['out'], mcode)
    if mask & B.OUTCOME:
        return None
    if mask & (B.LOGS | B.PROPS) and not (mask & B.MICRO):
        return 'meta-events delivered / property interpreter state differ (C10_complete/C10_sync)'
    return None


def time_bases_ok(case):
    """The bases of after()/idle() that guards and end-of-step invariants were given (probed through the closures the evaluator
    exposes) are the entry / idle times of the owning state: guards are evaluated before anything changes (pre-state values),
    the invariants at the end of the macro step see the post-state values.  Transition postconditions and invariants of a
    macro step with a single transition and no earlier re-entry of the source see the pre-state idle time."""
    if case['op'][0] != 'exec':
        return None
    pre_e, pre_i = dict(case['pre']['entry']), dict(case['pre']['idle'])
    post_e, post_i = dict(case['post']['entry']), dict(case['post']['idle'])
    steps = case['out'][1][1] if case['out'][0] == 'macro' and case['out'][1] is not None else None
    trans = case['scenario'].sc._transitions
    n_calls = len(case['calls'])
    # index of the first call that is not a guard: the end-of-step invariants are the trailing 'inv' calls on states
    for idx, c in enumerate(case['calls']):
        sig = c['sig']
        if sig['interp'] != 0 or c['op'] != 'eval':
            continue
        for nm, b in (('after', sig['entry']), ('idle', sig['idle'])):
            if isinstance(b, tuple) and b[0] in ('none', 'shape'):
                return '%s() given to the %s of %s is not of the form "time - seconds >= base" (%s)' % (nm, sig['kind'], sig['owner'], b[0])
        if isinstance(sig['entry'], tuple) or isinstance(sig['idle'], tuple):
            continue
        own = sig['owner']
        name = own[1] if own[0] == 'S' else (trans[own[1]].source if 0 <= own[1] < len(trans) else None)
        if name is None:
            continue
        if sig['kind'] == 'guard':
            want = (pre_e.get(name), pre_i.get(name))
        elif sig['kind'] == 'inv' and own[0] == 'S' and steps is not None and case['out'][0] == 'macro' \
                and all(cc['sig']['kind'] == 'inv' and cc['sig']['owner'][0] == 'S' for cc in case['calls'][idx:]):
            want = (post_e.get(name), post_i.get(name))
        elif sig['kind'] in ('post', 'inv') and own[0] == 'T' and steps is not None \
                and sum(1 for st in steps if st['trans'] is not None) == 1 and steps[0]['trans'] is not None:
            want = (pre_e.get(name), pre_i.get(name))
        else:
            continue
        got = (sig['entry'], sig['idle'])
        if None in want or None in got:
            continue
        if got != want:
            return 'after()/idle() of the %s of %s count from %r / %r instead of from the entry time %r / idle time %r of %r' % (
                sig['kind'], own, got[0], got[1], want[0], want[1], name)
    return None


def interest_c13(mask, fdk, mcode, case):
    disc = [f for f in case.get('discontinuity', []) if f in ('time', 'entry', 'idle')]
    if disc:
        return ('%s of the interpreter changed although no execute_once of it ran since the previous operation '
                '(C13_frozen: time changes only at execute_once; C13_entry_idle: latest macro step that entered / fired)' % disc)
    bad = time_bases_ok(case)
    if bad:
        return bad + ' (C13_after_idle)'
    if case['op'][0] == 'exec' and any(t != case['op'][1] for t in case.get('listener_times', [])):
        return 'while a listener handles a meta-event of the step, the interpreter\'s time is not the value sampled for the step (C13_frozen)'
    if mask & B.PB_TIMES:
        return 'step time not frozen or entry/idle times not as the macro step says (C13_frozen/C13_entry_idle)'
    if case['op'][0] == 'exec' and case['out'][0] == 'err' and (mask & B.TIMES) \
            and not (mask & (B.OUTCOME | B.CONFIG | B.SELECTED)):
        return 'after a step that raised, the entry/idle times are not those of the states entered / transitions processed before the failure (C13_entry_idle)'
    if case['op'][0] == 'queue' and mask & B.TIMES:
        return 'time changed outside execute_once (C13_frozen)'
    return None


def interest_c15(mask, fdk, mcode, case):
    if mask & B.PB_DELIV:
        return 'a bound callable did not receive exactly the internal events listed in the macro step (C15_delivery)'
    if mask & (B.SELECTED | B.EVENT | B.OUTCOME | B.MICRO) or not premise_ok(case) or fdk is not None:
        return None
    if mask & B.BOUND:
        return 'deliveries to bound callables/interpreters differ (C15_delivery/C15_filter/C15_detach)'
    return None


# ---------------------------------------------------------------------------------------------
# replay of a reported case on the implementation as it is now
# ---------------------------------------------------------------------------------------------
def _unval(v):
    return {'i': lambda: v[1], 'b': lambda: v[1], 's': lambda: v[1], 'n': lambda: None}[v[0]]()


def _unevent(e):
    from sismic.model import Event, InternalEvent, MetaEvent
    kind, name, data = e
    d = {k: _unval(v) for k, v in data if '.' not in k}
    return {'E': Event, 'I': InternalEvent, 'M': MetaEvent}[kind](name, **d)


def replay(path):
    """Rebuild the statechart of the replay file, put a fresh interpreter of the CURRENT implementation into the recorded
    pre-state, perform the recorded operation and print what happens next to what was recorded."""
    import json
    import sismic.io
    r = json.load(open(path))
    if 'chart_yaml' not in r or 'pre_state' not in r:
        print(json.dumps(r, indent=1)[:4000])
        return 0
    sc = sismic.io.import_from_yaml(r['chart_yaml'])
    holder = {}

    def tick():
        holder['s'].clock.time += 1
    scn = sx.Scenario(sc, n_rec=sum(1 for k, _ in r.get('listeners', []) if k == 'rec'), initial_context={'tick': tick},
                      ignore_contract=r['pre_state'].get('ignore', False))
    holder['s'] = scn
    it, pre = scn.interp, r['pre_state']
    it._initialized = pre['initialized']
    it._time = pre['time']
    it._configuration = set(pre['config'])
    it._memory = {k: list(v) for k, v in pre['memory']}
    it._entry_time = dict((k, v) for k, v in pre['entry'])
    it._idle_time = dict((k, v) for k, v in pre['idle'])
    it._sent_events = [_unevent(e) for e in pre['sent']]
    it._internal_queue = [(t, _unevent(e)) for t, e in pre['iq']]
    it._external_queue = [(t, _unevent(e)) for t, e in pre['eq']]
    for k, v in pre['ctx']:
        it._evaluator._context[k] = _unval(v)
    op = r['operation']
    if op[0] == 'exec':
        scn.clock.time = op[1]
        case = scn.step_case(('exec',))
    else:
        case = scn.step_case(('queue', _unevent(op[1])))
    print('property            :', r.get('property'), '-', r.get('clause'))
    print('operation           :', op)
    print('recorded outcome    :', json.dumps(r.get('implementation_outcome'), default=str)[:1500])
    print('outcome now         :', json.dumps(case['out'], default=str)[:1500])
    print('recorded post config:', r.get('implementation_post_state', {}).get('config'))
    print('post config now     :', list(case['post']['config']))
    print('(the __old__ store of the pre-state is not restored: contracts reading __old__ may differ)')
    return 0
