#!/bin/bash
# usage: seedtest.sh <seed dir> <k> <seed id> <PROP>...
# Confirms a seeded change (patch<k>.diff, demo<k>.py, meta<k>.json produced independently in <seed dir>):
#   the patch applies to /repo's HEAD, the test-suite still passes as the baseline, the demonstration fails with it and
#   passes without it; then runs the named checks against a scratch copy with the patch applied.  /repo is not touched.
src=$(readlink -f "$1"); k=$2; id=$3; shift 3
d=$(mktemp -d /tmp/seedchk.XXXXXX)
git -C /repo worktree add -q --detach $d/repo HEAD || exit 2
cd $d/repo
mkdir $d/demo; cp $src/demo$k.py $d/demo/demo.py   # (the script's own directory must not contain another sismic)
PYTHONPATH=$d/repo /venv/bin/python $d/demo/demo.py > $d/demo_clean.log 2>&1; rc_clean=$?
git apply $src/patch$k.diff || { echo "PATCH DOES NOT APPLY"; git -C /repo worktree remove --force $d/repo; exit 2; }
PYTHONPATH=$d/repo /venv/bin/python $d/demo/demo.py > $d/demo_mut.log 2>&1; rc_mut=$?
PYTHONPATH=$d/repo /venv/bin/python -m pytest -q -p no:cacheprovider --timeout=900 tests docs 2>&1 | grep -v conda | tail -1 > $d/pytest.log
echo "seed=$id demo_clean_rc=$rc_clean demo_mut_rc=$rc_mut pytest: $(cat $d/pytest.log)"
res=""
for p in "$@"; do
  out=$(VERIF_EVIDENCE_DIR=$d/evidence VERIF_REPO=$d/repo /verif/check $p 2>/dev/null | grep -c VIOLATION)
  echo "  check $p violation_lines=$out"
  res="$res $p=$out"
done
mkdir -p /verif/seeded/$id
cp $src/patch$k.diff /verif/seeded/$id/patch.diff; cp $src/demo$k.py /verif/seeded/$id/demo.py; cp $src/meta$k.json /verif/seeded/$id/meta_agent.json
echo "{\"demo_clean_rc\": $rc_clean, \"demo_mut_rc\": $rc_mut, \"pytest\": \"$(cat $d/pytest.log)\", \"checks\": \"$res\"}" > /verif/seeded/$id/confirm.json
cd /; git -C /repo worktree remove --force $d/repo; rm -rf $d
