"""C09 -- contract checking is transparent.

(1) correspondence of the model's ignore_contract path with the implementation (one-operation cases,
    Pb: with ignore_contract the evaluator calls are exactly the code slots of the macro step);
(2) metamorphic check on the implementation itself: the same chart and inputs under both settings,
    in lock-step, also on the shipped elevator / microwave contract charts."""
import os
import random

import genchart
import icheck
import ifam
import sx
from ifam import B

PROP = 'C09'
PROOF_FILES = [f for f in ['proofs/FrameLib.v', 'proofs/C09Proofs.v'] if os.path.exists(os.path.join('/verif/coq', f))]


def interest(mask, fdk, mcode, case):
    impl = ifam.impl_outcome(case)
    if impl == 'EContract':
        return 'a ContractError was raised although ignore_contract=True (C09_ignore_silent)'
    if any(c['sig']['interp'] == 0 and c['sig']['kind'] in ('pre', 'inv', 'post') for c in case['calls']):
        return 'a contract condition was evaluated although ignore_contract=True (C09_ignore_silent)'
    if mask & B.PB_SLOTS:
        return 'evaluator calls are not exactly the code slots of the macro step with ignore_contract=True (C09_ignore_silent)'
    return None


def lockstep(rng, chart_factory, n_ops, drive, plain=False):
    """Run two interpreters (checked / ignoring) on the same inputs. Returns (status, detail).
    plain: stock interpreter and evaluator, nothing recorded or probed in between."""
    logical = rng.random() < 0.35     # a clock on which every reading during a step is observable (sx.LogicalClock)

    def mk(ignore):
        holder = {}

        def tick():
            holder['s'].clock.time += 1
        holder['s'] = sx.Scenario(chart_factory(), ignore_contract=ignore, n_rec=1, plain=plain,
                                  initial_context={'tick': tick, 'res': sx.Resource()}, logical_clock=logical)
        return holder['s']
    a, b = mk(False), mk(True)
    script = []
    for k in range(n_ops):
        op = drive(rng, a)
        script.append(op)
        outs = []
        for sc in (a, b):
            kind = op[0]
            if kind == 'clock':
                sc.clock.time += op[1]
                outs.append(None)
            elif kind == 'bits':
                sc.interp._evaluator._context['g'] = op[1]
                outs.append(None)
            elif kind == 'queue':
                from sismic.model import Event
                sc.interp.queue(Event(op[1], **dict(op[2])))
                outs.append(None)
            else:
                case = sc.step_case(('exec',))
                outs.append(case)
        if outs[0] is None:
            continue
        ca, cb = outs
        if ca['out'][0] == 'err':
            if ca['out'][1][0] in ('EContract',) or (ca['out'][1][0] == 'ECode' and ca['out'][1][1] in ('pre', 'inv', 'post')):
                return 'premise-ends', script      # a condition failed or erred: outside the statement
            if cb['out'] != ca['out']:
                return 'violation', dict(script=script, checked=ca['out'], ignoring=cb['out'], at=k)
            return 'ended', script
        keys = ('config', 'public_config', 'ctx', 'iq', 'eq', 'sent', 'memory', 'entry', 'idle', 'time', 'initialized')
        diff = [kk for kk in keys if ca['post'][kk] != cb['post'][kk]]
        if cb['out'] != ca['out'] or diff or ca['wpost']['logs'] != cb['wpost']['logs']:
            return 'violation', dict(script=script, checked=ca['out'], ignoring=cb['out'], differing_fields=diff,
                                     logs_equal=ca['wpost']['logs'] == cb['wpost']['logs'], at=k)
    return 'ok', script


def drive_generated(rng, sc):
    r = rng.random()
    if r < 0.15:
        return ('clock', rng.choice([1, 2, 3, 5]))
    if r < 0.3:
        return ('bits', rng.getrandbits(12))
    if r < 0.6:
        e = ifam.make_event(rng)
        return ('queue', e.name, tuple(sorted(e.data.items())))
    return ('exec',)


def shipped(name):
    import sismic.io
    from common import REPO
    path = {'elevator': REPO + '/docs/examples/elevator/elevator_contract.yaml',
            'microwave': REPO + '/docs/examples/microwave/microwave_with_contracts.yaml'}[name]
    return lambda: sismic.io.import_from_yaml(filepath=path)


def drive_shipped(events):
    def drive(rng, sc):
        r = rng.random()
        if r < 0.2:
            return ('clock', rng.choice([1, 2, 5, 10]))
        if r < 0.6:
            ev = rng.choice(events)
            if ev == 'floorSelected':
                return ('queue', ev, (('floor', rng.randint(0, 5)),))
            return ('queue', ev, ())
        return ('exec',)
    return drive


def post(tier, seed):
    def run(v, charts, cases, masks):
        rng = random.Random(seed * 31 + 9)
        n = 600 if tier == 'quick' else 5000
        stats = dict(ok=0, ended=0, premise_ends=0, violation=0)
        nv = 0
        import pickle
        # the interpreter corpus first (hand-shaped charts, e.g. conditions reading the configuration in the middle of a micro
        # step), each under its script, with the recording and with the stock interpreter
        import corpus_interp
        for entry in corpus_interp.entries():
            for plain in (False, True):
                try:
                    blob = pickle.dumps(corpus_interp.build(entry)[0])
                except Exception:  # noqa
                    continue
                ops = [op for op in entry[3] if op[0] in ('clock', 'bits', 'queue', 'exec')]
                it = iter(ops)
                status, detail = lockstep(rng, (lambda b: (lambda: pickle.loads(b)))(blob), len(ops), lambda r, sc, it=it: next(it), plain=plain)
                stats[status.replace('-', '_')] += 1
                stats['corpus_runs'] = stats.get('corpus_runs', 0) + 1
                if status == 'violation':
                    nv += 1
                    v.violation(dict(property=PROP, clause='checked and ignoring runs differ although no condition failed '
                                                            '(C09_transparent)', corpus=entry[0], detail=detail), tag='corpus_%s' % entry[0])
        for i in range(n):
            if i % 10 == 0:
                fac = shipped('elevator')
                drv = drive_shipped(['floorSelected'])
            elif i % 10 == 1:
                fac = shipped('microwave')
                drv = drive_shipped(['door_opened', 'door_closed', 'item_placed', 'item_removed', 'timer_inc',
                                     'timer_dec', 'timer_reset', 'cooking_start', 'cooking_stop', 'timer_tick',
                                     'power_inc', 'power_dec', 'power_reset', 'input_timer_inc'])
            else:
                proto = genchart.valid_chart(rng, genchart.Profile(p_contract=0.7, p_active_guard=0.3, p_entry_code=0.6))
                blob = pickle.dumps(proto)
                fac = (lambda b: (lambda: pickle.loads(b)))(blob)
                drv = drive_generated
            status, detail = lockstep(rng, fac, rng.randint(10, 30), drv, plain=(i % 2 == 0))
            stats[status.replace('-', '_')] += 1
            if status == 'violation':
                nv += 1
                v.violation(dict(property=PROP, clause='checked and ignoring runs differ although no condition failed '
                                                        '(C09_transparent)', detail=detail,
                                 how_to_replay='./check C09 --replay <this file>'), tag='meta%d' % i)
        return nv, dict(metamorphic_lockstep_runs=stats)
    return run


def main(tier, seed):
    p = post(tier, seed)
    return icheck.run(PROP, tier, seed, genchart.Profile(p_contract=0.6), ifam.ScenarioSpec(ignore_contract=True, p_fail_bit=0.5),
                      interest, PROOF_FILES, n_quick=700, n_thorough=8000,
                      assumptions=['conditions are side-effect free (WF8)',
                                   'metamorphic lock-step runs are a test of the implementation, not a proof'],
                      rule_extra='plus lock-step runs of the implementation under both settings (generated charts, '
                                 'shipped elevator_contract.yaml and microwave_with_contracts.yaml).', post=p)


def replay(path):
    import json
    import icheck
    return icheck.replay(path)
