"""C18 -- a pickled or deep-copied interpreter continues exactly like the original.

(1) Coq theorems (props/C18_Props.v over theories/Snapshot.v): the store behind __old__ is keyed by object identity in
    Python; re-keying it for the copied objects leaves the owner-keyed view of the interpreter model unchanged, so the
    copy denotes the SAME model interpreter and every continuation is the same (C18_continue); without the re-keying
    the copy loses __old__ (C18_continue_refuted_without_rekey, the defect switch).
(2) what pickle / deepcopy really keep is runtime behaviour: at EVERY macro-step boundary of generated runs (contracts
    reading __old__, nested mutable context values, history, delayed internal and external events, stopped and
    RUNNING clocks) the real interpreter is pickled and deep-copied;
      (a) the abstract state of each copy (all fields, the __old__ store translated to owner keys through the COPY's
          objects) must equal the original's;
      (b) the original is run to the end of the script first, then each copy is run on the same continuation: outcomes,
          contexts, configurations, queues, memory, times must be identical step by step -- whatever the original did
          in the meantime (no shared mutable state);
      (c) the original's run must equal a reference run in which no snapshot was taken (undisturbed);
(3) the copies' continuation steps are evaluated against the Coq model from their own captured pre-states.
"""
import copy
import json
import os
import pickle
import random
import time

import genchart
import ifam
import metam
import sx
from common import (COQ, Verdict, proof_stage, repo_blob_ids, write_evidence, TRUSTED_BASE)

PROP = 'C18'
PROOF_FILES = [f for f in ['theories/Snapshot.v', 'proofs/C18Proofs.v'] if os.path.exists(os.path.join(COQ, f))]

WALL = [0]


def probe():
    """a picklable callable of the initial context (module-level function): the same code text `probe()` is used both as a
    guard and as an action in the generated charts"""
    return True


def add_nested_state(sc, rng):
    """a nested mutable context value, changed in place by entry code and read through __old__ by contracts"""
    sc._preamble = (sc.preamble or '') + '\nh = [[0]]'
    owners = [s for s in sc._states.values() if hasattr(s, 'on_entry') and s.__class__.__name__ in ('BasicState', 'CompoundState', 'OrthogonalState')]
    for s in rng.sample(owners, min(len(owners), rng.randint(1, 4))):
        s.on_entry = ((s.on_entry + '\n') if s.on_entry else '') + 'h[0].append(x)'
        if rng.random() < 0.8:
            s.invariants.append('len(h[0]) >= len(__old__.h[0]) and len(h) == len(__old__.h)')
    ts = list(sc._transitions)
    rng.shuffle(ts)
    # the SAME code text as a guard and as executed code
    for t in ts[:3]:
        if t.event is not None:
            t.guard = 'probe()'
    for t in ts[2:5]:
        t.action = 'probe()'
    for st in rng.sample(owners, min(len(owners), 2)):
        st.on_exit = 'probe()'
        st.on_entry = 'probe()' if rng.random() < 0.5 else st.on_entry
    for t in sc._transitions:
        if t.action and rng.random() < 0.3:
            t.action = t.action + '\nh[0].append(y)'
            if rng.random() < 0.5:
                t.postconditions.append('len(h[0]) >= len(__old__.h[0])')


def apply(scn, op, running):
    """-> normalised result of an exec, or None for the other operations"""
    scn.activate()
    k = op[0]
    if k == 'clock':
        if running:
            WALL[0] += op[1]
        else:
            scn.clock.time += op[1]
        return None
    if k == 'exec':
        c = scn.step_case(('exec',))
        return c
    return metam.apply_op(scn, op)


def deep_ctx(interp):
    """the context and the frozen __old__ contexts with their mutable values written out"""
    ev = interp._evaluator
    ctx = tuple(sorted((k, repr(v)) for k, v in ev._context.items() if not callable(v)))
    old = []
    for val in getattr(ev, '_memory', {}).values():
        obj, frozen = val if isinstance(val, tuple) else (None, val)
        old.append((repr(sx.owner_key(interp, obj)) if obj is not None else '?',
                    tuple(sorted((k, repr(v)) for k, v in dict(frozen).items() if not callable(v)))))
    return ctx, tuple(sorted(old))


def norm(scn, c):
    return metam.norm_case(scn, c) + (c['post']['entry'], c['post']['idle'], c['post']['sent'], c['post']['old'],
                                      deep_ctx(scn.interp))


def snapshot_state(interp, rec):
    s = sx.snap_interp(interp, rec)
    s.pop('id', None)
    s['deep'] = deep_ctx(interp)
    return s


def run_rest(scn, script, running, wall0, collect=None):
    WALL[0] = wall0
    out = []
    for op in script:
        c = apply(scn, op, running)
        if c is None:
            continue
        if collect is not None:
            collect.append(c)
        out.append(norm(scn, c))
        if c['out'][0] == 'err':
            break
    return out


def time_prop_chart():
    """a property statechart that never becomes final and records what its clock shows when the monitored interpreter steps"""
    from sismic.model import BasicState, CompoundState, Statechart, Transition
    sc = Statechart('what time is it', preamble='seen = -1\nn = 0')
    sc.add_state(CompoundState('r', initial='w'), None)
    sc.add_state(BasicState('w'), 'r')
    sc.add_transition(Transition('w', None, event='step started', action='seen = time\nn = n + 1'))
    sc.add_transition(Transition('w', None, event='event consumed', guard='time >= 0', action='n = n + 1'))
    return sc


def pair_state(it):
    ev = lambda e: (type(e).__name__, e.name, tuple(sorted((k, repr(v)) for k, v in e.data.items())))
    return (tuple(it.configuration), tuple(sorted((k, repr(v)) for k, v in it.context.items() if not callable(v))),
            tuple((t, ev(e)) for t, e in it._internal_queue), tuple((t, ev(e)) for t, e in it._external_queue),
            tuple(sorted((k, tuple(sorted(v))) for k, v in it._memory.items())), it.time)


def pair_apply(pair, op):
    """op on a pair of interpreters bound to each other: ('q', i, name) ('x', i) ('clock', d) -> outcome"""
    from sismic.model import Event
    if op[0] == 'q':
        pair[op[1]].queue(Event(op[2]))
        out = None
    elif op[0] == 'clock':
        for it in pair:
            it.clock.time += op[1]
        out = None
    elif op[0] == 'clock0':
        pair[0].clock.time += op[1]       # (the second follows the first through its synchronised clock)
        out = None
    else:
        try:
            r = pair[op[1]].execute_once()
            out = None if r is None else tuple((m.event and m.event.name, m.transition and (m.transition.source, m.transition.target),
                                                tuple(m.entered_states), tuple(m.exited_states),
                                                tuple((type(e).__name__, e.name) for e in m.sent_events)) for m in r.steps)
        except Exception as e:  # noqa
            out = ('raised', type(e).__name__)
    return (out, pair_state(pair[0]), pair_state(pair[1]))


def pair_check(rng, n, v, stats):
    """Interpreters that talk to each other (bound both ways) are snapshotted TOGETHER - one pickle / one deepcopy of the
    pair - as a client saving a whole system does: the copies must go on talking to each other, not to the originals, and
    continue exactly like the originals; the originals must not notice."""
    import sismic.io
    from sismic.interpreter import Interpreter
    nv = 0
    prof = genchart.Profile(use_tick=False, use_k=False, p_send=0.85, p_action=0.9, p_contract=0.0, max_states=6, p_event_probe=False)
    for k in range(n):
        blobs = [pickle.dumps(genchart.valid_chart(rng, prof)) for _ in range(2)]

        monitored = (k % 3 == 2)     # every third pair: an interpreter and the property statechart bound to it

        def mk():
            if monitored:
                a = Interpreter(pickle.loads(blobs[0]))
                b = a.bind_property_statechart(time_prop_chart())._interpreter
                return (a, b)
            a, b = (Interpreter(pickle.loads(bl)) for bl in blobs)
            a.bind(b)
            b.bind(a)
            return (a, b)
        script = []
        for _ in range(rng.randint(8, 18)):
            r = rng.random()
            who = 0 if monitored else rng.randrange(2)
            script.append(('q', who, rng.choice(['e0', 'e1', 'e2'])) if r < 0.35 else
                          (('clock0', rng.choice([1, 2, 5])) if monitored and r < 0.5 else
                           (('clock', rng.choice([1, 2, 5])) if r < 0.45 else ('x', who))))
        if monitored:
            stats['monitored_pairs'] = stats.get('monitored_pairs', 0) + 1
        ref = [pair_apply(p0, op) for p0 in [mk()] for op in script]
        orig = mk()
        snaps, got = [], []
        for pos, op in enumerate(script):
            if op[0] == 'x' and rng.random() < 0.5:
                for kind in ('pickle', 'deepcopy'):
                    try:
                        cp = pickle.loads(pickle.dumps(orig)) if kind == 'pickle' else copy.deepcopy(orig)
                        snaps.append((pos, kind, cp))
                        stats['pair_snapshots'] = stats.get('pair_snapshots', 0) + 1
                    except Exception as e:  # noqa
                        nv += 1
                        v.violation(dict(property=PROP, clause='%s of a pair of bound interpreters raised' % kind, error=repr(e),
                                         charts=[sismic.io.export_to_yaml(pickle.loads(bl)) for bl in blobs], script=script, at=pos),
                                    tag='pairerr%d' % k)
            got.append(pair_apply(orig, op))
        if got != ref:
            i = next((j for j, (x, y) in enumerate(zip(got, ref)) if x != y), 0)
            nv += 1
            v.violation(dict(property=PROP, clause='a run of two bound interpreters during which snapshots of the pair are taken differs from '
                                                    'the same run without snapshots (C18_undisturbed)', script=script, first_differing_operation=i,
                             with_snapshots=got[i], without=ref[i], charts=[sismic.io.export_to_yaml(pickle.loads(bl)) for bl in blobs]),
                        tag='pairund%d' % k)
            continue
        for pos, kind, cp in snaps:
            cont = [pair_apply(cp, op) for op in script[pos:]]
            stats['pair_continuation_ops'] = stats.get('pair_continuation_ops', 0) + len(cont)
            if cont != ref[pos:]:
                i = next((j for j, (x, y) in enumerate(zip(cont, ref[pos:])) if x != y), 0)
                nv += 1
                v.violation(dict(property=PROP, clause='the %s of a pair of interpreters bound to each other does not continue like the '
                                                        'originals (C18_continue)' % kind, script=script, snapshot_before_operation=pos,
                                 first_differing_operation=pos + i, copy=cont[i], original=ref[pos + i],
                                 charts=[sismic.io.export_to_yaml(pickle.loads(bl)) for bl in blobs]), tag='pair%d_%d%s' % (k, pos, kind[0]))
                break
    return nv


def main(tier, seed):
    import sismic.clock.clock as clockmod
    import sismic.io
    t0 = time.time()
    v = Verdict(PROP)
    have_props = os.path.exists(os.path.join(COQ, 'props', '%s_Props.v' % PROP))
    info = proof_stage(PROP, PROOF_FILES, v) if have_props else dict(build_ok=True, ok=True, note='no property file yet')
    rng = random.Random(seed * 3301 + 18)
    n_charts = 110 if tier == 'quick' else 1500
    profile = genchart.Profile(use_tick=False, p_contract=0.55, p_history=0.4, p_send=0.5, p_action=0.8, p_hist_target=0.15,
                               p_time_guard=0.2, max_states=11, alt=(0.2, genchart.parallel_profile(use_tick=False, p_contract=0.4)))
    real_time = clockmod.time
    clockmod.time = lambda: WALL[0]
    n_viol = 0
    stats = dict(charts=0, boundaries=0, pickles=0, deepcopies=0, continuation_execs=0, running_clock_runs=0,
                 old_entries_at_snapshots=0, delayed_pending_at_snapshots=0, memory_entries_at_snapshots=0,
                 snapshot_errors=0)
    model_cases, model_charts = [], {}
    orig_case_idx = []
    samples = []
    try:
        for k in range(n_charts):
            chart = genchart.valid_chart(rng, profile)
            add_nested_state(chart, rng)
            # a function defined by the statechart's own preamble that uses what the evaluator exposes (send, notify): such a
            # context can be deep-copied but not pickled (the function belongs to no module)
            helper = rng.random() < 0.15
            if helper:
                chart._preamble = (chart.preamble or '') + "\ndef emit(n):\n    send('e0', v=n)\n    notify('m0', w=n)\n    return True"
                for t in rng.sample(list(chart._transitions), min(3, len(chart._transitions))):
                    t.action = ((t.action + '\n') if t.action else '') + 'emit(x)'
                stats['charts_with_a_preamble_function'] = stats.get('charts_with_a_preamble_function', 0) + 1
            if rng.random() < 0.3:
                # code that uses setdefault(), the third thing the evaluator exposes to executed code
                for t in rng.sample(list(chart._transitions), min(2, len(chart._transitions))):
                    t.action = ((t.action + '\n') if t.action else '') + "setdefault('sd', 0)\nsd = sd + 1"
                stats['charts_using_setdefault'] = stats.get('charts_using_setdefault', 0) + 1
            if rng.random() < 0.35:
                # a statechart that was EDITED before it is run (as a tool building charts does): a state renamed (the new name
                # keeps its place in the order of names), a state added and removed again
                from sismic.model import BasicState
                texts = ' '.join(filter(None, [chart.preamble] + [getattr(st, a, None) for st in chart._states.values() for a in ('on_entry', 'on_exit')] +
                                        [x for st in chart._states.values() for x in list(st.preconditions) + list(st.postconditions) + list(st.invariants)] +
                                        [x for t in chart._transitions for x in [t.guard, t.action] + list(t.preconditions) + list(t.postconditions) + list(t.invariants)]))
                cands = [n for n in chart._states if ("'%s'" % n) not in texts and n != chart.root and (n + 'q') not in chart._states]
                try:
                    if cands:
                        chart.rename_state(rng.choice(cands), rng.choice(cands) + 'q') if False else None
                        n0 = rng.choice(cands)
                        chart.rename_state(n0, n0 + 'q')
                    chart.add_state(BasicState('zz_tmp'), chart.root)
                    chart.remove_state('zz_tmp')
                    stats['charts_edited_before_the_run'] = stats.get('charts_edited_before_the_run', 0) + 1
                except Exception:  # noqa
                    pass
            running = rng.random() < 0.25
            evs = sorted({t.event for t in chart._transitions if t.event})
            script = [metam.random_op(rng, fail_bits=False, names=evs) for _ in range(rng.randint(6, 16))]
            stats['charts'] += 1
            stats['running_clock_runs'] += running
            blob = pickle.dumps(chart)

            def fresh():
                WALL[0] = 0
                s = sx.Scenario(pickle.loads(blob), n_rec=0, picklable=True, initial_context={'probe': probe})
                if running:
                    s.clock.start()
                return s
            # reference run: no snapshot at all
            ref = run_rest(fresh(), script, running, 0)
            # run with snapshots at every boundary
            orig = fresh()
            key = 'c%d' % k
            model_charts[key] = sx.chart_value(orig.sc)
            snaps = []          # (position in script, wall, kind, copy interpreter, state of the original at that moment)
            got = []
            dead = False
            for pos in range(len(script) + 1):
                boundary = (pos == 0) or script[pos - 1][0] == 'exec'
                if boundary and not dead:
                    stats['boundaries'] += 1
                    orig.activate()
                    st0 = snapshot_state(orig.interp, orig.rec)
                    stats['old_entries_at_snapshots'] += len(st0['old'])
                    stats['memory_entries_at_snapshots'] += len(st0['memory'])
                    stats['delayed_pending_at_snapshots'] += sum(1 for t, _ in list(st0['iq']) + list(st0['eq']) if t > st0['time'])
                    for kind in (('deepcopy',) if helper else ('pickle', 'deepcopy')):
                        try:
                            cp = pickle.loads(pickle.dumps(orig.interp)) if kind == 'pickle' else copy.deepcopy(orig.interp)
                        except Exception as e:  # noqa
                            stats['snapshot_errors'] += 1
                            n_viol += 1
                            v.violation(dict(property=PROP, clause='%s of the interpreter raised' % kind, error=repr(e),
                                             chart_yaml=sismic.io.export_to_yaml(chart), script=script, at=pos), tag='snaperr%d' % k)
                            continue
                        stats['pickles' if kind == 'pickle' else 'deepcopies'] += 1
                        snaps.append((pos, WALL[0], kind, cp, st0))
                    # (undisturbed, immediate) the original's state is what it was
                    st1 = snapshot_state(orig.interp, orig.rec)
                    if st1 != st0:
                        n_viol += 1
                        v.violation(dict(property=PROP, clause='taking the snapshot changed the original (C18_undisturbed)',
                                         before=st0, after=st1, chart_yaml=sismic.io.export_to_yaml(chart), script=script, at=pos),
                                    tag='undist%d_%d' % (k, pos))
                if pos == len(script) or dead:
                    continue
                c = apply(orig, script[pos], running)
                if c is not None:
                    c['chart_key'], c['scenario'], c['prop_charts'] = key, orig, {}
                    orig_case_idx.append(len(model_cases))
                    model_cases.append(c)
                    got.append(norm(orig, c))
                    if c['out'][0] == 'err':
                        dead = True
            if got != ref:
                i = next((j for j, (a, b) in enumerate(zip(got, ref)) if a != b), min(len(got), len(ref)))
                n_viol += 1
                v.violation(dict(property=PROP, clause='a run during which snapshots are taken differs from the same run without '
                                                        'snapshots (C18_undisturbed)', chart_yaml=sismic.io.export_to_yaml(chart),
                                 script=script, first_differing_exec=i, with_snapshots=got[i] if i < len(got) else None,
                                 without=ref[i] if i < len(ref) else None), tag='undistrun%d' % k)
            # the copies, AFTER the original has finished
            n_exec_before = lambda pos: sum(1 for op in script[:pos] if op[0] == 'exec')
            for pos, wall, kind, cp, st0 in snaps:
                scn = sx.Scenario.from_interpreter(cp).activate()
                st = snapshot_state(cp, scn.rec)
                if st != st0:
                    diff = [f for f in st0 if st.get(f) != st0[f]]
                    n_viol += 1
                    v.violation(dict(property=PROP, clause='the state of the %s differs from the state of the original at the '
                                                            'snapshot (fields %s) (C18_snapshot_model)' % (kind, diff),
                                     original={f: st0[f] for f in diff}, copy={f: st[f] for f in diff},
                                     chart_yaml=sismic.io.export_to_yaml(chart), script=script, at=pos,
                                     how_to_replay='./check C18 --replay <this file>'), tag='state%d_%d%s' % (k, pos, kind[0]))
                    continue
                collected = []
                cont = run_rest(scn, script[pos:], running, wall, collect=collected)
                stats['continuation_execs'] += len(cont)
                want = ref[n_exec_before(pos):]
                for c in collected[:3]:
                    c['chart_key'], c['scenario'], c['prop_charts'] = key, scn, {}
                    model_cases.append(c)
                if cont != want:
                    i = next((j for j, (a, b) in enumerate(zip(cont, want)) if a != b), min(len(cont), len(want)))
                    n_viol += 1
                    v.violation(dict(property=PROP, clause='the %s taken at a macro-step boundary does not continue like the '
                                                            'original (C18_continue)' % kind, chart_yaml=sismic.io.export_to_yaml(chart),
                                     script=script, snapshot_at=pos, running_clock=running, first_differing_exec=i,
                                     copy=cont[i] if i < len(cont) else None, original=want[i] if i < len(want) else None,
                                     how_to_replay='./check C18 --replay <this file>'), tag='cont%d_%d%s' % (k, pos, kind[0]))
            if len(samples) < 2:
                samples.append(dict(script=script, snapshots=len(snaps), running_clock=running,
                                    states=[n for n, _ in model_charts[key]['states']]))
    finally:
        clockmod.time = real_time
    n_viol += pair_check(rng, 60 if tier == 'quick' else 800, v, stats)
    # (3) model correspondence (integer clocks only)
    sub = [c for c in model_cases if isinstance(c['op'][1], int) and all(isinstance(t, int) for t, _ in list(c['pre']['iq']) + list(c['pre']['eq']))]
    sub = sub[:1500] if tier == 'quick' else sub[:15000]
    masks, fails = ifam.emit_and_check(PROP, model_charts, sub)
    orig_ids = {id(model_cases[i]) for i in orig_case_idx}
    bad_orig = sum(1 for i, c in enumerate(sub) if id(c) in orig_ids and i in masks)
    bad_copy = [i for i, c in enumerate(sub) if id(c) not in orig_ids and i in masks]
    if bad_copy and not bad_orig:
        for i in bad_copy[:3]:
            mask, fdk, mcode = ifam.decode(masks[i])
            n_viol += 1
            rep = ifam.describe_case(sub[i], model_charts)
            rep.update(property=PROP, clause='a step of a restored interpreter is not what the model does from the same abstract '
                                             'state, while the original\'s steps all are (C18_continue)',
                       differing_components=ifam.bits_names(mask))
            v.violation(rep, tag='model%d' % i)
    import icheck
    n_viol += min(2, icheck.report_unattributed(PROP, v, masks, sub, model_charts))
    for fn, out in fails:
        n_viol += 1
        v.violation(dict(property=PROP, broken='correspondence lemma file did not evaluate', file=fn, log=out), tag='coq', no_input=True)
    if not info.get('build_ok') or not info.get('ok') or info.get('forbidden_tokens'):
        if n_viol == 0:
            v.violation(dict(property=PROP, broken='proof obligations do not check', info=info), tag='proof', no_input=True)
            n_viol += 1
    cov = dict(
        obligations=info.get('obligations', 0), discharged=info.get('discharged', 0),
        checker_cmd='cd /verif/coq && make && coqc props/C18_Props.v (Print Assumptions); pickle + deepcopy of the real interpreter at '
                    'every macro-step boundary, state comparison, continuation in lock-step; coqc gen/C18/cases_*.v',
        trusted_base=TRUSTED_BASE + ['pickle / copy.deepcopy are runtime behaviour: described by theories/Snapshot.v, exercised here',
                                     'Print Assumptions: ' + ('Closed under the global context x%d' % info.get('closed', 0)
                                                              if not info.get('axioms') else '; '.join(info['axioms']))],
        theorems=info.get('theorems', []),
        evaluations=stats['pickles'] + stats['deepcopies'], distinct_nontrivial=stats['boundaries'],
        rule='generated well-formed charts with contracts (many reading __old__), a nested mutable context value changed in place, '
             'history states, delayed internal/external events; random scripts; at every macro-step boundary the interpreter is '
             'pickled and deep-copied; each copy\'s state is compared with the original\'s, then - after the original has run on - '
             'each copy runs the same continuation and is compared step by step with the run without snapshots; a quarter of the '
             'runs use a RUNNING SimulatedClock over a scripted wall clock. distinct_nontrivial = boundaries at which snapshots '
             'were taken (each is a distinct (chart, prefix)); evaluations = snapshots.',
        traces_validated_against_impl=len(sub), model_mismatches=dict(original_steps=bad_orig, copy_steps=len(bad_copy)),
        input_distribution=stats, samples=samples or [dict(note='none')],
        source_blobs=repo_blob_ids(['sismic/interpreter/default.py', 'sismic/code/python.py', 'sismic/model/events.py',
                                    'sismic/clock/clock.py']),
        proof_info={k: info.get(k) for k in ('build_ok', 'ok', 'closed', 'axioms', 'forbidden_tokens', 'note', 'coqchk')})
    write_evidence(PROP, tier, seed, t0, cov,
                   ['initial contexts contain picklable values only (callables in the context cannot be pickled by Python)',
                    'listeners are not attached (an attached lambda cannot be pickled); bound interpreters are outside this check',
                    'the theorem is about the description of pickle/deepcopy in Snapshot.v; the comparison runs are tests'], n_viol)
    return v.finish()


def replay(path):
    r = json.load(open(path))
    print(json.dumps({k: r[k] for k in r if not k.endswith('yaml')}, indent=1, default=str)[:4000])
    return 0
