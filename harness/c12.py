"""C12 -- YAML import accepts only structurally sound statecharts (fault injection)."""
import copy
import os
import random
import time

import genchart
import iofam
import sx
from common import (COQ, Verdict, cbool, coq_eval_files, gen_dir, parse_pairs, proof_stage, repo_blob_ids,
                    write_evidence, TRUSTED_BASE)

PROP = 'C12'
PROOF_FILES = [f for f in ['theories/IO.v', 'theories/Edit.v', 'proofs/IOProofs.v'] if os.path.exists(os.path.join(COQ, f))]


def all_states(d):
    """every state mapping of a document, with its parent mapping"""
    out = []

    def walk(s, parent):
        if not isinstance(s, dict):
            return
        out.append((s, parent))
        for k in ('states', 'parallel states'):
            v = s.get(k)
            if isinstance(v, list):
                for c in v:
                    walk(c, s)
    try:
        walk(d['statechart']['root state'], None)
    except Exception:  # noqa
        pass
    return out


def kind(s):
    t = s.get('type')
    if t:
        return t
    if s.get('states'):
        return 'compound'
    if s.get('parallel states'):
        return 'orthogonal'
    return 'basic'


def with_random_priority(rng, t):
    """a faulty transition may carry any LEGAL priority (and guard/action): the fault must still be reported"""
    if rng.random() < 0.6:
        t['priority'] = rng.choice([3, -2, 7, 0, 1, -1, 'high', 'low', 100, -50])
    if rng.random() < 0.3:
        t['guard'] = 'x > 0'
    if rng.random() < 0.3:
        t['action'] = 'x = 1'
    return t


# each fault returns True when it could be injected; the document then breaks a listed rule
def f_duplicate_name(rng, d):
    sts = all_states(d)
    if len(sts) < 2:
        return False
    if rng.random() < 0.4:
        # an exact twin: a second state with the same name, kind, code and contract, next to the first one or elsewhere
        import copy as _copy
        leaves = [(s, p) for s, p in sts if p is not None and not s.get('states') and not s.get('parallel states')]
        hosts = [s for s, _ in sts if s.get('states') or s.get('parallel states')]
        if leaves and hosts:
            b, bp = rng.choice(leaves)
            host = bp if rng.random() < 0.6 else rng.choice(hosts)
            key = 'states' if host.get('states') else 'parallel states'
            twin = _copy.deepcopy(b)
            if rng.random() < 0.5:
                twin.pop('transitions', None)
            host[key].insert(rng.randrange(len(host[key]) + 1), twin)
            return True
    a, b = rng.sample(sts, 2)
    a[0]['name'] = b[0]['name']
    return True


def f_transition_on_final_or_history(rng, d):
    sts = [s for s, _ in all_states(d) if kind(s) in ('final', 'shallow history', 'deep history')]
    if not sts:
        par = [s for s, _ in all_states(d) if kind(s) == 'compound']
        if not par:
            return False
        p = rng.choice(par)
        new = {'name': 'zz_final', 'type': 'final'}
        p['states'].append(new)
        sts = [new]
    s = rng.choice(sts)
    s['transitions'] = [with_random_priority(rng, {'event': 'e0'})]
    return True


def f_unknown_target(rng, d):
    sts = [s for s, _ in all_states(d) if kind(s) in ('basic', 'compound', 'orthogonal')]
    if not sts:
        return False
    s = rng.choice(sts)
    s.setdefault('transitions', []).append(with_random_priority(rng, {
        'target': rng.choice(['nowhere', ' ' + s['name'], s['name'] + ' ', '', ' ']), 'event': 'e1'}))
    return True


def f_history_bad_parent(rng, d):
    if rng.random() < 0.3:
        root = d['statechart']['root state']
        for k in ('states', 'parallel states', 'initial', 'transitions'):
            root.pop(k, None)
        root['type'] = rng.choice(['shallow history', 'deep history'])
        return True
    par = [s for s, _ in all_states(d) if kind(s) == 'orthogonal']
    if not par:
        return False
    rng.choice(par)['parallel states'].append({'name': 'zz_hist', 'type': rng.choice(['shallow history', 'deep history'])})
    return True


def f_bad_initial(rng, d):
    par = [s for s, _ in all_states(d) if kind(s) == 'compound']
    if not par:
        return False
    s = rng.choice(par)
    others = [x['name'] for x, _ in all_states(d) if x not in s['states'] and x is not s]
    s['initial'] = rng.choice(['nowhere'] + others) if others else 'nowhere'
    return True


def f_bad_memory(rng, d):
    hs = [(s, p) for s, p in all_states(d) if kind(s) in ('shallow history', 'deep history') and p is not None]
    if not hs:
        par = [s for s, _ in all_states(d) if kind(s) == 'compound']
        if not par:
            return False
        p = rng.choice(par)
        h = {'name': 'zz_h', 'type': 'shallow history'}
        p['states'].append(h)
        hs = [(h, p)]
    h, p = rng.choice(hs)
    sibs = [x['name'] for x in p['states']]
    others = [x['name'] for x, _ in all_states(d) if x['name'] not in sibs]
    h['memory'] = rng.choice([h['name'], 'nowhere', '', ' '] + others)
    return True


def f_unknown_key(rng, d):
    lvl = rng.choice(['top', 'statechart', 'state', 'transition', 'contract'])
    key = rng.choice(['foo', 'Name', 'on_entry', 'onentry', 'parallel_states', 'targets'])
    if lvl == 'top':
        d[key] = 1
        return True
    if lvl == 'statechart':
        d['statechart'][key] = 'x'
        return True
    sts = all_states(d)
    s = rng.choice(sts)[0]
    if lvl == 'state':
        s[key] = 'x'
        return True
    if lvl == 'transition':
        s.setdefault('transitions', []).append({'event': 'e0', key: 'x'}) if kind(s) in ('basic', 'compound', 'orthogonal') \
            else s.__setitem__(key, 'x')
        return True
    s.setdefault('contract', []).append({'before': 'True', key: 'x'})
    return True


def f_unknown_type(rng, d):
    s = rng.choice(all_states(d))[0]
    s['type'] = rng.choice(['history', 'Final', 'basic', 'compound', 'shallow', 1])
    return True


def f_bad_priority(rng, d):
    sts = [s for s, _ in all_states(d) if kind(s) in ('basic', 'compound', 'orthogonal')]
    if not sts:
        return False
    s = rng.choice(sts)
    s.setdefault('transitions', []).append({'event': 'e0', 'priority': rng.choice(['medium', 'HIGH', None, 'x1', '', 'low ', float('nan'), float('inf'), float('-inf'), 'nan', '1.5x', [1], {}]) })
    return True


def f_both_states(rng, d):
    sts = [s for s, _ in all_states(d) if kind(s) in ('compound', 'orthogonal')]
    if not sts:
        return False
    s = rng.choice(sts)
    other = 'parallel states' if kind(s) == 'compound' else 'states'
    s[other] = [{'name': 'zz_extra'}]
    return True


def f_missing(rng, d):
    k = rng.choice(['name', 'root', 'state name'])
    if k == 'name':
        d['statechart'].pop('name', None)
    elif k == 'root':
        d['statechart'].pop('root state', None)
    else:
        rng.choice(all_states(d))[0].pop('name', None)
    return True


FAULTS = dict(duplicate_name=f_duplicate_name, transition_on_final_or_history=f_transition_on_final_or_history,
              unknown_target=f_unknown_target, history_bad_parent=f_history_bad_parent, bad_initial=f_bad_initial,
              bad_memory=f_bad_memory, unknown_key=f_unknown_key, unknown_type=f_unknown_type,
              bad_priority=f_bad_priority, both_states_and_parallel=f_both_states, missing_name_or_root=f_missing)


def benign(rng, d):
    """variations that are NOT faults: the document must still be accepted (or rejected only as the model says)"""
    sts = all_states(d)
    r = rng.random()
    s = rng.choice(sts)[0]
    if r < 0.15:
        s['initial'] = s.get('initial', sts[0][0]['name']) if kind(s) == 'compound' else 'ignored'
    elif r < 0.3 and kind(s) == 'basic':
        s['states'] = []
    elif r < 0.4 and kind(s) in ('compound',):
        s['parallel states'] = []
    elif r < 0.55 and kind(s) in ('basic', 'compound', 'orthogonal'):
        s.setdefault('transitions', []).append({'event': 'e2', 'priority': rng.choice(['7', ' 3', True, 2.0, '-4', 'high', 'low', 0])})
    elif r < 0.65:
        s['on entry'] = rng.choice([5, True, None, 1.5, 'x = 1'])
    elif r < 0.75:
        d['statechart']['description'] = rng.choice([1, None, 'text', True])
    elif r < 0.85:
        s.setdefault('contract', []).append(rng.choice([{'before': 'True', 'after': 'True'}, {'always': 1}, {'before': ''},
                                                        {'after': '  x  '}]))
    else:
        s['memory'] = 'ignored' if kind(s) not in ('shallow history', 'deep history') else s.get('memory', None) or sts[0][0]['name']
        if s['memory'] is None:
            del s['memory']


def main(tier, seed):
    t0 = time.time()
    v = Verdict(PROP)
    have_props = os.path.exists(os.path.join(COQ, 'props', '%s_Props.v' % PROP))
    info = proof_stage(PROP, PROOF_FILES, v) if have_props else dict(build_ok=True, ok=True, note='no property file')
    rng = random.Random(seed * 337 + 12)
    n = 900 if tier == 'quick' else 15000
    from sismic.io.datadict import export_to_dict
    cases = []
    n_viol = 0
    fault_mix = {}
    outcome_mix = {}
    text_checked = 0
    lenient_first = 0
    unmodelled_faulty = 0
    while len(cases) < n:
        sc = genchart.valid_chart(rng, genchart.Profile(max_states=8, p_history=0.4, p_final=0.25, p_contract=0.2,
                                                        n_trans=(2, 7)))
        base = export_to_dict(sc)
        for _ in range(6):
            d = copy.deepcopy(base)
            r = rng.random()
            faults = []
            if r < 0.18:
                pass
            elif r < 0.35:
                benign(rng, d)
                faults = ['benign']
            else:
                k = 1 if rng.random() < 0.75 else 2
                for name in rng.sample(sorted(FAULTS), k):
                    try:
                        if FAULTS[name](rng, d):
                            faults.append(name)
                    except (KeyError, IndexError, TypeError, ValueError):
                        pass    # an earlier fault removed what this one needs
                if not faults:
                    continue
            if not iofam.modellable(d):
                # outside what IO.v models (e.g. NaN / infinite numbers): no comparison with the model, but a document with a
                # listed fault must still be rejected with StatechartError by the real importer
                if faults and faults != ['benign']:
                    impl0 = iofam.impl_import_dict(d)
                    unmodelled_faulty += 1
                    if impl0[0] != 'sce':
                        v.violation(dict(property=PROP, clause='a document with the fault(s) %s is not rejected with StatechartError '
                                                                '(%s) (C12_reject_*)' % (faults, impl0[0] if impl0[0] != 'other' else impl0),
                                         document=repr(d)[:3000]), tag='unmod%d' % unmodelled_faulty)
                        n_viol += 1
                continue
            faulty = bool(faults) and faults != ['benign']
            impl = iofam.impl_import_dict(d)
            # the text path (import_from_yaml) must give the same verdict as the dictionary path
            try:
                text = iofam.dump_yaml(d)
                if rng.random() < 0.4:
                    # the same text first loaded leniently (documented options): a later default import must not be affected
                    import sismic.io
                    try:
                        sismic.io.import_from_yaml(text, ignore_schema=rng.random() < 0.7, ignore_validation=rng.random() < 0.5)
                    except Exception:  # noqa
                        pass
                    lenient_first += 1
                timpl = iofam.impl_import_text(text)
                text_checked += 1
            except Exception as e:  # noqa
                text, timpl = None, ('dump-failed', repr(e))
            if timpl[0] != 'dump-failed' and timpl[0] != impl[0]:
                v.violation(dict(property=PROP, clause='import_from_yaml(text) and the dictionary path disagree',
                                 document=d, yaml=text, text_path=timpl[0] if timpl[0] != 'other' else timpl,
                                 dict_path=impl[0] if impl[0] != 'other' else impl), tag='text%d' % len(cases))
                n_viol += 1
            for f in faults or ['none']:
                fault_mix[f] = fault_mix.get(f, 0) + 1
            outcome_mix[impl[0]] = outcome_mix.get(impl[0], 0) + 1
            cases.append(('(PCase %s %s %s)' % (iofam.c_ydata(d), cbool(faulty), iofam.c_iores(impl)),
                          dict(document=d, faults=faults, yaml=text, implementation=impl[0] if impl[0] != 'other' else impl)))
    d_ = gen_dir(PROP)
    files = []
    shard = 60
    for s in range(0, len(cases), shard):
        fn = '%s/cases_%d.v' % (d_, s // shard)
        with open(fn, 'w') as f:
            f.write(iofam.HEADER)
            f.write('Definition cases : list iocase := [\n')
            f.write(';\n'.join(c[0] for c in cases[s:s + shard]))
            f.write('\n].\nEval vm_compute in (check_iocases cases).\n')
        files.append(fn)
    res = coq_eval_files(PROP, files)
    clauses = {}
    for k, (fn, rc, out) in enumerate(res):
        if rc != 0:
            v.violation(dict(property=PROP, broken='correspondence file did not evaluate', file=fn, log=out[-2000:]),
                        tag='coq', no_input=True)
            n_viol += 1
            continue
        for i, m in parse_pairs(out):
            desc = cases[k * shard + i][1]
            cl = []
            if m & 4:
                cl.append('a document with an injected fault (%s) was not rejected with StatechartError: %s (C12_reject/C12_error_type)'
                          % (','.join(desc['faults']), desc['implementation']))
            if m & 2:
                cl.append('an accepted document gave a structurally unsound statechart (C12_sound)')
            if m & 1 and not cl:
                cl.append('outcome or imported statechart differs from the model of the import pipeline: %s' % (desc['implementation'],))
            c = '; '.join(cl)
            clauses[c.split(':')[0][:90]] = clauses.get(c.split(':')[0][:90], 0) + 1
            v.violation(dict(property=PROP, clause=c, case=desc, mismatch_bits=m), tag=str(k * shard + i))
            n_viol += 1
    if not info.get('build_ok') or not info.get('ok') or info.get('forbidden_tokens'):
        if n_viol == 0:
            v.violation(dict(property=PROP, broken='proof obligations do not check', info=info), tag='proof', no_input=True)
            n_viol += 1
    import extract_consts
    ci = extract_consts.write_and_check(PROP)
    if ci['ok'] is False and n_viol == 0:
        # search for a failing input: a document using a key / type / priority word that the documented format does not have
        DOC = dict(contract_keys=['before', 'after', 'always'],
                   transition_keys=['target', 'event', 'guard', 'action', 'contract', 'priority'],
                   state_keys=['name', 'type', 'on entry', 'on exit', 'transitions', 'contract', 'initial', 'parallel states',
                               'states', 'memory'],
                   statechart_keys=['name', 'description', 'preamble', 'root state'],
                   type_values=['final', 'shallow history', 'deep history'], priority_words=['high', 'low'])
        import sismic.io
        for kind, doc in DOC.items():
            for extra in [x for x in ci['extracted'].get(kind, []) if x not in doc]:
                base = {'statechart': {'name': 'd', 'root state': {'name': 'r', 'initial': 'a', 'states': [
                    {'name': 'a', 'transitions': [{'target': 'b', 'event': 'e', 'contract': [{'before': 'True'}]}]}, {'name': 'b'}]}}}
                a = base['statechart']['root state']['states'][0]
                if kind == 'statechart_keys':
                    base['statechart'][extra] = 'x'
                elif kind == 'state_keys':
                    a[extra] = 'x'
                elif kind == 'transition_keys':
                    a['transitions'][0][extra] = 'x'
                elif kind == 'contract_keys':
                    a['transitions'][0]['contract'][0] = {extra: 'True'}
                elif kind == 'type_values':
                    base['statechart']['root state']['states'][1]['type'] = extra
                else:
                    a['transitions'][0]['priority'] = extra
                text = iofam.dump_yaml(base) if hasattr(iofam, 'dump_yaml') else None
                try:
                    import ruamel.yaml
                    from io import StringIO
                    if text is None:
                        buf = StringIO()
                        ruamel.yaml.YAML(typ='safe', pure=True).dump(base, buf)
                        text = buf.getvalue()
                    sismic.io.import_from_yaml(text)
                    accepted = True
                except Exception:  # noqa
                    accepted = False
                if accepted:
                    v.violation(dict(property=PROP, clause='a document using %r (%s), which the documented format does not have, is '
                                                            'accepted (C12_reject_unknown_key_* / unknown type / bad priority)' % (extra, kind),
                                     yaml=text, how_to_replay='./check C12 --replay <this file>'), tag='undocumented_%s' % kind)
                    n_viol += 1
    if ci['ok'] is False and n_viol == 0:
        v.violation(dict(property=PROP, broken='constants regenerated from the source (schema keys, type values, priority words and '
                                               'values) no longer equal those the model and the theorems were written against, and no '
                                               'run of this check misbehaved', obligations=ci['obligations'], extracted=ci['extracted'],
                         log=ci['log']), tag='consts', no_input=True)
        n_viol += 1
    cov = dict(
        obligations=info.get('obligations', 0), discharged=info.get('discharged', 0),
        checker_cmd='cd /verif/coq && make && coqc props/C12_Props.v (Print Assumptions); coqc gen/C12/cases_*.v',
        trusted_base=TRUSTED_BASE + ['ruamel.yaml and schema are third-party: the text path and the dictionary path are compared on every document',
                                     'Print Assumptions: ' + ('Closed under the global context x%d' % info.get('closed', 0)
                                                              if not info.get('axioms') else '; '.join(info['axioms']))],
        theorems=info.get('theorems', []),
        evaluations=len(cases), distinct_nontrivial=len({c[0] for c in cases if c[1]['faults']}),
        rule='documents exported from generated valid charts; one or two faults of the listed classes injected at random '
             'positions, benign variations (ignored keys, coercible scalars, empty lists) and unmodified documents; '
             'non-trivial = a fault or a variation was injected; distinct = distinct case terms',
        traces_validated_against_impl=len(cases), fault_mix=fault_mix, outcome_mix=outcome_mix,
        text_path_compared=text_checked, lenient_load_first=lenient_first, faulty_documents_outside_the_model=unmodelled_faulty, mismatch_clauses=clauses,
        samples=[dict(faults=c[1]['faults'], implementation=c[1]['implementation'], yaml=(c[1]['yaml'] or '')[:400])
                 for c in cases[:40] if c[1]['faults'] and c[1]['faults'] != ['benign']][:2],
        source_blobs=repo_blob_ids(['sismic/io/yaml.py', 'sismic/io/datadict.py', 'sismic/model/statechart.py']),
        regenerated_constants=dict(obligations=ci['obligations'], ok=ci['ok'], notes=ci['notes']),
        proof_info={k: info.get(k) for k in ('build_ok', 'ok', 'closed', 'axioms', 'forbidden_tokens', 'note', 'coqchk')})
    write_evidence(PROP, tier, seed, t0, cov,
                   ['fault classes as fixed in DESIGN.md section 6 (C12); YAML syntax errors and duplicate mapping keys are '
                    'raised by ruamel, not by sismic, and are outside the listed faults',
                    'Use(str) on a list/mapping (Python repr) and non-string mapping keys are not modelled and not generated'],
                   n_viol)
    return v.finish()


def replay(path):
    import json
    import icheck
    return icheck.replay(path)
