"""Shared machinery of the /verif checks: Coq build, case evaluation, evidence, verdicts."""
import fcntl
import json
import os
import re
import shutil
import subprocess
import sys
import time
from fractions import Fraction

VERIF = '/verif'
COQ = os.path.join(VERIF, 'coq')
GEN = os.path.join(COQ, 'gen')
# VERIF_EVIDENCE_DIR: runs against scratch copies (seeded changes, refactorings) keep their evidence out of /verif/evidence
EVID = os.environ.get('VERIF_EVIDENCE_DIR') or os.path.join(VERIF, 'evidence')
REPLAY = os.path.join(EVID, 'replay')
REPO = os.environ.get('VERIF_REPO', '/repo')
COQ_FLAGS = ['-Q', 'theories', 'Sismic', '-Q', 'proofs', 'SismicProofs', '-Q', 'props', 'SismicProps']
NCPU = min(16, os.cpu_count() or 4)


def coqc_parallelism():
    """number of coqc processes evaluating case files at once: bounded by the cores and by the memory that is available
    now (a case file needs 0.5-0.8 GB)"""
    try:
        avail_kb = int(next(l for l in open('/proc/meminfo') if l.startswith('MemAvailable')).split()[1])
        return max(2, min(NCPU, int(avail_kb / 1e6 / 1.0)))
    except Exception:  # noqa
        return NCPU

FORBIDDEN = re.compile(
    r'\b(Admitted|admit|Axiom|Axioms|Parameter|Parameters|Conjecture|Hypothesis|Variable|Variables|Abort)\b'
    r'|Unset\s+Guard|bypass_check|type-in-type|impredicative-set|native_compute|Admit\s+Obligations')


def log(*a):
    print(*a, file=sys.stderr, flush=True)


def run(cmd, timeout, cwd=None, env=None):
    p = subprocess.run(cmd, cwd=cwd, env=env, stdout=subprocess.PIPE, stderr=subprocess.STDOUT,
                       timeout=timeout, text=True, errors='replace')
    out = '\n'.join(l for l in p.stdout.splitlines() if 'conda.cli.condarc' not in l)
    return p.returncode, out


# --------------------------------------------------------------------------------------------
# Coq build (shared .vo files, serialised by a lock so concurrent checks do not collide)
# --------------------------------------------------------------------------------------------
def coq_build():
    """Full `make` of the development.  Returns (ok, log)."""
    os.makedirs(GEN, exist_ok=True)
    lock = open(os.path.join(GEN, '.build.lock'), 'w')
    fcntl.flock(lock, fcntl.LOCK_EX)
    try:
        if not os.path.exists(os.path.join(COQ, 'Makefile')):
            rc, out = run(['coq_makefile', '-f', '_CoqProject', '-o', 'Makefile'], 120, cwd=COQ)
            if rc != 0:
                return False, out
        rc, out = run(['make', '-j%d' % NCPU], 3000, cwd=COQ)
        return rc == 0, out
    finally:
        fcntl.flock(lock, fcntl.LOCK_UN)
        lock.close()


def scan_forbidden():
    """No Admitted/Axiom/... anywhere in the development (comments are stripped first).
    `Variable`/`Hypothesis` are allowed inside a Section only."""
    bad = []
    registered = [l.strip() for l in open(os.path.join(COQ, '_CoqProject')) if l.strip().endswith('.v')]
    for rel in registered:
        sub, fn = os.path.split(rel)
        if True:
            src = open(os.path.join(COQ, rel)).read()
            src = strip_comments(src)
            depth = 0
            for ln, line in enumerate(src.splitlines(), 1):
                if re.match(r'\s*Section\b', line):
                    depth += 1
                if re.match(r'\s*End\b', line) and depth > 0:
                    depth -= 1
                for m in FORBIDDEN.finditer(line):
                    w = m.group(0)
                    if w in ('Variable', 'Variables', 'Hypothesis') and depth > 0:
                        continue
                    bad.append('%s/%s:%d: %s' % (sub, fn, ln, w))
    return bad


def strip_comments(src):
    out = []
    i, depth, n = 0, 0, len(src)
    instr = False
    while i < n:
        c = src[i]
        if depth == 0 and c == '"':
            instr = not instr
            out.append(c)
            i += 1
            continue
        if not instr and src.startswith('(*', i):
            depth += 1
            i += 2
            continue
        if not instr and depth > 0 and src.startswith('*)', i):
            depth -= 1
            i += 2
            continue
        if depth == 0:
            out.append(c)
        elif c == '\n':
            out.append(c)
        i += 1
    return ''.join(out)


def props_report(prop, proof_files):
    """Re-run coqc on the property file to capture Print Assumptions; count obligations.
    Returns dict(obligations, discharged, theorems, assumptions(list), closed(int))."""
    pf = os.path.join(COQ, 'props', '%s_Props.v' % prop)
    d = os.path.join(GEN, prop + os.environ.get('VERIF_GEN_SUFFIX', '') + '_props')
    os.makedirs(d, exist_ok=True)
    tmpv = os.path.join(d, '%s_Props_chk.v' % prop)
    shutil.copy(pf, tmpv)
    rc, out = run(['coqc'] + COQ_FLAGS + [tmpv], 900, cwd=COQ)
    closed = out.count('Closed under the global context')
    axioms = []
    if 'Axioms:' in out:
        for blk in out.split('Axioms:')[1:]:
            for line in blk.splitlines()[1:]:
                if line.strip() == '' or line.startswith('Closed') or line.startswith('Axioms'):
                    break
                if not line.startswith(' ') or re.match(r'^\s*\S+\s*:', line):
                    axioms.append(line.strip())
    src = strip_comments(open(pf).read())
    theorems = re.findall(r'^\s*(?:Theorem|Example)\s+(\w+)', src, re.M)
    n_thm = len(theorems)
    n_qed = len(re.findall(r'\bQed\.', src))
    n_lem = 0
    n_lem_qed = 0
    for f in proof_files:
        s = strip_comments(open(os.path.join(COQ, f)).read())
        n_lem += len(re.findall(r'^\s*(?:Lemma|Theorem|Corollary|Example|Fact|Remark|Proposition)\s+\w+', s, re.M))
        n_lem_qed += len(re.findall(r'\b(?:Qed|Defined)\.', s))
    return dict(ok=(rc == 0), out=out, closed=closed, axioms=sorted(set(axioms)), theorems=theorems,
                obligations=n_thm + n_lem, discharged=(n_qed + n_lem_qed) if rc == 0 else 0)


def coq_eval_files(prop, files, timeout=1200):
    """Compile generated case files in parallel; return list of (file, rc, output)."""
    procs = []
    res = []
    env = dict(os.environ)
    pending = list(files)
    running = []
    retried = set()
    while pending or running:
        while pending and len(running) < (1 if pending[0] in retried else coqc_parallelism()):
            f = pending.pop(0)
            p = subprocess.Popen(['timeout', str(timeout), 'coqc', '-noglob'] + COQ_FLAGS + [f], cwd=COQ,
                                 stdout=subprocess.PIPE, stderr=subprocess.STDOUT, text=True,
                                 errors='replace', env=env)
            running.append((f, p))
        f, p = running.pop(0)
        out, _ = p.communicate()
        out = '\n'.join(l for l in out.splitlines() if 'conda.cli.condarc' not in l)
        if p.returncode != 0 and f not in retried and (p.returncode in (-9, 137, 124) or not out.strip()):
            # killed from outside (out of memory, time limit under load) without a word from Coq: once more, alone
            retried.add(f)
            pending.append(f)
            log('coqc on %s ended with code %s and no output: once more' % (os.path.basename(f), p.returncode))
            continue
        res.append((f, p.returncode, out))
    order = {f: i for i, f in enumerate(files)}
    res.sort(key=lambda r: order[r[0]])         # callers rely on the order of `files`
    return res


def gen_dir(prop):
    # VERIF_GEN_SUFFIX: several runs of one property's check at the same time (seeded-change testing) keep apart
    d = os.path.join(GEN, prop + os.environ.get('VERIF_GEN_SUFFIX', ''))
    if os.path.isdir(d):
        shutil.rmtree(d)
    os.makedirs(d)
    return d


# --------------------------------------------------------------------------------------------
# Coq term printers
# --------------------------------------------------------------------------------------------
def cz(n):
    n = int(n)
    return '(%d)%%Z' % n if n < 0 else '%d%%Z' % n


def cq(x):
    x = Fraction(x)
    return '(%s # %d)' % (('(%d)' % x.numerator) if x.numerator < 0 else str(x.numerator), x.denominator)


def cbool(b):
    return 'true' if b else 'false'


def cstr(s):
    """Coq string literal (bytes of the UTF-8 encoding)."""
    if s is None:
        raise ValueError('cstr(None)')
    b = s.encode('utf-8')
    if all(32 <= c < 127 and c != 34 for c in b):
        return '"%s"' % s
    return '(bs [%s]%%N)' % ';'.join(str(c) for c in b)


def copt(x, f):
    return 'None' if x is None else '(Some %s)' % f(x)


def clist(xs, f=lambda x: x):
    return '[' + '; '.join(f(x) for x in xs) + ']'


def cpair(a, b):
    return '(%s, %s)' % (a, b)


# --------------------------------------------------------------------------------------------
# Evidence and verdicts
# --------------------------------------------------------------------------------------------
TRUSTED_BASE = [
    'Coq 8.16.1 kernel including its VM (vm_compute); no native_compute, no -type-in-type',
    'hand-written Gallina model, tied to /repo by the differential correspondence run of this check',
    'Python harness (generators, state capture, serialisation to Coq terms)',
]


class Timeout(BaseException):
    """raised by time_limit (a BaseException: `except Exception` in the library does not swallow it)"""


class time_limit:
    """SIGALRM guard around a call into the implementation (main thread only): a call that does not return - e.g. a
    traversal of a statechart that an edit left cyclic - becomes an observable outcome instead of a check that never ends"""

    def __init__(self, seconds):
        self.seconds = seconds

    def __enter__(self):
        import signal
        import threading
        self.on = threading.current_thread() is threading.main_thread()
        if not self.on:
            return

        def handler(signum, frame):
            raise Timeout()
        self.old = signal.signal(signal.SIGALRM, handler)
        self.left = signal.alarm(self.seconds)

    def __exit__(self, *a):
        import signal
        if self.on:
            signal.alarm(0)
            signal.signal(signal.SIGALRM, self.old)
            if self.left:
                signal.alarm(self.left)       # an enclosing limit goes on
        return False


def write_evidence(prop, tier, seed, t0, coverage, assumptions, violations, level='proof'):
    os.makedirs(EVID, exist_ok=True)
    ev = dict(property_id=prop, tier=tier, seed=int(seed), level=level, coverage=coverage,
              assumptions=assumptions, wall_s=round(time.time() - t0, 2), violations=int(violations))
    tmp = os.path.join(EVID, '.%s.json.tmp' % prop)
    with open(tmp, 'w') as f:
        json.dump(ev, f, indent=1, sort_keys=True, default=str)
    os.replace(tmp, os.path.join(EVID, '%s.json' % prop))
    return ev


def write_replay(prop, obj, tag='0'):
    os.makedirs(REPLAY, exist_ok=True)
    p = os.path.join(REPLAY, '%s_%s.json' % (prop, tag))
    with open(p, 'w') as f:
        json.dump(obj, f, indent=1, default=str)
    return p


def load_known_findings():
    p = os.path.join(VERIF, 'known_findings.json')
    if not os.path.exists(p):
        return []
    return json.load(open(p)).get('findings', [])


def repo_blob_ids(paths):
    ids = {}
    for p in paths:
        fp = os.path.join(REPO, p)
        if os.path.exists(fp):
            rc, out = run(['git', 'hash-object', fp], 30)
            ids[p] = out.strip().splitlines()[-1] if rc == 0 and out.strip() else '?'
    return ids


class Verdict:
    """Collects violations; prints VIOLATION / KNOWN-FINDING lines; gives the exit code."""

    def __init__(self, prop):
        self.prop = prop
        self.violations = []   # (replay path, no_input)
        self.known = []

    def violation(self, replay_obj, tag=None, no_input=False):
        tag = tag if tag is not None else str(len(self.violations))
        if len(self.violations) >= 5:   # keep the first few replays only
            self.violations.append((self.violations[0][0], no_input))
            return
        path = write_replay(self.prop, replay_obj, tag)
        self.violations.append((path, no_input))

    def known_finding(self, text):
        if text not in self.known:
            self.known.append(text)

    def finish(self):
        for k in self.known:
            print('KNOWN-FINDING: property=%s %s' % (self.prop, k))
        for path, no_input in self.violations[:5]:
            print('VIOLATION property=%s replay=%s%s' % (self.prop, path,
                                                          ' no-failing-input-found' if no_input else ''))
        sys.stdout.flush()
        return 1 if self.violations else 0


PAIR_RE = re.compile(r'\(\s*(\d+)\s*(?:%[NZ])?\s*,\s*(\d+)\s*(?:%[NZ])?\s*\)')


def parse_pairs(out):
    """Parse the `(i, m)` pairs of every list (N * N) printed by Eval vm_compute.  Fail-closed: Coq's printer may break
    lines anywhere (also right after an opening parenthesis), so white space is allowed everywhere, and whatever is left of
    a printed list once its pairs are taken out must be separators only - a result that cannot be read back is not an
    agreement."""
    flat = ' '.join(out.split())
    segs = re.findall(r'= \[(.*?)\] : list \((?:N|Z|nat) \* (?:N|Z|nat)\)', flat)
    if not segs:
        raise RuntimeError('no list of pairs in the output of coqc: %r' % flat[-300:])
    pairs = []
    for seg in segs:
        rest = PAIR_RE.sub('', seg)
        if rest.replace(';', '').strip():
            raise RuntimeError('cannot read back a result printed by coqc: %r' % rest[:300])
        pairs += [(int(a), int(b)) for a, b in PAIR_RE.findall(seg)]
    return pairs


def proof_stage(prop, proof_files, verdict):
    """Build the development, collect Print Assumptions; a broken build is a broken proof
    obligation: reported by the caller after a search for a failing input."""
    ok, out = coq_build()
    info = dict(build_ok=ok)
    if not ok:
        info['build_log_tail'] = out[-3000:]
        return info
    bad = scan_forbidden()
    info['forbidden_tokens'] = bad
    rep = props_report(prop, proof_files)
    info.update(rep)
    info.pop('out', None)
    if not rep['ok']:
        info['props_log_tail'] = rep['out'][-3000:]
    if os.environ.get('VERIF_TIER_EFFECTIVE') == 'thorough' and rep['ok']:
        # independent re-check of the compiled property file and of everything it depends on
        try:
            rc, out = run(['coqchk', '-silent', '-o'] + COQ_FLAGS + ['SismicProps.%s_Props' % prop], 3000, cwd=COQ)
        except Exception as e:  # noqa
            rc, out = 1, repr(e)
        m = re.search(r'\* Axioms:(.*?)\n\s*\n\* Constants', out, re.S)
        info['coqchk'] = dict(rc=rc, axioms=' '.join(m.group(1).split()) if m else None, tail=out[-600:] if rc != 0 else '')
        if rc != 0:
            info['ok'] = False
    return info
