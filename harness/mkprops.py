"""Developer tool (not used by the checks): writes props/<ID>_Props.v by restating already proved lemmas.

usage: mkprops.py ID 'header comment' 'import lines' name1:comment1 name2:comment2 ...
Each theorem's statement is printed by Coq itself (Check) and closed by `exact <lemma>`."""
import re
import subprocess
import sys

COQ = '/verif/coq'


def check_type(imports, name):
    import os
    import tempfile
    d = tempfile.mkdtemp()
    fn = os.path.join(d, 'chk.v')
    open(fn, 'w').write(imports + '\nSet Printing Width 110.\nSet Printing Depth 10000.\nCheck %s.\n' % name)
    p = subprocess.run(['coqc', '-Q', 'theories', 'Sismic', '-Q', 'proofs', 'SismicProofs', fn], cwd=COQ,
                       capture_output=True, text=True)
    out = p.stdout
    m = re.search(r'^(?:%s|%s)\s*\n?\s*:\s(.*)' % (re.escape(name), re.escape(name.split('.')[-1])), out, re.S | re.M)
    if not m:
        raise SystemExit('cannot get the type of %s:\n%s\n%s' % (name, out[-2000:], p.stderr[-2000:]))
    return m.group(1).rstrip()


def main():
    pid, header, imports = sys.argv[1], sys.argv[2], sys.argv[3]
    items = [a.split(':', 1) for a in sys.argv[4:]]
    out = ['(* %s' % header, '   Property theorems only: every statement below is the statement of a lemma proved in proofs/,',
           '   printed by Coq and closed by `exact`. *)', imports, '']
    for name, comment in items:
        ty = check_type(imports, name)
        short = name.split('.')[-1]
        out.append('(* %s *)' % comment)
        out.append('Theorem %s_thm :\n  %s.' % (short, ty.replace('\n', '\n  ')))
        out.append('Proof. exact %s. Qed.' % name)
        out.append('Print Assumptions %s_thm.\n' % short)
    open('%s/props/%s_Props.v' % (COQ, pid), 'w').write('\n'.join(out))


if __name__ == '__main__':
    main()
