#!/bin/bash
# usage: seedall.sh [pattern]   re-runs every seeded change of /verif/seeded/INDEX.tsv (id, property, k, checks) from the
# files kept under /verif/seeded/<id>/ against a scratch copy of /repo; prints one line per (seed, check); 6 at a time.
pat=${1:-.}
run_one() {
  id=$1; shift; checks="$@"
  d=$(mktemp -d /tmp/seedall.XXXXXX)
  git -C /repo worktree add -q --detach $d/repo HEAD || exit 2
  git -C $d/repo apply /verif/seeded/$id/patch.diff || { echo "$id PATCH-DOES-NOT-APPLY"; git -C /repo worktree remove --force $d/repo; rm -rf $d; return; }
  mkdir $d/demo; cp /verif/seeded/$id/demo.py $d/demo/demo.py
  (cd $d/demo; PYTHONPATH=$d/repo /venv/bin/python demo.py > /dev/null 2>&1); rc=$?
  for p in $checks; do
    n=$(VERIF_GEN_SUFFIX=_$id VERIF_EVIDENCE_DIR=$d/evidence VERIF_REPO=$d/repo /verif/check $p 2>/dev/null | grep -c VIOLATION)
    echo "$id demo_rc_with_change=$rc check=$p violation_lines=$n"
  done
  git -C /repo worktree remove --force $d/repo; rm -rf $d /verif/coq/gen/*_$id /verif/coq/gen/*_${id}_props
}
export -f run_one
grep -E "$pat" /verif/seeded/INDEX.tsv | while IFS=$'\t' read id prop k checks; do echo "$id $checks"; done | xargs -P 6 -L 1 bash -c 'run_one $0 $@'
