"""C17 -- renaming and copying states preserves behaviour.

(1) Coq theorems (props/C17_Props.v): equivariance of the whole interpreter model under order-preserving renamings
    (C17_equivariance, C17_equivariance_run) and, in EditProofs, what rename_state does to the chart (C17_structure).
(2) checks on the real implementation:
    (a) rename_state through the API with order-preserving renamings of random subsets of the states:
        the resulting statechart must be the rho-image of the original (every transition keeps its shape -- internal
        transitions stay internal --, initial/memory/transition ends follow), and original and renamed chart, run in
        lock-step on the same input script, must produce the same run modulo rho;
    (b) copy_from_statechart: a generated guest plugged into a host state behaves, inside the host, as the guest
        does on its own, modulo the renaming function;
(3) the reference runs are also evaluated against the Coq model (one-operation correspondence).
"""
import copy
import json
import os
import random
import time

import genchart
import ifam
import metam
import sx
from common import (COQ, Verdict, proof_stage, repo_blob_ids, write_evidence, TRUSTED_BASE)

PROP = 'C17'
PROOF_FILES = [f for f in ['theories/Copy.v', 'proofs/C17Proofs.v', 'proofs/EditProofs.v', 'proofs/CopyProofs.v', 'proofs/WrapProofs.v', 'proofs/C17ComposeProofs.v'] if os.path.exists(os.path.join(COQ, f))]


def mk_scn(sc):
    holder = {}

    def tick():
        holder['s'].clock.time += 1
    scn = sx.Scenario(sc, n_rec=0, initial_context={'tick': tick})
    holder['s'] = scn
    return scn


def monotone_renaming(rng, names, depth=None):
    """order-preserving renaming of a random subset, as an ORDERED list of rename_state calls plus the overall mapping.
    n -> n + suffix stays strictly between n and its successor (generated names are 'nDD'; none is a prefix of another);
    a *shift* frees a name and gives it to the next state in name order: a -> a' (just below a), b -> a."""
    kind = rng.random()
    if kind < 0.12:
        steps = [(n, 'q' + n) for n in names]            # everything, common prefix
        rng.shuffle(steps)
        return steps, dict(steps)
    srt = sorted(names)
    steps = []
    used = set()
    if len(srt) >= 2 and kind < 0.6:
        for _ in range(rng.choice([1, 1, 2])):
            i = rng.randrange(len(srt) - 1)
            a, b = srt[i], srt[i + 1]
            if a in used or b in used or not (a[0] == 'n' and a[1:].isdigit() and int(a[1:]) > 0):
                continue
            if depth and depth.get(a) == depth.get(b) and rng.random() < 0.7:
                continue                                  # prefer pairs at different depths
            below = 'n%02dz' % (int(a[1:]) - 1)           # predecessor-or-lower < below < a
            if below in names:
                continue
            steps += [(a, below), (b, a)]
            used |= {a, b}
    rest = [n for n in names if n not in used and rng.random() < 0.4]
    extra = [(n, n + rng.choice(['x', '_r', '0'])) for n in rest]
    rng.shuffle(extra)
    steps += extra
    if not steps:
        n = rng.choice(names)
        steps = [(n, n + 'x')]
    return steps, dict(steps)


def structure(cv, rho=None):
    """chart value -> order-insensitive structure, names mapped through rho"""
    r = (lambda n: n if n is None else rho.get(n, n)) if rho else (lambda n: n)
    states = {}
    for n, s in cv['states']:
        d = dict(s)
        d['name'] = r(d['name'])
        d['initial'] = r(d['initial'])
        d['memory'] = r(d['memory'])
        d['pre'], d['post'], d['inv'] = tuple(d['pre']), tuple(d['post']), tuple(d['inv'])
        states[r(n)] = tuple(sorted(d.items()))
    parent = {r(n): r(p) for n, p in cv['parent']}
    children = {r(k): tuple(sorted(r(c) for c in v)) for k, v in cv['children']}
    by_source = {}
    for t in cv['transitions']:
        d = dict(t)
        d['source'], d['target'] = r(d['source']), r(d['target'])
        d['pre'], d['post'], d['inv'] = tuple(d['pre']), tuple(d['post']), tuple(d['inv'])
        by_source.setdefault(d['source'], []).append(tuple(sorted(d.items(), key=lambda kv: kv[0])))
    return dict(name=cv['name'], description=cv['description'], preamble=cv['preamble'], states=states, parent=parent,
                children=children, transitions=by_source)


def run_pair(a, b, inv_b, script):
    """lock-step; -> None or description of the first difference"""
    for k, op in enumerate(script):
        ra, rb = metam.apply_op(a, op), metam.apply_op(b, op)
        if ra is None:
            continue
        na, nb = metam.norm_case(a, ra), metam.norm_case(b, rb, inv_b)
        if na != nb:
            return dict(at=k, reference=na, other=nb)
        if ra['out'][0] == 'err':
            break
    return None


# ---- copy_from_statechart ----------------------------------------------------------------------------------
def flat_steps(scn, case, inv, drop):
    """macro step -> sequence of non-empty micro steps with names mapped back and host-only states dropped"""
    o = case['out']
    if o[0] == 'err':
        e = o[1]
        return ('err', e[0])
    if o[1] is None:
        return ('none',)
    f = lambda n: inv.get(n, n)
    steps = []
    for s in o[1][1]:
        ent = tuple(f(n) for n in s['entered'] if n not in drop)
        exi = tuple(f(n) for n in s['exited'] if n not in drop)
        tr = None if s['trans'] is None else metam.trans_record(scn, s['trans'], inv)
        if ent or exi or tr is not None or s['sent'] or s['event'] is not None:
            steps.append((s['event'], tr, ent, exi, s['sent']))
    # consecutive pure-entry steps may be split differently (the host enters `plug` by default entry): merge them
    merged = []
    for st in steps:
        if merged and st[0] is None and st[1] is None and not st[3] and not st[4] \
                and merged[-1][1] is None and not merged[-1][3] and not merged[-1][4] and merged[-1][0] is None:
            merged[-1] = (None, None, merged[-1][2] + st[2], (), ())
        else:
            merged.append(st)
    post = case['post']
    return ('macro', tuple(merged), tuple(sorted(f(n) for n in post['config'] if n not in drop)), post['ctx'],
            post['iq'], post['eq'], tuple(sorted((f(k), tuple(sorted(f(x) for x in v))) for k, v in post['memory'])))


COPY_CASES = []


def plug(guest, mode='prefix'):
    """mode: 'prefix' (fresh names) | 'up' / 'down': every name is sent to the next / previous one of the guest's own sorted
    names (order-preserving, but the image overlaps the domain: the library may refuse such a renaming with
    StatechartError - it must not accept it and build something else)"""
    from sismic.model import BasicState, CompoundState, Statechart
    host = Statechart('host', preamble=guest.preamble)
    host.add_state(CompoundState('hroot', initial='plug'), None)
    host.add_state(BasicState('plug'), 'hroot')
    if mode == 'prefix':
        f = lambda n: 'g_' + n
    else:
        names = sorted(n for n in guest.states if n != guest.root)
        ring = (names[1:] + ['~' + names[-1]]) if mode == 'up' else ([' ' + names[0]] + names[:-1])
        table = dict(zip(names, ring))
        f = lambda n: table.get(n, n)
    pre_host, guest_value = sx.chart_value(host), sx.chart_value(guest)
    rho = [(n, f(n)) for n in guest._states if n != guest.root]
    case = dict(host=pre_host, guest=guest_value, source=guest.root, replace='plug', rho=rho, mode=mode)
    COPY_CASES.append(case)
    try:
        host.copy_from_statechart(guest, source=guest.root, replace='plug', renaming_func=f)
        case['res'] = 'EOk'
    except Exception as e:  # noqa
        from sismic.exceptions import StatechartError
        case['res'] = 'EStatechartError' if isinstance(e, StatechartError) else ('EKeyError' if isinstance(e, KeyError) else 'EOther:%r' % (e,))
        raise
    finally:
        case['post'] = sx.chart_value(host)        # (also after a refusal: Python edits the host in place)
    inv = {'plug': guest.root}
    for n in guest.states:
        if n != guest.root:
            inv[f(n)] = n
    return host, inv


def root_has_final_child(sc):
    from sismic.model import FinalState
    return any(isinstance(sc.state_for(c), FinalState) for c in sc.children_for(sc.root))


def main(tier, seed):
    t0 = time.time()
    v = Verdict(PROP)
    have_props = os.path.exists(os.path.join(COQ, 'props', '%s_Props.v' % PROP))
    info = proof_stage(PROP, PROOF_FILES, v) if have_props else dict(build_ok=True, ok=True, note='no property file yet')
    rng = random.Random(seed * 5171 + 17)
    n_charts = 260 if tier == 'quick' else 3000
    # (code must not mention state names: rename_state does not rewrite code)
    profile = genchart.Profile(p_orth=0.4, p_history=0.3, p_contract=0.2, p_internal=0.3, p_entry_code=0.6, max_states=12,
                               p_active_guard=0.0, active_in_actions=False, p_varied_names=0.0, p_char_names=0.0, p_prefix_names=0.0,
                               alt=(0.3, genchart.parallel_profile(p_internal=0.3, p_entry_code=0.6, p_active_guard=0.0, p_varied_names=0.0, p_char_names=0.0, p_prefix_names=0.0,
                                                                   active_in_actions=False)))
    n_viol = 0
    stats = dict(charts=0, renamings=0, renamed_states=0, internal_transitions_of_renamed_states=0, lockstep_execs=0,
                 copies=0, copy_execs=0, copy_skipped=0, rename_errors=0)
    ref_cases, ref_charts = [], {}
    samples = []
    import sismic.io
    import glob
    corpus = []
    for f in sorted(glob.glob('/verif/corpus/C17/*.json')):
        try:
            c = json.load(open(f))
            corpus.append((sismic.io.import_from_yaml(c['chart_yaml']), [tuple(op) if not isinstance(op, tuple) else op for op in c['script']]))
        except Exception:  # noqa
            pass
    stats['corpus'] = len(corpus)
    for k in range(n_charts + len(corpus)):
        if k < len(corpus):
            chart, script0 = corpus[k]       # minimised past failures first
        else:
            chart, script0 = genchart.valid_chart(rng, profile), None
        cv = sx.chart_value(chart)
        names = [n for n, _ in cv['states']]
        evs = sorted({t.event for t in chart._transitions if t.event})
        script = script0 or [metam.random_op(rng, fail_bits=True, names=evs) for _ in range(rng.randint(8, 20))]
        script = [(op[0],) + tuple(tuple(x) if isinstance(x, list) else x for x in op[1:]) for op in script]
        stats['charts'] += 1
        # ---- (a) rename_state through the API
        order, rho = monotone_renaming(rng, names, {n: chart.depth_for(n) for n in names})
        renamed = copy.deepcopy(chart)
        if rng.random() < 0.6:
            # the statechart has been in use before it is edited: queries made, an interpreter run on it
            try:
                warm = mk_scn(renamed)
                warm.interp.execute_once()
                [renamed.depth_for(n) for n in names]
            except Exception:  # noqa
                pass
        try:
            for old, new in order:
                renamed.rename_state(old, new)
        except Exception as e:  # noqa
            stats['rename_errors'] += 1
            n_viol += 1
            v.violation(dict(property=PROP, clause='rename_state raised for a fresh name', error=repr(e), renaming=rho,
                             chart_yaml=sismic.io.export_to_yaml(chart)), tag='ren_err%d' % k)
            continue
        stats['renamings'] += 1
        stats['renamed_states'] += len(rho)
        stats['internal_transitions_of_renamed_states'] += sum(1 for t in chart._transitions if t.target is None and t.source in rho)
        got, want = structure(sx.chart_value(renamed)), structure(cv, rho)
        if got != want:
            diff = [key for key in want if got.get(key) != want[key]]
            n_viol += 1
            v.violation(dict(property=PROP,
                             clause='rename_state did not produce the image of the statechart under the renaming (C17_structure)',
                             differing=diff, renaming=rho, chart_yaml=sismic.io.export_to_yaml(chart),
                             transitions_after=[(t.source, t.target, t.event) for t in renamed._transitions],
                             how_to_replay='./check C17 --replay <this file>'), tag='struct%d' % k)
        inv = {new: old for old, new in rho.items()}
        a, b = mk_scn(chart), mk_scn(renamed)
        cases_before = len(a.rec.calls)
        d = run_pair(a, b, inv, script)
        stats['lockstep_execs'] += sum(1 for op in script if op[0] == 'exec')
        if d is not None:
            n_viol += 1
            v.violation(dict(property=PROP, clause='the renamed statechart does not produce the original run with the names '
                                                    'substituted (C17_rename_run)', renaming=rho,
                             chart_yaml=sismic.io.export_to_yaml(chart), script=script, difference=d,
                             how_to_replay='./check C17 --replay <this file>'), tag='run%d' % k)
        if len(samples) < 2:
            samples.append(dict(renaming=rho, script=script[:6], states=names))
        # ---- (b) copy_from_statechart
        if root_has_final_child(chart):
            stats['copy_skipped'] += 1      # a final child of the guest's root ends the guest but not the host
            continue
        mode = rng.choice(['prefix', 'prefix', 'up', 'down'])
        host = err = None
        if mode != 'prefix':
            from sismic.exceptions import StatechartError
            try:
                host, hinv = plug(chart, mode)
            except StatechartError:
                stats['copy_refused'] = stats.get('copy_refused', 0) + 1     # an overlapping renaming may be refused
                mode = 'prefix'
            except Exception as e:  # noqa
                err = e
        if host is None and err is None:
            try:
                host, hinv = plug(chart, mode)
            except Exception as e:  # noqa
                err = e
        if err is not None:
            n_viol += 1
            v.violation(dict(property=PROP, clause='copy_from_statechart raised on a well-formed guest', error=repr(err), mode=mode,
                             chart_yaml=sismic.io.export_to_yaml(chart)), tag='copy_err%d' % k)
            continue
        stats['copies'] += 1
        stats['copies_' + mode] = stats.get('copies_' + mode, 0) + 1
        g, h = mk_scn(copy.deepcopy(chart)), mk_scn(host)
        for j, op in enumerate(script):
            rg, rh = metam.apply_op(g, op), metam.apply_op(h, op)
            if rg is None:
                continue
            stats['copy_execs'] += 1
            fg, fh = flat_steps(g, rg, {}, ()), flat_steps(h, rh, hinv, ('hroot',))
            if fg != fh:
                n_viol += 1
                v.violation(dict(property=PROP, clause='a sub-statechart plugged in with copy_from_statechart does not behave as '
                                                        'its source (C17_copy)', chart_yaml=sismic.io.export_to_yaml(chart),
                                 host_yaml=sismic.io.export_to_yaml(host), script=script, at=j, guest=fg, host=fh,
                                 how_to_replay='./check C17 --replay <this file>'), tag='copy%d' % k)
                break
            if rg['out'][0] == 'err':
                break
    # ---- (c) the copy cases against the model of copy_from_statechart (theories/Copy.v)
    import tocoq
    from common import clist, coq_eval_files, cstr, gen_dir, parse_pairs
    d = gen_dir(PROP)
    files, shard = [], 40
    usable = [c for c in COPY_CASES if not c['res'].startswith('EOther')]
    for c in COPY_CASES:
        if c['res'].startswith('EOther'):
            n_viol += 1
            v.violation(dict(property=PROP, clause='copy_from_statechart raised something else than StatechartError', error=c['res'],
                             mode=c['mode'], renaming=c['rho']), tag='copy_other%d' % n_viol)
    for s0 in range(0, len(usable), shard):
        fn = '%s/copycases_%d.v' % (d, s0 // shard)
        with open(fn, 'w') as f:
            f.write('From Coq Require Import NArith List.\nFrom Sismic Require Import Base Chart Edit Copy.\nFrom SismicProofs Require WrapProofs.\n'
                    'Open Scope string_scope.\nOpen Scope list_scope.\n')
            f.write('Definition cases : list ccase := [\n')
            f.write(';\n'.join('(mkCCase %s %s %s %s %s %s %s)' % (
                tocoq.c_chart(c['host']), tocoq.c_chart(c['guest']), cstr(c['source']), cstr(c['replace']),
                clist(c['rho'], lambda kv: '(%s, %s)' % (cstr(kv[0]), cstr(kv[1]))), c['res'], tocoq.c_chart(c['post']))
                for c in usable[s0:s0 + shard]))
            f.write('\n].\nEval vm_compute in (check_ccases cases).\n')
            # the hypotheses of the embedding theorems (WrapProofs.wrap_ok, decidable form) on the guests that were plugged in
            f.write('Eval vm_compute in [N.of_nat (length (filter (fun c => WrapProofs.wrap_okb (cc_guest c) (cc_source c) "hroot") cases)); '
                    'N.of_nat (length cases)].\n')
        files.append(fn)
    copy_bits = {}
    wrap_hyp = [0, 0]
    for k, (fn, rc, out) in enumerate(coq_eval_files(PROP, files)):
        if rc != 0:
            n_viol += 1
            v.violation(dict(property=PROP, broken='correspondence file did not evaluate', file=fn, log=out[-2000:]), tag='coq', no_input=True)
            continue
        import re as _re
        h = _re.search(r'\[(\d+)%N;\s*(\d+)%N\]', out)
        if h:
            wrap_hyp[0] += int(h.group(1))
            wrap_hyp[1] += int(h.group(2))
        for i, m in parse_pairs(out):
            c = usable[k * shard + i]
            cl = []
            if m & 1:
                cl.append('the outcome of copy_from_statechart (%s) is not the documented one' % c['res'])
            if m & 2:
                cl.append('the host after copy_from_statechart is not the host plus the renamed copy of the source sub-statechart (C17_copy_structure)')
            if m & 4:
                cl.append('copy_from_statechart succeeded on a sound host and guest and left an unsound host')
            copy_bits[m] = copy_bits.get(m, 0) + 1
            n_viol += 1
            v.violation(dict(property=PROP, clause='; '.join(cl), mode=c['mode'], renaming=c['rho'], source=c['source'], replace=c['replace'],
                             guest=c['guest'], host_before=c['host'], host_after=c['post'], outcome=c['res'],
                             how_to_replay='the statecharts are given as plain data (states, parent, children, transitions in dictionary order)'),
                        tag='copym%d' % (k * shard + i))
    stats['copy_cases_against_the_model'] = len(usable)
    stats['guests_satisfying_wrap_okb'] = '%d of %d' % tuple(wrap_hyp)
    stats['copy_cases_refused'] = sum(1 for c in usable if c['res'] != 'EOk')
    if not info.get('build_ok') or not info.get('ok') or info.get('forbidden_tokens'):
        if n_viol == 0:
            v.violation(dict(property=PROP, broken='proof obligations do not check', info=info), tag='proof', no_input=True)
            n_viol += 1
    cov = dict(
        obligations=info.get('obligations', 0), discharged=info.get('discharged', 0),
        checker_cmd='cd /verif/coq && make && coqc props/C17_Props.v (Print Assumptions); lock-step runs of /repo: original vs '
                    'rename_state-renamed chart, guest vs host after copy_from_statechart',
        trusted_base=TRUSTED_BASE + ['Print Assumptions: ' + (
            'Closed under the global context x%d' % info.get('closed', 0) if not info.get('axioms') else '; '.join(info['axioms']))],
        theorems=info.get('theorems', []),
        evaluations=stats['lockstep_execs'] + stats['copy_execs'], distinct_nontrivial=stats['renamings'] + stats['copies'],
        rule='for each generated well-formed chart: an order-preserving renaming of a random subset of its states applied through '
             'rename_state (in random order), structural comparison with the image chart, lock-step run original vs renamed on a '
             'random script compared modulo the renaming; then the chart is plugged into a host with copy_from_statechart and '
             'guest and host run in lock-step. distinct = distinct (chart, renaming) / (guest, host) pairs (charts are '
             'generated independently, each is counted once).',
        traces_validated_against_impl=stats['renamings'] + stats['copies'], input_distribution=stats,
        samples=samples or [dict(note='none')],
        source_blobs=repo_blob_ids(['sismic/model/statechart.py', 'sismic/interpreter/default.py']),
        proof_info={k: info.get(k) for k in ('build_ok', 'ok', 'closed', 'axioms', 'forbidden_tokens', 'note', 'coqchk')})
    write_evidence(PROP, tier, seed, t0, cov,
                   ['code fragments do not mention state names except inside tautologies (rename_state does not rewrite code)',
                    'copy_from_statechart: the host keeps the guest active (no host transition leaves the plug state); guests '
                    'whose root has a final child are skipped (the guest terminates, the host cannot)',
                    'the lock-step runs are a test of the implementation, not a proof; the theorems are about the model'], n_viol)
    return v.finish()


def replay(path):
    r = json.load(open(path))
    print(json.dumps({k: r[k] for k in r if not k.endswith('yaml')}, indent=1, default=str)[:4000])
    return 0
