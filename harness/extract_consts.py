"""Constants regenerated from the source on every run (DESIGN.md section 4.4): a small fail-soft `ast` extractor.

  sismic/io/yaml.py            SCHEMA.contract / transition / state / statechart: key sets and literal alternatives
  sismic/model/elements.py     Transition.LOW_PRIORITY / DEFAULT_PRIORITY / HIGH_PRIORITY
  sismic/interpreter/default.py  every MetaEvent('<name>', kw=...) the interpreter constructs: name and keyword set

`write(prop)` writes coq/gen/<prop>_consts/Generated.v and Obligations.v: the obligations say that what the source says
now is what the model (IO.v, Interp.v) and the theorems were written against.  When the source can no longer be parsed
in the expected shape the extractor says so (notes) and produces nothing: the check then relies on the behavioural
correspondence alone (a harmless refactoring raises no alarm by this route)."""
import ast
import os

from common import COQ, COQ_FLAGS, GEN, REPO, cstr, clist, run


def _lit(node):
    if isinstance(node, ast.Constant) and isinstance(node.value, str):
        return node.value
    return None


def _key_names(node):
    """a dict key: 'x' | schema.Optional('x') | schema.Or('a', 'b', ...)  ->  list of names"""
    v = _lit(node)
    if v is not None:
        return [v]
    if isinstance(node, ast.Call) and isinstance(node.func, ast.Attribute) and node.func.attr in ('Optional', 'Or'):
        out = []
        for a in node.args:
            out += _key_names(a)
        return out
    raise ValueError('unexpected key %s' % ast.dump(node)[:80])


def _or_literals(node):
    """schema.Or(..., 'a', 'b') -> the string alternatives"""
    if isinstance(node, ast.Call) and isinstance(node.func, ast.Attribute) and node.func.attr == 'Or':
        return [x for x in (_lit(a) for a in node.args) if x is not None]
    return []


def extract(repo=None):
    repo = repo or REPO
    res, notes = {}, []
    # ---- SCHEMA
    try:
        tree = ast.parse(open(os.path.join(repo, 'sismic/io/yaml.py')).read())
        cls = next(n for n in tree.body if isinstance(n, ast.ClassDef) and n.name == 'SCHEMA')
        dicts = {}
        for st in cls.body:
            if isinstance(st, ast.Assign) and isinstance(st.value, ast.Dict):
                dicts[st.targets[0].id] = st.value
            elif isinstance(st, ast.Expr) and isinstance(st.value, ast.Call) and isinstance(st.value.func, ast.Attribute) \
                    and st.value.func.attr == 'update' and isinstance(st.value.args[0], ast.Dict):
                dicts[st.value.func.value.id] = st.value.args[0]
        res['contract_keys'] = [k for key in dicts['contract'].keys for k in _key_names(key)]
        res['transition_keys'] = [k for key in dicts['transition'].keys for k in _key_names(key)]
        res['state_keys'] = [k for key in dicts['state'].keys for k in _key_names(key)]
        outer = dicts['statechart']
        assert [_lit(k) for k in outer.keys] == ['statechart']
        res['statechart_keys'] = [k for key in outer.values[0].keys for k in _key_names(key)]
        for key, val in zip(dicts['state'].keys, dicts['state'].values):
            if _key_names(key) == ['type']:
                res['type_values'] = _or_literals(val)
        for key, val in zip(dicts['transition'].keys, dicts['transition'].values):
            if _key_names(key) == ['priority']:
                res['priority_words'] = _or_literals(val)
    except Exception as e:  # noqa
        notes.append('SCHEMA of sismic/io/yaml.py not in the expected shape: %r' % (e,))
    # ---- priorities
    try:
        tree = ast.parse(open(os.path.join(repo, 'sismic/model/elements.py')).read())
        cls = next(n for n in tree.body if isinstance(n, ast.ClassDef) and n.name == 'Transition')
        pr = {}
        for st in cls.body:
            if isinstance(st, ast.Assign) and isinstance(st.targets[0], ast.Name) and st.targets[0].id.endswith('_PRIORITY'):
                pr[st.targets[0].id] = ast.literal_eval(st.value)
        res['priorities'] = [pr['LOW_PRIORITY'], pr['DEFAULT_PRIORITY'], pr['HIGH_PRIORITY']]
    except Exception as e:  # noqa
        notes.append('priority constants of sismic/model/elements.py not found: %r' % (e,))
    # ---- meta events
    try:
        tree = ast.parse(open(os.path.join(repo, 'sismic/interpreter/default.py')).read())
        metas = []
        for n in ast.walk(tree):
            if isinstance(n, ast.Call) and isinstance(n.func, ast.Name) and n.func.id == 'MetaEvent' and n.args \
                    and _lit(n.args[0]) is not None:
                metas.append((n.lineno, _lit(n.args[0]), sorted(k.arg for k in n.keywords if k.arg)))
        metas.sort()
        if not metas:
            raise ValueError('no MetaEvent(<literal>, ...) call found')
        res['meta_events'] = sorted({(name, tuple(kws)) for _, name, kws in metas})
    except Exception as e:  # noqa
        notes.append('MetaEvent constructions of sismic/interpreter/default.py not found: %r' % (e,))
    return res, notes


def cz(n):
    return '(%d)%%Z' % n if n < 0 else '%d%%Z' % n


OBLIGATIONS = {
    'C12': ('contract_keys', 'transition_keys', 'state_keys', 'statechart_keys', 'type_values', 'priority_words', 'priorities'),
    'C11': ('priority_words', 'priorities'),
    'C10': ('meta_events',),
}


def write_and_check(prop):
    """-> dict(extracted=..., notes=[...], obligations=[names], ok=bool or None, log=str)"""
    res, notes = extract()
    want = [k for k in OBLIGATIONS.get(prop, ()) if k in res]
    info = dict(extracted={k: res[k] for k in want}, notes=notes, obligations=[], ok=None, log='')
    if not want:
        return info
    d = os.path.join(GEN, '%s_consts' % prop)
    os.makedirs(d, exist_ok=True)
    g = ['From Sismic Require Import Base.', 'Open Scope string_scope.', 'Open Scope list_scope.']
    o = ['From Sismic Require Import Base Chart Interp IO.', 'Add LoadPath "%s" as SismicGen%s.' % (d, prop),
         'Require SismicGen%s.Generated.' % prop, 'Module G := SismicGen%s.Generated.' % prop,
         'Open Scope string_scope.', 'Open Scope list_scope.']
    for k in want:
        if k == 'priorities':
            g.append('Definition priorities : list Z := %s.' % clist(res[k], cz))
            # import: 'low' -> LOW, 'high' -> HIGH, default when absent; export: the converse (IO.v)
            o.append('Lemma gen_priorities : G.priorities = [(-1)%Z; 0%Z; 1%Z]. Proof. reflexivity. Qed.')
        elif k == 'meta_events':
            g.append('Definition meta_events : list (string * list string) := %s.' % clist(
                res[k], lambda m: '(%s, %s)' % (cstr(m[0]), clist(m[1], cstr))))
            o.append('''Definition model_meta_events : list (string * list string) :=
  [("delayed event sent", ["event"]); ("event consumed", ["event"]); ("event sent", ["event"]);
   ("state entered", ["state"]); ("state exited", ["state"]); ("step ended", []); ("step started", ["time"]);
   ("transition processed", ["event"; "source"; "target"])].
Lemma gen_meta_events : G.meta_events = model_meta_events. Proof. reflexivity. Qed.
(* ... and that list is what the model emits: every built-in meta-event of Interp.v carries one of these names *)
Lemma model_meta_names : forall m, match m with MUser _ _ => True | _ => In (e_name (meta_to_event m)) (map fst model_meta_events) end.
Proof. intros m; destruct m; simpl; tauto. Qed.''')
        else:
            g.append('Definition %s : list string := %s.' % (k, clist(res[k], cstr)))
            model = {'contract_keys': 'IO.contract_keys', 'transition_keys': 'IO.transition_keys', 'state_keys': 'IO.state_keys',
                     'statechart_keys': 'IO.statechart_keys', 'type_values': 'IO.type_values',
                     'priority_words': '["high"; "low"]'}[k]
            o.append('Lemma gen_%s : sort_names G.%s = sort_names %s. Proof. reflexivity. Qed.' % (k, k, model))
        info['obligations'].append('gen_' + k)
    open(os.path.join(d, 'Generated.v'), 'w').write('\n'.join(g) + '\n')
    open(os.path.join(d, 'Obligations.v'), 'w').write('\n'.join(o) + '\n')
    rc1, out1 = run(['coqc', '-noglob', '-Q', 'theories', 'Sismic', '-R', d, 'SismicGen%s' % prop, os.path.join(d, 'Generated.v')], 300, cwd=COQ)
    rc2, out2 = (1, '') if rc1 != 0 else run(['coqc', '-noglob', '-Q', 'theories', 'Sismic', '-R', d, 'SismicGen%s' % prop,
                                              os.path.join(d, 'Obligations.v')], 300, cwd=COQ)
    info['ok'] = (rc1 == 0 and rc2 == 0)
    info['log'] = (out1 + out2)[-1500:] if not info['ok'] else ''
    return info
