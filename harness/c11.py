"""C11 -- YAML export/import round trip."""
import os
import pickle
import random
import time

import genchart
import ifam
import iofam
import sx
from common import (REPO, COQ, Verdict, coq_eval_files, gen_dir, load_known_findings, parse_pairs, proof_stage,
                    repo_blob_ids, write_evidence, TRUSTED_BASE, cbool)

PROP = 'C11'
PROOF_FILES = [f for f in ['theories/IO.v', 'proofs/IOProofs.v'] if os.path.exists(os.path.join(COQ, f))]


def py_eq_clause(sc, sc2):
    """the real == of sismic on every state and on the transitions of every source"""
    for n, s in sc._states.items():
        if n not in sc2._states or not (s == sc2._states[n]):
            return 'state %r != its re-imported image' % n
        if sc.transitions_from(n) != sc2.transitions_from(n):
            return 'transitions of %r != their re-imported images' % n
    return None


def behaviour_lockstep(rng, sc, sc2, n_ops=20):
    a = sx.Scenario(pickle.loads(pickle.dumps(sc)), n_rec=0)
    b = sx.Scenario(sc2, n_rec=0)
    for k in range(n_ops):
        r = rng.random()
        if r < 0.15:
            d = rng.choice([1, 2, 3])
            a.clock.time += d
            b.clock.time += d
            continue
        if r < 0.3:
            g = rng.getrandbits(12)
            a.interp._evaluator._context['g'] = g
            b.interp._evaluator._context['g'] = g
            continue
        if r < 0.6:
            e = ifam.make_event(rng)
            from sismic.model import Event
            a.interp.queue(Event(e.name, **e.data))
            b.interp.queue(Event(e.name, **e.data))
            continue
        ca, cb = a.step_case(('exec',)), b.step_case(('exec',))
        oa, ob = ca['out'], cb['out']
        # transitions are identified by position in the list; compare them as records instead
        def norm(o, s):
            if o[0] != 'macro' or o[1] is None:
                return o[0] if o[0] != 'err' else (o[0], o[1][0])
            return (o[1][0], [(st['event'], None if st['trans'] is None else repr(iofam.sx.chart_value(s.sc)['transitions'][st['trans']]),
                               st['entered'], st['exited'], st['sent']) for st in o[1][1]])
        if norm(oa, a) != norm(ob, b) or ca['post']['config'] != cb['post']['config'] or ca['post']['ctx'] != cb['post']['ctx']:
            return dict(at=k, original=oa, reimported=ob)
        if oa[0] == 'err':
            break
    return None


def edit_before_export(rng, sc, stats):
    """The statechart was used and edited through the API before it is exported (rotate_transition, rename_state keep it
    valid for export): what is exported must be the statechart as it is NOW."""
    from sismic.exceptions import StatechartError
    try:
        [sc.transitions_from(n) for n in sc.states]      # (queries made before the edits)
        [sc.depth_for(n) for n in sc.states]
    except Exception:  # noqa
        pass
    owners = [n for n in sc.states if hasattr(sc.state_for(n), 'transitions') or sc.state_for(n).__class__.__name__ in
              ('BasicState', 'CompoundState', 'OrthogonalState')]
    for _ in range(rng.randint(1, 3)):
        try:
            if sc._transitions and rng.random() < 0.6:
                t = rng.choice(sc._transitions)
                if rng.random() < 0.6:
                    sc.rotate_transition(t, new_source=rng.choice(owners))
                else:
                    sc.rotate_transition(t, new_target=rng.choice(list(sc.states)))
                stats['rotations_before_export'] = stats.get('rotations_before_export', 0) + 1
            else:
                old = rng.choice(list(sc.states))
                sc.rename_state(old, old + rng.choice(['_e', 'x']))
                stats['renames_before_export'] = stats.get('renames_before_export', 0) + 1
        except StatechartError:
            pass


def disturb(rng):
    """A failing export / import in the same process, as happens in a long-running tool: round trips that follow
    must not be affected by it."""
    import sismic.io
    from sismic.model import BasicState, CompoundState, Statechart, Transition
    k = rng.randrange(3)
    try:
        if k == 0:
            sc = Statechart('unexportable')
            sc.add_state(CompoundState('r', initial='a'), None)
            sc.add_state(BasicState('a', on_entry=(lambda: None) if rng.random() < 0.5 else None), 'r')
            sc.add_transition(Transition('a', None, event='e', guard=lambda: True))
            sismic.io.export_to_yaml(sc)
        elif k == 1:
            sismic.io.import_from_yaml('statechart:\n  name: [unclosed\n  root state: {')
        else:
            sismic.io.import_from_yaml('statechart:\n  name: x\n  root state:\n    name: r\n    bogus: 1\n')
    except Exception:  # noqa
        pass
    return k


def main(tier, seed):
    t0 = time.time()
    v = Verdict(PROP)
    have_props = os.path.exists(os.path.join(COQ, 'props', '%s_Props.v' % PROP))
    info = proof_stage(PROP, PROOF_FILES, v) if have_props else dict(build_ok=True, ok=True, note='no property file')
    rng = random.Random(seed * 911 + 11)
    n = 500 if tier == 'quick' else 8000
    from sismic.io import export_to_yaml
    from sismic.io.datadict import export_to_dict
    cases = []       # (coq text, description)
    n_viol = 0
    stats = dict(weird=0, executable=0, yaml_layer_checked=0, eq_clause_checked=0, behaviour_runs=0, shipped=0)
    known = [k for k in load_known_findings() if k.get('property') == PROP]

    def one_chart(sc, executable, tag):
        nonlocal n_viol
        cv = sx.chart_value(sc)
        d = export_to_dict(sc)
        cases.append(('(XCase %s %s)' % (iofam.c_chart_raw(cv), iofam.c_ydata(d)), dict(kind='export', tag=tag, chart=cv)))
        text = export_to_yaml(sc)
        stats['yaml_layer_checked'] += 1
        try:
            back = iofam.load_yaml(text)
        except Exception as e:  # noqa
            back = repr(e)
        if back != d:
            v.violation(dict(property=PROP, clause='the YAML text layer loses information: load(dump(d)) != d',
                             exported_dict=d, loaded_back=back, yaml=text), tag='yaml%s' % tag)
            n_viol += 1
        r = iofam.impl_import_text(text)
        if rng.random() < 0.2:
            # the documented file variants: export_to_yaml(sc, filepath=) writes what it returns, import_from_yaml(filepath=)
            # reads what import_from_yaml(text) is given
            import tempfile
            from sismic.io import import_from_yaml
            stats['file_variants'] = stats.get('file_variants', 0) + 1
            with tempfile.TemporaryDirectory(prefix='c11_') as td:
                fp = os.path.join(td, 'sc.yaml')
                try:
                    text2 = export_to_yaml(sc, filepath=fp)
                    on_disk = open(fp, encoding='utf-8').read() if os.path.exists(fp) else None
                except Exception as e:  # noqa
                    text2, on_disk = repr(e), None
                msg = None
                if text2 != text or on_disk != text:
                    msg = 'export_to_yaml(sc, filepath=...) did not return and write the text export_to_yaml(sc) returns'
                else:
                    try:
                        rf = ('ok', sx.chart_value(import_from_yaml(filepath=fp)))
                    except Exception as e:  # noqa
                        rf = ('err', type(e).__name__)
                    rt = ('ok', sx.chart_value(r[1])) if r[0] == 'ok' else ('err', None)
                    if rf[0] != rt[0] or (rf[0] == 'ok' and rf[1] != rt[1]):
                        msg = 'import_from_yaml(filepath=...) does not yield what import_from_yaml(text) yields for the same text'
                if msg:
                    v.violation(dict(property=PROP, clause=msg + ' (C11, file variants)', yaml=text, returned=text2 if text2 != text else 'same',
                                     on_disk=on_disk if on_disk != text else 'same'), tag='file%s' % tag)
                    n_viol += 1
        eqc = iofam.no_edge_space(sc)
        cases.append(('(RCase %s %s %s)' % (iofam.c_chart_raw(cv), cbool(eqc), iofam.c_iores(r)),
                      dict(kind='roundtrip', tag=tag, chart=cv, yaml=text, outcome=r[0] if r[0] != 'other' else r)))
        if r[0] == 'ok' and eqc:
            stats['eq_clause_checked'] += 1
            msg = py_eq_clause(sc, r[1])
            if msg:
                v.violation(dict(property=PROP, clause='== clause: ' + msg, yaml=text), tag='eq%s' % tag)
                n_viol += 1
        if r[0] == 'ok' and executable:
            stats['behaviour_runs'] += 1
            diff = behaviour_lockstep(rng, sc, r[1])
            if diff:
                v.violation(dict(property=PROP, clause='the re-imported statechart behaves differently (C11_behaviour)',
                                 yaml=text, difference=diff), tag='beh%s' % tag)
                n_viol += 1

    for i in range(n):
        if i % 5 == 1:
            stats['disturbances'] = stats.get('disturbances', 0) + 1
            disturb(rng)
        if i % 3 == 2:
            sc = genchart.valid_chart(rng, genchart.Profile())
            stats['executable'] += 1
            if rng.random() < 0.5:
                edit_before_export(rng, sc, stats)
            if rng.random() < 0.2:
                # code given through the API with a common left margin (a triple-quoted string in the caller's source): what the
                # chart does with it - run it or refuse it - the re-imported chart must do too
                owners = [st for st in sc._states.values() if getattr(st, 'on_entry', None)]
                for st in rng.sample(owners, min(2, len(owners))):
                    body = st.on_entry if '\n' in st.on_entry else st.on_entry + '\ny = y + 0'
                    st.on_entry = '    ' + body.replace('\n', '\n    ')
                stats['charts_with_indented_code'] = stats.get('charts_with_indented_code', 0) + 1
            one_chart(sc, True, str(i))
        else:
            sc = iofam.weird_chart(rng)
            stats['weird'] += 1
            one_chart(sc, False, str(i))
    # regression: deeply nested statecharts (the emitter must not fold lines; fixed in /repo, see known_findings.json)
    from sismic.model import BasicState, CompoundState, Statechart, Transition
    for depth in (38, 45, 70):
        sc = Statechart('deep%d' % depth)
        sc.add_state(CompoundState('s0', initial='s1'), None)
        for i in range(1, depth):
            st = CompoundState('s%d' % i, initial='s%d' % (i + 1), on_entry='x = 1') if i < depth - 1 else BasicState('s%d' % i, on_entry='x = 1')
            sc.add_state(st, 's%d' % (i - 1))
        sc.add_transition(Transition('s%d' % (depth - 1), 's1', event='e', guard=' and '.join('y != %d' % k for k in range(30))))
        stats['deep_chains'] = stats.get('deep_chains', 0) + 1
        one_chart(sc, False, 'deep%d' % depth)
    # shipped charts
    import glob
    import sismic.io
    for path in sorted(glob.glob(REPO + '/tests/yaml/*.yaml') + glob.glob(REPO + '/docs/examples/*/*.yaml')):
        try:
            sc = sismic.io.import_from_yaml(filepath=path)
        except Exception:  # noqa
            continue
        stats['shipped'] += 1
        one_chart(sc, False, os.path.basename(path))
    # known findings: the recorded witnesses are replayed; they are reported as KNOWN-FINDING while they still fail
    for k in known:
        from sismic.model import BasicState, CompoundState, Statechart
        sc = Statechart('kf')
        sc.add_state(CompoundState('root', initial=k['witness_state_name']), None)
        sc.add_state(BasicState(k['witness_state_name']), 'root')
        r = iofam.impl_import_text(export_to_yaml(sc))
        if r[0] != 'ok' or k['witness_state_name'] not in r[1]._states:
            v.known_finding(k['what'])
    d = gen_dir(PROP)
    files = []
    shard = 70
    for s in range(0, len(cases), shard):
        fn = '%s/cases_%d.v' % (d, s // shard)
        with open(fn, 'w') as f:
            f.write(iofam.HEADER)
            f.write('Definition cases : list iocase := [\n')
            f.write(';\n'.join(c[0] for c in cases[s:s + shard]))
            f.write('\n].\nEval vm_compute in (check_iocases cases).\n')
        files.append(fn)
    res = coq_eval_files(PROP, files)
    clauses = {}
    for k, (fn, rc, out) in enumerate(res):
        if rc != 0:
            v.violation(dict(property=PROP, broken='correspondence file did not evaluate', file=fn, log=out[-2000:]),
                        tag='coq', no_input=True)
            n_viol += 1
            continue
        for i, m in parse_pairs(out):
            desc = cases[k * shard + i][1]
            cl = []
            if m & 8:
                cl.append('import_from_yaml(export_to_yaml(sc)) is not a lossless image of sc (C11_dict_roundtrip)')
            if m & 16:
                cl.append('== clause fails in the model of == (C11_eq)')
            if m & 1 and not cl:
                cl.append('export tree / re-imported chart differs from the model (correspondence of IO.v)')
            c = '; '.join(cl)
            clauses[c] = clauses.get(c, 0) + 1
            v.violation(dict(property=PROP, clause=c, case=desc, mismatch_bits=m), tag=str(k * shard + i),
                        no_input=(m == 1 and desc['kind'] == 'export'))
            n_viol += 1
    if not info.get('build_ok') or not info.get('ok') or info.get('forbidden_tokens'):
        if n_viol == 0:
            v.violation(dict(property=PROP, broken='proof obligations do not check', info=info), tag='proof', no_input=True)
            n_viol += 1
    import extract_consts
    ci = extract_consts.write_and_check(PROP)
    if ci['ok'] is False and n_viol == 0:
        v.violation(dict(property=PROP, broken='constants regenerated from the source (schema keys, type values, priority words and '
                                               'values) no longer equal those the model and the theorems were written against, and no '
                                               'run of this check misbehaved', obligations=ci['obligations'], extracted=ci['extracted'],
                         log=ci['log']), tag='consts', no_input=True)
        n_viol += 1
    cov = dict(
        obligations=info.get('obligations', 0), discharged=info.get('discharged', 0),
        checker_cmd='cd /verif/coq && make && coqc props/C11_Props.v (Print Assumptions); coqc gen/C11/cases_*.v',
        trusted_base=TRUSTED_BASE + ['ruamel.yaml and schema are third-party and not modelled: load(dump(d)) = d is checked on every exported dictionary',
                                     'Print Assumptions: ' + ('Closed under the global context x%d' % info.get('closed', 0)
                                                              if not info.get('axioms') else '; '.join(info['axioms']))],
        theorems=info.get('theorems', []),
        evaluations=len(cases), distinct_nontrivial=len({c[0] for c in cases}),
        rule='valid statecharts with arbitrary unicode / YAML-significant / multi-line names and text (never executed), '
             'generated executable charts, and every shipped YAML chart; per chart: export tree vs model, '
             'import_from_yaml(export_to_yaml(sc)) vs model and vs the lossless-image checker, real == on every element, '
             'lock-step behaviour of original and re-import; distinct = distinct case terms',
        traces_validated_against_impl=len(cases), stats=stats, mismatch_clauses=clauses,
        samples=[cases[1][1].get('yaml', '')[:600], cases[3][1].get('yaml', '')[:600]],
        known_findings_reported=list(v.known),
        source_blobs=repo_blob_ids(['sismic/io/yaml.py', 'sismic/io/datadict.py', 'sismic/model/elements.py']),
        regenerated_constants=dict(obligations=ci['obligations'], ok=ci['ok'], notes=ci['notes']),
        proof_info={k: info.get(k) for k in ('build_ok', 'ok', 'closed', 'axioms', 'forbidden_tokens', 'note', 'coqchk')})
    write_evidence(PROP, tier, seed, t0, cov,
                   ['valid = DESIGN.md section 6 (C11): composite states have children, optional strings absent or non-empty, '
                    'event names without surrounding whitespace, validate() passes',
                    'Unicode whitespace beyond ASCII in str.strip() is not modelled',
                    'strings hit by the two recorded ruamel.yaml defects (U+0085; leading "?" in a flow mapping) are excluded '
                    'from generation and replayed as known findings'], n_viol)
    return v.finish()


def replay(path):
    import json
    import icheck
    return icheck.replay(path)
