"""C05 -- interpreter-family check (see icheck.py, ifam.py)."""
import os

import genchart
import icheck
import ifam

PROP = 'C05'
PROOF_FILES = [f for f in ['proofs/FrameLib.v', 'proofs/C05Proofs.v'] if os.path.exists(os.path.join('/verif/coq', f))]


def float_queue_post(tier, seed):
    """Float times and delays (the Coq model is over Z): a reference queue kept by the harness in the same float arithmetic --
    due = time + delay, consumption order (due, arrival), an event is consumed by the first step whose time is >= its due time
    and by none before -- is compared with the real interpreter on a statechart that reacts to nothing.  A test, not a proof."""
    def run(v, charts, cases, masks):
        import random
        from sismic.clock import SimulatedClock
        from sismic.interpreter import Interpreter
        from sismic.model import BasicState, CompoundState, Event, Statechart
        rng = random.Random(seed * 131 + 5)
        n = 150 if tier == 'quick' else 3000
        nv, steps = 0, 0
        delays = [0, 0.0, 1, 2, 0.5, 0.1, 0.2, 0.30000000000000004, 1e-7, 2e-7, 4e-7, 1.6e-6, 1e-9, 2.5, 1e3, 7, 1 / 3]
        for k in range(n):
            sc = Statechart('sink')
            sc.add_state(CompoundState('r', initial='a'), None)
            sc.add_state(BasicState('a'), 'r')
            clock = SimulatedClock()
            base = rng.choice([0, 0, 0.0, 1, 1700000000, 1700000000.5, 1e9, 123456.789])
            clock.time = base
            it = Interpreter(sc, clock=clock)
            it.execute_once()
            ref = []       # (due, arrival, name)
            arrival = 0
            bad = None
            script = []
            for j in range(rng.randint(6, 25)):
                r = rng.random()
                if r < 0.45:
                    d = rng.choice(delays)
                    name = 'ev%d' % arrival
                    it.queue(Event(name, delay=d) if d != 0 or rng.random() < 0.5 else Event(name))
                    ref.append((it.time + d, arrival, name))
                    arrival += 1
                    script.append(('queue', name, d))
                elif r < 0.7:
                    inc = rng.choice([0, 1, 0.1, 1e-7, 3e-7, 1.6e-6, 0.5, 2, 1e-9])
                    clock.time = clock.time + inc
                    script.append(('clock+', inc))
                else:
                    now = clock.time
                    m = it.execute_once()
                    steps += 1
                    due = sorted(x for x in ref if x[0] <= now)
                    want = due[0][2] if due else None
                    got = m.event.name if (m is not None and m.event is not None) else None
                    script.append(('exec', now, got))
                    if got != want:
                        bad = dict(step_time=now, consumed=got, expected=want, pending=[(x[2], x[0]) for x in sorted(ref)])
                        break
                    if due:
                        ref.remove(due[0])
            if bad:
                nv += 1
                v.violation(dict(property=PROP, clause='with float times: the event consumed is not the earliest-due pending event '
                                                        '(due = time + delay) / an event is consumed before it is due or not as soon as it '
                                                        'is due (C05_delay, C05_which)', start_time=base, script=script, detail=bad),
                            tag='float%d' % k)
        return nv, dict(float_queue_runs=n, float_queue_steps=steps)
    return run


def main(tier, seed):
    return icheck.run(PROP, tier, seed, genchart.Profile(p_send=0.6, p_action=0.8, p_contract=0.05), ifam.ScenarioSpec(p_queue=0.5, p_clock=0.2, n_ops=(10, 28), p_mirror=0.45, clock_offset=0.15, p_fail_bit=0.12, p_continue=0.6), icheck.interest_c05, PROOF_FILES, post=float_queue_post(tier, seed), assumptions=['integer times and delays'])


replay = icheck.replay
