"""C05 -- interpreter-family check (see icheck.py, ifam.py)."""
import os

import genchart
import icheck
import ifam

PROP = 'C05'
PROOF_FILES = [f for f in ['proofs/FrameLib.v', 'proofs/C05Proofs.v'] if os.path.exists(os.path.join('/verif/coq', f))]


def main(tier, seed):
    return icheck.run(PROP, tier, seed, genchart.Profile(p_send=0.6, p_action=0.8, p_contract=0.05), ifam.ScenarioSpec(p_queue=0.5, p_clock=0.2, n_ops=(10, 28), p_mirror=0.45), icheck.interest_c05, PROOF_FILES, assumptions=['integer times and delays'])


replay = icheck.replay
