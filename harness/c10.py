"""C10 -- interpreter-family check (see icheck.py, ifam.py)."""
import os

import genchart
import icheck
import ifam

PROP = 'C10'
PROOF_FILES = [f for f in ['proofs/MetaProofs.v', 'proofs/WorldProofs.v'] if os.path.exists(os.path.join('/verif/coq', f))]


def main(tier, seed):
    return icheck.run(PROP, tier, seed, genchart.Profile(p_contract=0.1, p_send=0.55, p_notify=0.3, p_entry_code=0.6, alt=[(0.25, genchart.parallel_profile(p_send=0.5, p_notify=0.3, p_action=0.8))]), ifam.ScenarioSpec(n_rec=2, props=2, p_queue=0.4), icheck.interest_c10, PROOF_FILES, consts=True, assumptions=['user notify names differ from the built-in meta-event names'])


replay = icheck.replay
